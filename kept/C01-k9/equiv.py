"""C01 keep1: the per-type value encoders _preprocess_single / _len_preprocessed_single.

Checks
 1. the two functions against a literal copy of their historical bodies (REF_*),
    for every proto type and a large set of boundary / random values, including
    the exceptions raised for unencodable values;
 2. the bytes of whole messages against google.protobuf (dynamic messages);
 3. binary round trips (parse(bytes(m)) == m, stable re-encoding, len(m)).
"""
import math
import random
import struct
from dataclasses import dataclass
from datetime import datetime, timedelta, timezone
from typing import Dict, List, Optional

import betterproto
from betterproto import (
    FIXED_TYPES,
    TYPE_BOOL,
    TYPE_BYTES,
    TYPE_DOUBLE,
    TYPE_ENUM,
    TYPE_FIXED32,
    TYPE_FIXED64,
    TYPE_FLOAT,
    TYPE_INT32,
    TYPE_INT64,
    TYPE_MAP,
    TYPE_MESSAGE,
    TYPE_SFIXED32,
    TYPE_SFIXED64,
    TYPE_SINT32,
    TYPE_SINT64,
    TYPE_STRING,
    TYPE_UINT32,
    TYPE_UINT64,
    _Duration,
    _get_wrapper,
    _len_preprocessed_single,
    _pack_fmt,
    _preprocess_single,
    _Timestamp,
    encode_varint,
    size_varint,
)

rnd = random.Random(801)


# --------------------------------------------------------------------------- 1
def REF_preprocess_single(proto_type, wraps, value):
    if proto_type in (
        TYPE_ENUM,
        TYPE_BOOL,
        TYPE_INT32,
        TYPE_INT64,
        TYPE_UINT32,
        TYPE_UINT64,
    ):
        return encode_varint(value)
    elif proto_type in (TYPE_SINT32, TYPE_SINT64):
        return encode_varint(value << 1 if value >= 0 else (value << 1) ^ (~0))
    elif proto_type in FIXED_TYPES:
        return struct.pack(_pack_fmt(proto_type), value)
    elif proto_type == TYPE_STRING:
        return value.encode("utf-8")
    elif proto_type == TYPE_MESSAGE:
        if isinstance(value, datetime):
            value = _Timestamp.from_datetime(value)
        elif isinstance(value, timedelta):
            value = _Duration.from_timedelta(value)
        elif wraps:
            if value is None:
                return b""
            value = _get_wrapper(wraps)(value=value)
        return bytes(value)
    return value


def REF_len_preprocessed_single(proto_type, wraps, value):
    if proto_type in (
        TYPE_ENUM,
        TYPE_BOOL,
        TYPE_INT32,
        TYPE_INT64,
        TYPE_UINT32,
        TYPE_UINT64,
    ):
        return size_varint(value)
    elif proto_type in (TYPE_SINT32, TYPE_SINT64):
        return size_varint(value << 1 if value >= 0 else (value << 1) ^ (~0))
    elif proto_type in FIXED_TYPES:
        return len(struct.pack(_pack_fmt(proto_type), value))
    elif proto_type == TYPE_STRING:
        return len(value.encode("utf-8"))
    elif proto_type == TYPE_MESSAGE:
        if isinstance(value, datetime):
            value = _Timestamp.from_datetime(value)
        elif isinstance(value, timedelta):
            value = _Duration.from_timedelta(value)
        elif wraps:
            if value is None:
                return 0
            value = _get_wrapper(wraps)(value=value)
        return len(bytes(value))
    return len(value)


def outcome(fn, *args):
    try:
        return ("ok", fn(*args))
    except Exception as e:  # noqa: BLE001 - the kind and text of the error are compared
        return ("err", type(e), str(e))


class Colour(betterproto.Enum):
    NEG = -5
    ZERO = 0
    ONE = 1
    BIG = 2**31 - 1


@dataclass(eq=False, repr=False)
class Leaf(betterproto.Message):
    n: int = betterproto.sint64_field(1)
    s: str = betterproto.string_field(2)


@dataclass(eq=False, repr=False)
class Nothing(betterproto.Message):
    pass


INTS = sorted(
    {
        s * (2**k + d)
        for k in (0, 1, 6, 7, 8, 13, 14, 15, 16, 20, 21, 27, 28, 30, 31, 32, 33, 34,
                  35, 41, 42, 48, 49, 55, 56, 57, 62, 63, 64, 65, 70)
        for d in (-2, -1, 0, 1, 2)
        for s in (1, -1)
    }
    | {0, 127, 128, 255, 256, 300, -300}
    | {rnd.randint(-(2**64), 2**64) for _ in range(400)}
    | {rnd.randint(-(2**31), 2**31) for _ in range(200)}
)
FLOATS = [
    0.0, -0.0, 1.0, -1.0, 0.1, 1.5, -2.25, 1e-45, 1e-38, 3.4028234663852886e38,
    3.5e38, 1e39, -1e39, 5e-324, 2.2250738585072014e-308, 1.7976931348623157e308,
    math.inf, -math.inf, math.nan, 2**24 + 1, 2**53 + 1, 1e300,
] + [rnd.uniform(-1e6, 1e6) for _ in range(50)] + [struct.unpack("<d", struct.pack("<Q", rnd.getrandbits(64)))[0] for _ in range(100)]
STRINGS = ["", "a", "\x00", "abc" * 50, "x" * 127, "x" * 128, "x" * 16384, "é", "€",
           "\U0001f600", "\U0001f600" * 40, "﻿bom", "à", "\ud800", "ok\udfff"]
BYTESES = [b"", b"\x00", b"\xff" * 3, bytes(range(256)), bytearray(b"ba"), b"z" * 200]
UTC = timezone.utc
DATETIMES = [
    datetime(1970, 1, 1, tzinfo=UTC),
    datetime(1970, 1, 1, 0, 0, 0, 1, tzinfo=UTC),
    datetime(1969, 12, 31, 23, 59, 59, 999999, tzinfo=UTC),
    datetime(1, 1, 1, tzinfo=UTC),
    datetime(9999, 12, 31, 23, 59, 59, 999999, tzinfo=UTC),
    datetime(2242, 12, 31, 23, 0, 0, 1, tzinfo=UTC),
    datetime(2024, 2, 29, 12, 30, 15, 250000, tzinfo=timezone(timedelta(hours=5, minutes=30))),
    datetime(2001, 9, 9, 1, 46, 40, tzinfo=timezone(timedelta(hours=-8))),
    datetime(2020, 1, 1),  # naive: TypeError, identically
]
DELTAS = [
    timedelta(0), timedelta(microseconds=1), timedelta(microseconds=-1),
    timedelta(seconds=-1, microseconds=-500000), timedelta(seconds=1, microseconds=500000),
    timedelta(days=-3650, microseconds=7), timedelta(days=3650 * 100, seconds=5),
    timedelta(seconds=315576000000), timedelta(seconds=-315576000000),
    timedelta.max, timedelta.min, timedelta(days=104250, microseconds=1),
]
WRAPPED = {
    TYPE_BOOL: [True, False, None],
    TYPE_INT32: [0, 1, -1, 2**31 - 1, -(2**31), None],
    TYPE_INT64: [0, 2**63 - 1, -(2**63), None],
    TYPE_UINT32: [0, 2**32 - 1, None],
    TYPE_UINT64: [0, 2**64 - 1, None],
    TYPE_FLOAT: [0.0, -0.0, 1.5, math.inf, math.nan, None],
    TYPE_DOUBLE: [0.0, -0.0, 0.1, -math.inf, math.nan, None],
    TYPE_STRING: ["", "a", "\U0001f600", None],
    TYPE_BYTES: [b"", b"\x00\x01", None],
}

cases = []
for t in (TYPE_ENUM, TYPE_BOOL, TYPE_INT32, TYPE_INT64, TYPE_UINT32, TYPE_UINT64, TYPE_SINT32, TYPE_SINT64):
    for v in INTS:
        cases.append((t, "", v))
    for v in (True, False, Colour.NEG, Colour.ZERO, Colour.BIG, Colour.try_value(77), Colour.try_value(-(2**31))):
        cases.append((t, "", v))
    for v in (None, "1", 1.5):  # unencodable: identical errors expected
        cases.append((t, "", v))
for t in FIXED_TYPES:
    for v in INTS[:: 7] + FLOATS + [True, None, "x"]:
        cases.append((t, "", v))
for v in STRINGS + [None, b"raw", 5]:
    cases.append((TYPE_STRING, "", v))
for v in BYTESES + [None, 5]:
    cases.append((TYPE_BYTES, "", v))
    cases.append((TYPE_MAP, "", v))
    cases.append(("no-such-type", "", v))
    cases.append((None, "", v))
for v in DATETIMES + DELTAS:
    for w in ("", None, TYPE_INT32, TYPE_STRING):
        cases.append((TYPE_MESSAGE, w, v))
for w, values in WRAPPED.items():
    for v in values:
        cases.append((TYPE_MESSAGE, w, v))
for v in (Leaf(), Leaf(n=-1), Leaf(n=2**63 - 1, s="\U0001f600"), Nothing(), Leaf(s="x" * 300)):
    for w in ("", None):
        cases.append((TYPE_MESSAGE, w, v))
# not a message and no wrapper: whatever bytes() makes of it / the same error
for v in (None, 3, "s", b"abc", [1, 2], 1.5):
    for w in ("", None):
        cases.append((TYPE_MESSAGE, w, v))
# unknown wrapper type / wrapper given a wrong value
cases.append((TYPE_MESSAGE, "sint32", 1))
cases.append((TYPE_MESSAGE, "sint32", None))
cases.append((TYPE_MESSAGE, TYPE_INT32, "x"))
cases.append((TYPE_MESSAGE, TYPE_STRING, 5))


def same(a, b):
    if a[0] != b[0]:
        return False
    if a[0] == "err":
        return a[1:] == b[1:]
    x, y = a[1], b[1]
    return type(x) is type(y) and x == y


n_ok = n_err = 0
for t, w, v in cases:
    got = outcome(_preprocess_single, t, w, v)
    ref = outcome(REF_preprocess_single, t, w, v)
    assert same(got, ref), ("_preprocess_single", t, w, v, got, ref)
    got_len = outcome(_len_preprocessed_single, t, w, v)
    ref_len = outcome(REF_len_preprocessed_single, t, w, v)
    assert same(got_len, ref_len), ("_len_preprocessed_single", t, w, v, got_len, ref_len)
    if got[0] == "ok":
        n_ok += 1
        if got_len[0] == "ok":
            assert got_len[1] == len(got[1]), (t, w, v)
    else:
        n_err += 1
assert n_ok > 5000 and n_err > 50, (n_ok, n_err)

# zig-zag against the protobuf definition for both widths
for v in INTS:
    if -(2**63) <= v < 2**63:
        zz = ((v << 1) ^ (v >> 63)) & (2**64 - 1)
        assert _preprocess_single(TYPE_SINT64, "", v) == encode_varint(zz), v
        assert _preprocess_single(TYPE_SINT32, "", v) == encode_varint(zz), v


# --------------------------------------------------------------------------- 2
from google.protobuf import descriptor_pb2, descriptor_pool, message_factory  # noqa: E402

F = descriptor_pb2.FieldDescriptorProto
SCALARS = [
    ("f_int32", F.TYPE_INT32, betterproto.int32_field),
    ("f_int64", F.TYPE_INT64, betterproto.int64_field),
    ("f_uint32", F.TYPE_UINT32, betterproto.uint32_field),
    ("f_uint64", F.TYPE_UINT64, betterproto.uint64_field),
    ("f_sint32", F.TYPE_SINT32, betterproto.sint32_field),
    ("f_sint64", F.TYPE_SINT64, betterproto.sint64_field),
    ("f_bool", F.TYPE_BOOL, betterproto.bool_field),
    ("f_fixed32", F.TYPE_FIXED32, betterproto.fixed32_field),
    ("f_fixed64", F.TYPE_FIXED64, betterproto.fixed64_field),
    ("f_sfixed32", F.TYPE_SFIXED32, betterproto.sfixed32_field),
    ("f_sfixed64", F.TYPE_SFIXED64, betterproto.sfixed64_field),
    ("f_float", F.TYPE_FLOAT, betterproto.float_field),
    ("f_double", F.TYPE_DOUBLE, betterproto.double_field),
    ("f_string", F.TYPE_STRING, betterproto.string_field),
    ("f_bytes", F.TYPE_BYTES, betterproto.bytes_field),
]

fd = descriptor_pb2.FileDescriptorProto(name="c01_keep1.proto", package="c01k1", syntax="proto3")
fd.dependency.append("google/protobuf/timestamp.proto")
fd.dependency.append("google/protobuf/duration.proto")
fd.dependency.append("google/protobuf/wrappers.proto")
en = fd.enum_type.add(name="Colour")
for name, num in (("ZERO", 0), ("NEG", -5), ("ONE", 1), ("BIG", 2**31 - 1)):
    en.value.add(name=name, number=num)
msg = fd.message_type.add(name="All")
num = 0
for name, ftype, _ in SCALARS:
    num += 1
    msg.field.add(name=name, number=num, type=ftype, label=F.LABEL_OPTIONAL)
for name, ftype, _ in SCALARS:
    num += 1
    msg.field.add(name="r" + name, number=num, type=ftype, label=F.LABEL_REPEATED)
msg.field.add(name="e", number=40, type=F.TYPE_ENUM, type_name=".c01k1.Colour", label=F.LABEL_OPTIONAL)
msg.field.add(name="re", number=41, type=F.TYPE_ENUM, type_name=".c01k1.Colour", label=F.LABEL_REPEATED)
msg.field.add(name="ts", number=42, type=F.TYPE_MESSAGE, type_name=".google.protobuf.Timestamp", label=F.LABEL_OPTIONAL)
msg.field.add(name="du", number=43, type=F.TYPE_MESSAGE, type_name=".google.protobuf.Duration", label=F.LABEL_OPTIONAL)
msg.field.add(name="w_i32", number=44, type=F.TYPE_MESSAGE, type_name=".google.protobuf.Int32Value", label=F.LABEL_OPTIONAL)
msg.field.add(name="w_str", number=45, type=F.TYPE_MESSAGE, type_name=".google.protobuf.StringValue", label=F.LABEL_OPTIONAL)
msg.field.add(name="w_u64", number=46, type=F.TYPE_MESSAGE, type_name=".google.protobuf.UInt64Value", label=F.LABEL_OPTIONAL)
msg.field.add(name="w_dbl", number=47, type=F.TYPE_MESSAGE, type_name=".google.protobuf.DoubleValue", label=F.LABEL_OPTIONAL)
msg.field.add(name="w_bool", number=48, type=F.TYPE_MESSAGE, type_name=".google.protobuf.BoolValue", label=F.LABEL_OPTIONAL)
msg.field.add(name="rts", number=49, type=F.TYPE_MESSAGE, type_name=".google.protobuf.Timestamp", label=F.LABEL_REPEATED)
msg.field.add(name="rdu", number=50, type=F.TYPE_MESSAGE, type_name=".google.protobuf.Duration", label=F.LABEL_REPEATED)

from google.protobuf import duration_pb2, timestamp_pb2, wrappers_pb2  # noqa: E402,F401

pool = descriptor_pool.Default()
pool.Add(fd)
PbAll = message_factory.GetMessageClass(pool.FindMessageTypeByName("c01k1.All"))

_ns = {"__annotations__": {}}
_py = {
    "bool": bool, "float": float, "double": float, "string": str, "bytes": bytes,
}
num = 0
for name, _, mk in SCALARS:
    num += 1
    _ns["__annotations__"][name] = _py.get(name[2:], int)
    _ns[name] = mk(num)
for name, _, mk in SCALARS:
    num += 1
    _ns["__annotations__"]["r" + name] = List[_py.get(name[2:], int)]
    _ns["r" + name] = mk(num)
_ns["__annotations__"].update(
    e=Colour, re=List[Colour], ts=datetime, du=timedelta,
    w_i32=Optional[int], w_str=Optional[str], w_u64=Optional[int],
    w_dbl=Optional[float], w_bool=Optional[bool], rts=List[datetime], rdu=List[timedelta],
)
_ns.update(
    e=betterproto.enum_field(40), re=betterproto.enum_field(41),
    ts=betterproto.message_field(42), du=betterproto.message_field(43),
    w_i32=betterproto.message_field(44, wraps=TYPE_INT32),
    w_str=betterproto.message_field(45, wraps=TYPE_STRING),
    w_u64=betterproto.message_field(46, wraps=TYPE_UINT64),
    w_dbl=betterproto.message_field(47, wraps=TYPE_DOUBLE),
    w_bool=betterproto.message_field(48, wraps=TYPE_BOOL),
    rts=betterproto.message_field(49), rdu=betterproto.message_field(50),
)
All = dataclass(eq=False, repr=False)(type("All", (betterproto.Message,), _ns))

I32 = [0, 1, -1, 127, 128, 2**31 - 1, -(2**31), 300, -300]
I64 = I32 + [2**31, -(2**31) - 1, 2**63 - 1, -(2**63), 2**62, -(2**62) - 1]
U32 = [0, 1, 127, 128, 2**32 - 1, 2**31]
U64 = U32 + [2**32, 2**63, 2**64 - 1]
F32 = [0.0, 1.5, -2.25, math.inf, -math.inf, 3.4028234663852886e38, 2.0**-149, 2.0**-126]
F64 = F32 + [0.1, 1.7976931348623157e308, 5e-324, -1e300]
GOOD_STR = [s for s in STRINGS if "\ud800" not in s and "\udfff" not in s]
DOMAIN = {
    "int32": I32, "int64": I64, "uint32": U32, "uint64": U64, "sint32": I32, "sint64": I64,
    "bool": [True, False], "fixed32": U32, "fixed64": U64, "sfixed32": I32, "sfixed64": I64,
    "float": F32, "double": F64, "string": GOOD_STR, "bytes": [bytes(b) for b in BYTESES],
}
GOOD_DT = [d for d in DATETIMES if d.tzinfo is not None]
GOOD_TD = [d for d in DELTAS if abs(d.days) < 3652500]
ENUMS = [Colour.ZERO, Colour.NEG, Colour.ONE, Colour.BIG, Colour.try_value(77), Colour.try_value(-(2**31))]


def to_pb_kwargs(kw):
    pb = PbAll()
    for k, v in kw.items():
        if k == "ts":
            # betterproto has no presence for a plain Timestamp/Duration field:
            # the zero value is simply not sent
            if v != GOOD_DT[0]:
                getattr(pb, k).FromDatetime(v)
        elif k == "du":
            if v:
                getattr(pb, k).FromTimedelta(v)
        elif k == "rts":
            for d in v:
                pb.rts.add().FromDatetime(d)
        elif k == "rdu":
            for d in v:
                pb.rdu.add().FromTimedelta(d)
        elif k.startswith("w_"):
            getattr(pb, k).value = v
        elif isinstance(v, list):
            getattr(pb, k).extend([int(x) if isinstance(x, Colour) else x for x in v])
        else:
            setattr(pb, k, int(v) if isinstance(v, Colour) else v)
    return pb


def nan_eq(a, b):
    return a == b or (isinstance(a, float) and isinstance(b, float) and math.isnan(a) and math.isnan(b))


def check(kw):
    m = All(**kw)
    data = bytes(m)
    assert data == to_pb_kwargs(kw).SerializeToString(deterministic=True), kw
    assert len(m) == len(data), kw
    back = All().parse(data)
    assert back == m, kw
    assert bytes(back) == data, kw
    for k, v in kw.items():
        got = getattr(back, k)
        if isinstance(v, list):
            assert len(got) == len(v) and all(nan_eq(a, b) for a, b in zip(got, v)), (k, v, got)
        else:
            assert nan_eq(got, v) and (got is None) == (v is None), (k, v, got)


n = 0
for name, _, _ in SCALARS:
    for v in DOMAIN[name[2:]]:
        check({name: v})
        check({"r" + name: [v]})
        n += 2
    check({"r" + name: list(DOMAIN[name[2:]])})
for v in ENUMS:
    check({"e": v})
    check({"re": [v, Colour.ONE, v]})
for v in GOOD_DT:
    check({"ts": v})
check({"rts": GOOD_DT})
for v in GOOD_TD:
    check({"du": v})
check({"rdu": GOOD_TD})
for k, vals in (("w_i32", I32), ("w_str", GOOD_STR), ("w_u64", U64), ("w_dbl", F64), ("w_bool", [True, False])):
    for v in vals:
        check({k: v})
for _ in range(300):
    kw = {}
    for name, _, _ in SCALARS:
        r = rnd.random()
        if r < 0.4:
            kw[name] = rnd.choice(DOMAIN[name[2:]])
        if rnd.random() < 0.3:
            kw["r" + name] = [rnd.choice(DOMAIN[name[2:]]) for _ in range(rnd.randint(1, 5))]
    if rnd.random() < 0.5:
        kw["e"] = rnd.choice(ENUMS)
    if rnd.random() < 0.5:
        kw["ts"] = rnd.choice(GOOD_DT)
    if rnd.random() < 0.5:
        kw["du"] = rnd.choice(GOOD_TD)
    if rnd.random() < 0.5:
        kw["w_i32"] = rnd.choice(I32)
    if rnd.random() < 0.5:
        kw["w_str"] = rnd.choice(GOOD_STR)
    check(kw)

# -0.0 is "default" for betterproto (protobuf would send the sign bit): round trip only
for k in ("f_float", "f_double", "w_dbl"):
    m = All(**{k: -0.0})
    back = All().parse(bytes(m))
    assert back == m and getattr(back, k) == 0.0 and bytes(back) == bytes(m)
m = All(rf_double=[-0.0, 0.0], rf_float=[-0.0])
back = All().parse(bytes(m))
assert back == m and bytes(back) == bytes(m)
assert math.copysign(1, back.rf_double[0]) == -1.0 and math.copysign(1, back.rf_float[0]) == -1.0
# NaN payloads (bytes not compared with protobuf: only the round trip)
for k in ("f_float", "f_double", "w_dbl"):
    m = All(**{k: math.nan})
    back = All().parse(bytes(m))
    assert back == m and math.isnan(getattr(back, k)) and bytes(back) == bytes(m)


# --------------------------------------------------------------------------- 3
@dataclass(eq=False, repr=False)
class Tree(betterproto.Message):
    v: int = betterproto.sint32_field(1)
    kids: List["Tree"] = betterproto.message_field(2)
    left: "Tree" = betterproto.message_field(3)
    by_name: Dict[str, "Tree"] = betterproto.map_field(4, TYPE_STRING, TYPE_MESSAGE)
    zz: Dict[int, int] = betterproto.map_field(5, TYPE_SINT64, TYPE_SINT32)
    when: Dict[int, datetime] = betterproto.map_field(6, TYPE_INT32, TYPE_MESSAGE)
    a: int = betterproto.sint64_field(7, group="g")
    b: timedelta = betterproto.message_field(8, group="g")
    c: Optional[int] = betterproto.message_field(9, wraps=TYPE_INT64, group="g")
    o: Optional[int] = betterproto.sint32_field(10, optional=True)
    od: Optional[timedelta] = betterproto.message_field(11, optional=True)
    none: "Nothing" = betterproto.message_field(12)


def rt(m):
    data = bytes(m)
    back = type(m)().parse(data)
    assert back == m, (m, back)
    assert bytes(back) == data
    assert len(m) == len(data)
    return back


for v in I32:
    b = rt(Tree(v=v, kids=[Tree(v=-v - 1), Tree()], left=Tree(v=v)))
    assert b.v == v and b.kids[0].v == -v - 1 and betterproto.serialized_on_wire(b.left)
    b = rt(Tree(zz={v: -v - 1 if v > -(2**31) else 0, 2**63 - 1: 0, -(2**63): -1, 12345: 0}))
    assert b.zz[v] == (-v - 1 if v > -(2**31) else 0) and b.zz[12345] == 0
    b = rt(Tree(o=v))
    assert b.o == v
    b = rt(Tree(a=v))
    assert betterproto.which_one_of(b, "g") == ("a", v)
    b = rt(Tree(c=v))
    assert betterproto.which_one_of(b, "g") == ("c", v)
for d in GOOD_TD:
    assert betterproto.which_one_of(rt(Tree(b=d)), "g") == ("b", d)
    assert rt(Tree(od=d)).od == d
for d in GOOD_DT:
    assert rt(Tree(when={0: d, -1: GOOD_DT[0]})).when[0] == d
b = rt(Tree())
assert b.o is None and b.od is None and betterproto.which_one_of(b, "g") == ("", None)
assert not betterproto.serialized_on_wire(b.left)
b = rt(Tree(o=0, od=timedelta(0), a=0, none=Nothing(), by_name={"": Tree(), "x": Tree(v=-1)}))
assert b.o == 0 and b.od == timedelta(0) and betterproto.which_one_of(b, "g") == ("a", 0)
assert betterproto.serialized_on_wire(b.none) and b.by_name == {"": Tree(), "x": Tree(v=-1)}
deep = Tree(v=-1)
for i in range(60):
    deep = Tree(v=i, left=deep, kids=[Tree(v=-i)])
rt(deep)

print("ok", n_ok, n_err, n)
