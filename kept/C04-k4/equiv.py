"""C04 keep2: the key-casing helpers of betterproto.casing behave as before.

The functions of the installed betterproto.casing are compared with reference copies of
the original implementations (embedded below) on
  * every string of length <= 6 over a 7-letter alphabet covering each character class
    of the regular expressions (lower, upper, digit, '_', other symbol),
  * 60000 seeded random longer strings,
  * realistic proto field / message / keyword names,
for strict and non-strict mode.  Then the JSON/dict round trip is run on a message whose
field names are awkward for casing (digits, keywords, trailing underscores, acronyms).
Exits 0 on the pristine tree and with the refactor applied.
"""
import itertools
import json
import keyword
import random
import re
from dataclasses import dataclass
from typing import Dict, List, Optional

import betterproto
from betterproto import Casing, casing as lib

# ---------------------------------------------------------------------------
# reference implementation (verbatim copy of the original functions)
# ---------------------------------------------------------------------------
SYMBOLS = "[^a-zA-Z0-9]*"
WORD = "[A-Z]*[a-z]*[0-9]*"
WORD_UPPER = "[A-Z]+(?![a-z])[0-9]*"

assert (lib.SYMBOLS, lib.WORD, lib.WORD_UPPER) == (SYMBOLS, WORD, WORD_UPPER)


def ref_safe_snake_case(value: str) -> str:
    value = ref_snake_case(value)
    value = ref_sanitize_name(value)
    return value


def ref_snake_case(value: str, strict: bool = True) -> str:
    def substitute_word(symbols: str, word: str, is_start: bool) -> str:
        if not word:
            return ""
        if strict:
            delimiter_count = 0 if is_start else 1
        elif is_start:
            delimiter_count = len(symbols)
        elif word.isupper() or word.islower():
            delimiter_count = max(1, len(symbols))
        else:
            delimiter_count = len(symbols) + 1

        return ("_" * delimiter_count) + word.lower()

    snake = re.sub(
        f"(^)?({SYMBOLS})({WORD_UPPER}|{WORD})",
        lambda groups: substitute_word(groups[2], groups[3], groups[1] is not None),
        value,
    )
    return snake


def ref_pascal_case(value: str, strict: bool = True) -> str:
    def substitute_word(symbols, word):
        if strict:
            return word.capitalize()

        if word.islower():
            delimiter_length = len(symbols[:-1])
        else:
            delimiter_length = len(symbols)

        return ("_" * delimiter_length) + word.capitalize()

    return re.sub(
        f"({SYMBOLS})({WORD_UPPER}|{WORD})",
        lambda groups: substitute_word(groups[1], groups[2]),
        value,
    )


def ref_lowercase_first(value: str) -> str:
    return value[0:1].lower() + value[1:]


def ref_camel_case(value: str, strict: bool = True) -> str:
    return ref_lowercase_first(ref_pascal_case(value, strict=strict))


def ref_sanitize_name(value: str) -> str:
    if keyword.iskeyword(value):
        return f"{value}_"
    if not value.isidentifier():
        return f"_{value}"
    return value


# ---------------------------------------------------------------------------
# comparison
# ---------------------------------------------------------------------------
checked = 0


def compare(value: str) -> None:
    global checked
    checked += 1
    for strict in (True, False):
        assert lib.snake_case(value, strict) == ref_snake_case(value, strict), (
            "snake",
            value,
            strict,
        )
        assert lib.snake_case(value, strict=strict) == ref_snake_case(value, strict)
        assert lib.pascal_case(value, strict) == ref_pascal_case(value, strict), (
            "pascal",
            value,
            strict,
        )
        assert lib.pascal_case(value, strict=strict) == ref_pascal_case(value, strict)
        assert lib.camel_case(value, strict) == ref_camel_case(value, strict), (
            "camel",
            value,
            strict,
        )
    # defaults are the strict variants
    assert lib.snake_case(value) == ref_snake_case(value)
    assert lib.pascal_case(value) == ref_pascal_case(value)
    assert lib.camel_case(value) == ref_camel_case(value)
    assert lib.safe_snake_case(value) == ref_safe_snake_case(value), ("safe", value)
    assert lib.sanitize_name(value) == ref_sanitize_name(value)
    assert lib.lowercase_first(value) == ref_lowercase_first(value)
    # what to_dict / from_dict do with a name
    for fn, ref in ((Casing.CAMEL, ref_camel_case), (Casing.SNAKE, ref_snake_case)):
        assert fn(value).rstrip("_") == ref(value).rstrip("_")


# 1. exhaustive over a small alphabet that covers every character class
ALPHABET = "aB1_-Zq"
for n in range(0, 7):
    for chars in itertools.product(ALPHABET, repeat=n):
        compare("".join(chars))

# 2. random longer strings, biased towards identifier-like text
rng = random.Random(40404)
POOL = "abcxyzABCXYZ0189___--. /éß"
for _ in range(60000):
    n = rng.randrange(7, 40)
    compare("".join(rng.choice(POOL) for _ in range(n)))

# 3. realistic names
NAMES = [
    "", "a", "A", "_", "__", "foo", "Foo", "FOO", "fooBar", "FooBar", "foo_bar",
    "foo__bar", "_foo", "__foo__", "foo_", "foo__", "FOO_BAR", "fooBAR", "FOOBar",
    "HTTPServer", "getHTTPResponseCode", "HTTP2Server", "http2_server", "oauth2Token",
    "address_line_1", "addressLine1", "address_line1", "line1", "1line", "1_line",
    "x1y2z3", "X1Y2Z3", "snake_case_name", "camelCaseName", "PascalCaseName",
    "SCREAMING_SNAKE_CASE", "kebab-case-name", "dotted.name.here", "with space",
    "trailingUnderscore_", "_leadingUnderscore", "int32_value", "uInt64Value",
    "Int64Value", "field_name_by_key", "google.protobuf.Timestamp", "__init__",
    "UPPER123lower", "lower123UPPER", "aB", "Ab", "AB", "ab", "aBc", "ABc", "AbC",
    "naïve_field", "größe", "ÀB", "__", "a__b__c", "a_1_b", "a1_b2", "A1B2",
    "TestID", "test_id", "testId", "testID", "IDTest", "id", "ID", "Id", "iD",
]
NAMES += list(keyword.kwlist) + [k + "_" for k in keyword.kwlist]
NAMES += [k.capitalize() for k in keyword.kwlist] + [k.upper() for k in keyword.kwlist]
NAMES += ["None", "True", "False", "none", "true", "false", "match", "case", "type"]
for name in NAMES:
    compare(name)
    compare(name + "_")
    compare("_" + name)

# ---------------------------------------------------------------------------
# 4. round trip with awkward field names, both casings
# ---------------------------------------------------------------------------


@dataclass(eq=False, repr=False)
class Inner(betterproto.Message):
    address_line_1: str = betterproto.string_field(1)
    address_line_2: str = betterproto.string_field(2)
    http_status: int = betterproto.int64_field(3)


@dataclass(eq=False, repr=False)
class Awkward(betterproto.Message):
    from_: str = betterproto.string_field(1)
    class_: int = betterproto.int32_field(2)
    import_: List[str] = betterproto.string_field(3)
    address_line_1: str = betterproto.string_field(4)
    x1y2: int = betterproto.int64_field(5)
    http2_server: bytes = betterproto.bytes_field(6)
    some_id: Optional[int] = betterproto.uint64_field(7, optional=True, group="_some_id")
    inner_by_name: Dict[str, Inner] = betterproto.map_field(
        8, betterproto.TYPE_STRING, betterproto.TYPE_MESSAGE
    )
    inner_msg: Inner = betterproto.message_field(9)
    a: bool = betterproto.bool_field(10)
    very_long_field_name_with_many_parts: float = betterproto.double_field(11)
    in_: str = betterproto.string_field(12, group="one_of_kw")
    is_: int = betterproto.sint64_field(13, group="one_of_kw")


m = Awkward(
    from_="f",
    class_=-3,
    import_=["a", ""],
    address_line_1="street",
    x1y2=2**62,
    http2_server=b"\x00\xff",
    some_id=0,
    inner_by_name={"address_line_1": Inner("l1", "l2", -(2**63)), "": Inner()},
    inner_msg=Inner(address_line_2="second"),
    a=True,
    very_long_field_name_with_many_parts=float("-inf"),
    is_=0,
)
assert m.to_dict() == {
    "from": "f",
    "class": -3,
    "import": ["a", ""],
    "addressLine1": "street",
    "x1Y2": str(2**62),
    "http2Server": "AP8=",
    "someId": "0",
    "innerByName": {
        "address_line_1": {
            "addressLine1": "l1",
            "addressLine2": "l2",
            "httpStatus": str(-(2**63)),
        },
        "": {},
    },
    "innerMsg": {"addressLine2": "second"},
    "a": True,
    "veryLongFieldNameWithManyParts": "-Infinity",
    "is": "0",
}, m.to_dict()
assert m.to_dict(Casing.SNAKE) == {
    "from": "f",
    "class": -3,
    "import": ["a", ""],
    "address_line_1": "street",
    "x1_y2": str(2**62),
    "http2_server": "AP8=",
    "some_id": "0",
    "inner_by_name": {
        "address_line_1": {
            "address_line_1": "l1",
            "address_line_2": "l2",
            "http_status": str(-(2**63)),
        },
        "": {},
    },
    "inner_msg": {"address_line_2": "second"},
    "a": True,
    "very_long_field_name_with_many_parts": "-Infinity",
    "is": "0",
}, m.to_dict(Casing.SNAKE)

for msg in (m, Awkward(), Awkward(in_=""), Awkward(import_=["x"], class_=1)):
    wire = bytes(msg)
    for casing in (Casing.CAMEL, Casing.SNAKE):
        d = msg.to_dict(casing=casing)
        text = json.dumps(d)
        assert text == msg.to_json(casing=casing)
        for back in (
            Awkward.from_dict(d),
            Awkward().from_dict(d),
            Awkward().from_json(text),
        ):
            assert back == msg, (d, back)
            assert bytes(back) == wire

# keys that are not in the table fall back to safe_snake_case(key)
assert Awkward.from_dict(
    {"HTTP2Server": "AP8=", "Class": 7, "From": "z", "X1Y2": "9", "unknownKey": 1}
) == Awkward(http2_server=b"\x00\xff", class_=7, from_="z")
assert Awkward._betterproto.field_name_by_key["addressLine1"] == "address_line_1"
assert Awkward._betterproto.field_name_by_key["from"] == "from_"

print(f"C04 keep2 equiv: OK ({checked} names compared)")
