# --- common harness: run protoc (grpc_tools) + the betterproto plugin in-process, import the
# --- generated package and compare it with the FileDescriptorSet protoc produced.
import os, sys, tempfile, importlib, shutil, dataclasses, typing, io, contextlib, atexit
from grpc_tools import protoc
import grpc_tools
from google.protobuf import descriptor_pb2
from google.protobuf.compiler import plugin_pb2

import betterproto
from betterproto.plugin import compiler as plugin_compiler
# ruff is not installed: the two formatting passes become the identity
plugin_compiler.subprocess.check_output = lambda cmd, input, encoding: input
from betterproto.plugin.models import monkey_patch_oneof_index
from betterproto.plugin.parser import generate_code
from betterproto.lib.google.protobuf.compiler import CodeGeneratorRequest
monkey_patch_oneof_index()

PROTO_INCLUDE = os.path.join(os.path.dirname(grpc_tools.__file__), "_proto")
_counter = [0]
_fds_cache = {}


def descriptor_set(files):
    """files: {relative name: text} -> serialized FileDescriptorSet produced by protoc."""
    key = tuple(files.items())
    if key not in _fds_cache:
        src = tempfile.mkdtemp(prefix="r10c03src")
        try:
            for name, text in files.items():
                p = os.path.join(src, name)
                os.makedirs(os.path.dirname(p), exist_ok=True)
                with open(p, "w") as fh:
                    fh.write(text)
            out = os.path.join(src, "set.bin")
            rc = protoc.main(["protoc", f"-I{src}", f"-I{PROTO_INCLUDE}", f"--descriptor_set_out={out}",
                              "--include_source_info", "--include_imports", *files.keys()])
            assert rc == 0, "protoc rejected the schema"
            with open(out, "rb") as fh:
                _fds_cache[key] = fh.read()
        finally:
            shutil.rmtree(src)
    return _fds_cache[key]


def run_plugin(files, parameter=""):
    """Returns (FileDescriptorSet, {output name: content}, plugin stderr text)."""
    fds = descriptor_pb2.FileDescriptorSet()
    fds.ParseFromString(descriptor_set(files))
    req = plugin_pb2.CodeGeneratorRequest()
    req.file_to_generate.extend(files.keys())
    req.parameter = parameter
    req.proto_file.extend(fds.file)
    request = CodeGeneratorRequest().parse(req.SerializeToString())
    err = io.StringIO()
    with contextlib.redirect_stderr(err):
        response = generate_code(request)
    names = [f.name for f in response.file]
    assert len(names) == len(set(names)), names
    return fds, {f.name: f.content for f in response.file}, err.getvalue()


def compile_protos(files, parameter=""):
    fds, outputs, _ = run_plugin(files, parameter)
    return fds, outputs


def import_generated(outputs):
    _counter[0] += 1
    root_name = f"c03gen{_counter[0]}"
    base = tempfile.mkdtemp(prefix="r10c03out")
    atexit.register(shutil.rmtree, base, True)
    root = os.path.join(base, root_name)
    os.makedirs(root)
    for name, content in outputs.items():
        p = os.path.join(root, name)
        os.makedirs(os.path.dirname(p), exist_ok=True)
        with open(p, "w") as fh:
            fh.write(content)
    sys.path.insert(0, base)
    importlib.invalidate_caches()
    return root_name, base

import sys, importlib, dataclasses, typing, datetime
from typing import Dict, List, Optional
from google.protobuf.descriptor_pb2 import FieldDescriptorProto as F
from betterproto.compile.naming import pythonize_class_name, pythonize_field_name

SCALAR_PY = {F.TYPE_DOUBLE: float, F.TYPE_FLOAT: float, F.TYPE_BOOL: bool, F.TYPE_STRING: str, F.TYPE_BYTES: bytes}
for t in (F.TYPE_INT64, F.TYPE_UINT64, F.TYPE_INT32, F.TYPE_FIXED64, F.TYPE_FIXED32, F.TYPE_UINT32,
          F.TYPE_SFIXED32, F.TYPE_SFIXED64, F.TYPE_SINT32, F.TYPE_SINT64):
    SCALAR_PY[t] = int
TYPE_NAME = {v.number: v.name[5:].lower() for v in F.Type.DESCRIPTOR.values}
WRAPPERS = {".google.protobuf.DoubleValue": ("double", float), ".google.protobuf.FloatValue": ("float", float),
 ".google.protobuf.Int32Value": ("int32", int), ".google.protobuf.Int64Value": ("int64", int),
 ".google.protobuf.UInt32Value": ("uint32", int), ".google.protobuf.UInt64Value": ("uint64", int),
 ".google.protobuf.BoolValue": ("bool", bool), ".google.protobuf.StringValue": ("string", str),
 ".google.protobuf.BytesValue": ("bytes", bytes)}

def walk(fd):
    def rec(msgs, prefix):
        for m in msgs:
            if m.options.map_entry:
                continue
            yield prefix + [m.name], m
            for e in m.enum_type:
                yield prefix + [m.name, e.name], e
            yield from rec(m.nested_type, prefix + [m.name])
    for e in fd.enum_type:
        yield [e.name], e
    yield from rec(fd.message_type, [])

def check(files, parameter=""):
    fds, outputs = compile_protos(files, parameter)
    root, base = import_generated(outputs)
    classes = {}   # full proto name -> class
    count = 0
    for fd in fds.file:
        if fd.package == "google.protobuf":
            continue
        modname = root + ("." + fd.package if fd.package else "")
        mod = importlib.import_module(modname)
        for path, obj in walk(fd):
            cname = pythonize_class_name("_" + "_".join(path))
            cls = getattr(mod, cname, None)
            assert cls is not None, f"no class {cname} in {modname}"
            full = "." + ".".join(([fd.package] if fd.package else []) + path)
            assert full not in classes
            classes[full] = cls
    assert len(set(map(id, classes.values()))) == len(classes), "two schema types share a class"
    import betterproto.lib.google.protobuf as glib
    def resolve(type_name):
        if type_name.startswith(".google.protobuf."):
            return getattr(glib, type_name.rsplit(".", 1)[1])
        return classes[type_name]
    for fd in fds.file:
        if fd.package == "google.protobuf":
            continue
        for path, obj in walk(fd):
            full = "." + ".".join(([fd.package] if fd.package else []) + path)
            cls = classes[full]
            if not hasattr(obj, "field"):
                assert issubclass(cls, betterproto.Enum)
                got = sorted((n, int(m)) for n, m in cls.__members__.items())
                assert sorted(v for _, v in got) == sorted(v.number for v in obj.value), (full, got)
                continue
            assert issubclass(cls, betterproto.Message)
            dfields = dataclasses.fields(cls)
            assert len(dfields) == len(obj.field), (full, [f.name for f in dfields])
            hints = cls._type_hints()
            by_number = {f.metadata["betterproto"].number: f for f in dfields}
            assert len(by_number) == len(dfields)
            entries = {("%s.%s" % (full, n.name)): n for n in obj.nested_type if n.options.map_entry}
            for pf in obj.field:
                count += 1
                df = by_number.get(pf.number)
                assert df is not None, (full, pf.name, "number missing")
                assert df.name == pythonize_field_name(pf.name), (df.name, pf.name)
                meta = df.metadata["betterproto"]
                hint = hints[df.name]
                where = (full, pf.name)
                if pf.type == F.TYPE_MESSAGE and pf.type_name in entries:
                    e = entries[pf.type_name]
                    k, v = e.field
                    assert meta.proto_type == "map", where
                    assert meta.map_types == (TYPE_NAME[k.type], TYPE_NAME[v.type]), (where, meta.map_types)
                    assert typing.get_origin(hint) is dict, (where, hint)
                    hk, hv = typing.get_args(hint)
                    assert hk is SCALAR_PY[k.type], (where, hint)
                    if v.type in SCALAR_PY:
                        assert hv is SCALAR_PY[v.type], (where, hint)
                    elif v.type_name == ".google.protobuf.Timestamp":
                        assert hv is datetime.datetime, (where, hint)
                    elif v.type_name == ".google.protobuf.Duration":
                        assert hv is datetime.timedelta, (where, hint)
                    else:
                        assert hv is resolve(v.type_name), (where, hint)
                    assert not meta.optional and meta.group is None
                    continue
                assert meta.proto_type == TYPE_NAME[pf.type], (where, meta.proto_type)
                assert meta.map_types is None, where
                # base python type
                if pf.type in SCALAR_PY:
                    base_t = SCALAR_PY[pf.type]; wraps = None
                elif pf.type_name in WRAPPERS:
                    wraps, inner = WRAPPERS[pf.type_name]
                    base_t = Optional[inner]
                elif pf.type_name == ".google.protobuf.Timestamp":
                    base_t = datetime.datetime; wraps = None
                elif pf.type_name == ".google.protobuf.Duration":
                    base_t = datetime.timedelta; wraps = None
                else:
                    base_t = resolve(pf.type_name); wraps = None
                assert meta.wraps == wraps, (where, meta.wraps)
                repeated = pf.label == F.LABEL_REPEATED
                opt = pf.proto3_optional
                if repeated:
                    assert typing.get_origin(hint) is list and typing.get_args(hint)[0] == base_t, (where, hint)
                elif opt:
                    assert hint == Optional[base_t], (where, hint)
                else:
                    assert hint == base_t, (where, hint)
                assert bool(meta.optional) == bool(opt), (where, "optional", meta.optional)
                if pf.HasField("oneof_index") and not opt:
                    assert meta.group == obj.oneof_decl[pf.oneof_index].name, (where, meta.group)
                else:
                    assert meta.group is None, (where, meta.group)
    return fds, outputs, classes, count


# --- deterministic grammar-based schema generator ------------------------------------------
import random

SCALARS = ["double", "float", "int32", "int64", "uint32", "uint64", "sint32", "sint64",
           "fixed32", "fixed64", "sfixed32", "sfixed64", "bool", "string", "bytes"]
MAP_KEYS = ["int32", "int64", "uint32", "uint64", "sint32", "sint64", "fixed32", "fixed64",
            "sfixed32", "sfixed64", "bool", "string"]
WELL_KNOWN = {"google.protobuf.Timestamp": "timestamp", "google.protobuf.Duration": "duration",
       "google.protobuf.Empty": "empty", "google.protobuf.Any": "any", "google.protobuf.Struct": "struct",
       "google.protobuf.FieldMask": "field_mask"}
for _w in ("Double", "Float", "Int32", "Int64", "UInt32", "UInt64", "Bool", "String", "Bytes"):
    WELL_KNOWN[f"google.protobuf.{_w}Value"] = "wrappers"
FIELD_WORDS = ["id", "name", "class", "from", "import", "str", "int", "float", "bool", "bytes", "list",
               "type", "value", "camelCase", "with_under_score", "x1", "None", "lambda", "global", "object",
               "set", "map", "in", "is", "HTTPCode", "a_b_c", "total2x", "def", "pass", "range", "len"]
MSG_WORDS = ["Order", "Item", "Node", "Tree", "User", "Group", "Event", "Spec", "Status", "Frame",
             "Packet", "Shape", "Route", "Token", "Batch", "Query", "Reply", "Chunk", "Label", "Zone"]
ENUM_WORDS = ["Kind", "Mode", "Level", "Color", "State", "Phase", "Flag", "Unit"]
VALUE_WORDS = ["ALPHA", "BRAVO", "CHARLIE", "DELTA", "ECHO", "FOXTROT", "GOLF", "HOTEL"]
PACKAGES = ["alpha", "alpha.beta", "alpha.beta.deep", "gamma.v1", "gamma.v1beta", "delta_pkg", "alpha.other"]
COMMENTS = ["plain comment", 'has "quotes"', "back\\\\slash", 'ends with quote"', "multi\n  // line comment", "'''", ""]


def generate_schema(seed):
    rnd = random.Random(seed)
    files = {}
    known_msgs = []   # (full name, file)
    known_enums = []
    used_names = set()
    n_pkgs = rnd.randint(1, 3)
    pkgs = rnd.sample(PACKAGES, n_pkgs)
    file_specs = []
    for p in pkgs:
        for k in range(rnd.randint(1, 2)):
            file_specs.append((p, f"{p.replace('.', '/')}/f{k}.proto"))
    rnd.shuffle(file_specs)

    def fresh(words):
        while True:
            n = rnd.choice(words) + (str(rnd.randint(2, 99)) if rnd.random() < 0.6 else "")
            if n not in used_names:
                used_names.add(n)
                return n

    def comment(ind):
        c = rnd.choice(COMMENTS)
        return f"{ind}// {c}\n" if c and rnd.random() < 0.4 else ""

    for pkg, fname in file_specs:
        # declare the type skeleton of this file first (so fields may refer to anything in it)
        local_msgs, local_enums = [], []

        def declare(prefix, depth):
            name = fresh(MSG_WORDS)
            full = f"{prefix}.{name}"
            node = {"name": name, "full": full, "msgs": [], "enums": []}
            local_msgs.append(full)
            for _ in range(rnd.randint(0, 2) if depth < 2 else 0):
                node["msgs"].append(declare(full, depth + 1))
            for _ in range(rnd.randint(0, 1)):
                en = fresh(ENUM_WORDS)
                node["enums"].append(en)
                local_enums.append(f"{full}.{en}")
            return node

        tops = [declare(pkg, 0) for _ in range(rnd.randint(1, 3))]
        top_enums = []
        for _ in range(rnd.randint(0, 2)):
            en = fresh(ENUM_WORDS)
            top_enums.append(en)
            local_enums.append(f"{pkg}.{en}")
        imports = set()

        def pick_type(allow_wkt=True):
            r = rnd.random()
            if r < 0.45:
                return rnd.choice(SCALARS)
            if r < 0.6 and allow_wkt:
                t = rnd.choice(sorted(WELL_KNOWN))
                imports.add(f"google/protobuf/{WELL_KNOWN[t]}.proto")
                return t
            if r < 0.8 and (local_enums or known_enums):
                pool = local_enums + [e for e, _ in known_enums]
                t = rnd.choice(pool)
                for e, f in known_enums:
                    if e == t:
                        imports.add(f)
                return "." + t
            pool = local_msgs + [m for m, _ in known_msgs]
            t = rnd.choice(pool)
            for m, f in known_msgs:
                if m == t:
                    imports.add(f)
            return "." + t

        def enum_text(name, ind):
            prefix = "".join("_" + c if c.isupper() and i else c for i, c in enumerate(name)).upper()
            use_prefix = rnd.random() < 0.7
            alias = rnd.random() < 0.3
            words = rnd.sample(VALUE_WORDS, rnd.randint(1, 5))
            out = comment(ind) + f"{ind}enum {name} {{\n"
            if alias:
                out += f"{ind}  option allow_alias = true;\n"
            numbers = [0]
            for _ in words[1:]:
                if alias and rnd.random() < 0.4:
                    numbers.append(rnd.choice(numbers))
                else:
                    while True:
                        n = rnd.choice([rnd.randint(-5, 20), -2147483648, 2147483647, rnd.randint(-10**6, 10**6)])
                        if n not in numbers:
                            break
                    numbers.append(n)
            if alias and len(set(numbers)) == len(numbers):
                words.append("ZULU"); numbers.append(numbers[-1])
            uniq = len(used_names) * 100 + rnd.randint(0, 99)
            used_names.add(f"#{uniq}")
            for w, n in zip(words, numbers):
                out += comment(ind + "  ") + f"{ind}  {prefix + '_' + w if use_prefix else w + '_' + str(uniq)} = {n};\n"
            return out + f"{ind}}}\n"

        def msg_text(node, ind):
            out = comment(ind) + f"{ind}message {node['name']} {{\n"
            for e in node["enums"]:
                out += enum_text(e, ind + "  ")
            for m in node["msgs"]:
                out += msg_text(m, ind + "  ")
            names = rnd.sample(FIELD_WORDS, rnd.randint(0, 9))
            number = 0
            i = 0
            while i < len(names):
                number += rnd.choice([1, 1, 1, 2, 7, 1000])
                fname_ = names[i]
                r = rnd.random()
                c = comment(ind + "  ")
                if r < 0.12 and i + 1 < len(names):
                    k = rnd.randint(1, min(3, len(names) - i - 1))
                    out += f"{ind}  oneof {names[i]}_choice {{\n"
                    for nm in names[i + 1:i + 1 + k]:
                        out += f"{ind}    {pick_type()} {nm} = {number};\n"
                        number += 1
                    out += f"{ind}  }}\n"
                    i += 1 + k
                    continue
                if r < 0.27:
                    vt = pick_type()
                    out += c + f"{ind}  map<{rnd.choice(MAP_KEYS)}, {vt}> {fname_} = {number};\n"
                elif r < 0.45:
                    out += c + f"{ind}  repeated {pick_type()} {fname_} = {number};\n"
                elif r < 0.6:
                    out += c + f"{ind}  optional {pick_type()} {fname_} = {number};\n"
                else:
                    out += c + f"{ind}  {pick_type()} {fname_} = {number};\n"
                i += 1
            return out + f"{ind}}}\n"

        body = ""
        for e in top_enums:
            body += enum_text(e, "")
        for t in tops:
            body += msg_text(t, "")
        head = 'syntax = "proto3";\n' + f"package {pkg};\n"
        head += "".join(f'import "{i}";\n' for i in sorted(imports))
        files[fname] = head + body
        known_msgs += [(m, fname) for m in local_msgs]
        known_enums += [(e, fname) for e in local_enums]
    return files


# ---------------------------------------------------------------------------------------------
# Rendered-text oracle: digests of what the plugin emits (files + stderr report), recorded on the
# reference tree.  Lines are sorted inside each file because the order of the cross-package
# import lines and of the empty __init__.py entries follows set iteration (hash seed dependent).
import hashlib, glob, json

def digest(outputs, stderr_text):
    h = hashlib.sha256()
    for name in sorted(outputs):
        h.update(name.encode() + b"\0")
        h.update("\n".join(sorted(outputs[name].split("\n"))).encode() + b"\0")
    h.update("\n".join(sorted(stderr_text.split("\n"))).encode())
    return h.hexdigest()[:16]


HAND_WRITTEN = {
    "kitchen_sink": {"a.proto": '''
syntax = "proto3";
package shop.v1;
import "google/protobuf/timestamp.proto";
import "google/protobuf/duration.proto";
import "google/protobuf/wrappers.proto";
import "other.proto";
// comment "quoted"
enum Color { COLOR_UNSPECIFIED = 0; COLOR_RED = 1; COLOR_NEG = -5; }
message Outer {
  // nested
  message Inner { int32 x = 1; enum Kind { K0 = 0; K1 = 1; } Kind kind = 2; map<string, Inner> kids = 3; }
  double f1 = 1; float f2 = 2; int32 f3 = 3; int64 f4 = 4; uint32 f5 = 5; uint64 f6 = 6; sint32 f7 = 7; sint64 f8 = 8;
  fixed32 f9 = 9; fixed64 f10 = 10; sfixed32 f11 = 11; sfixed64 f12 = 12; bool f13 = 13; string f14 = 14; bytes f15 = 15;
  repeated Inner inners = 16;
  map<int32, string> m1 = 17;
  map<bool, google.protobuf.Timestamp> m2 = 18;
  map<string, Color> m3 = 19;
  oneof choice { int32 a = 20; string b = 21; Inner c = 22; google.protobuf.Int32Value w = 30;}
  optional int32 oi = 23;
  optional Inner om = 24;
  google.protobuf.Timestamp ts = 25;
  repeated google.protobuf.Duration ds = 26;
  google.protobuf.StringValue sv = 27;
  optional google.protobuf.BoolValue obv = 28;
  Outer rec = 29;
  other.pkg.Thing thing = 31;
  repeated Color colors = 32;
  string class = 33;
  int32 str = 34;
  string name_str = 35;
  map<string, google.protobuf.Int64Value> mw = 36;
  oneof second { bool s1 = 40; Color s2 = 41; }
}
service Shop {
  // unary
  rpc Get (Outer) returns (other.pkg.Thing);
  rpc Watch (Outer) returns (stream Outer.Inner);
  rpc Push (stream Outer) returns (Outer) { option deprecated = true; }
  rpc Chat (stream other.pkg.Thing) returns (stream other.pkg.Thing);
}
''', "other.proto": '''
syntax = "proto3";
package other.pkg;
message Thing { int32 id = 1; Thing next = 2; enum E { E_A = 0; E_B = 1; } E e = 3; int32 old = 4 [deprecated = true]; }
message Gone { option deprecated = true; }
service Empty {}
'''},
    "only_enums_and_empty": {"e.proto": '''
syntax = "proto3";
package only.enums;
enum Al { option allow_alias = true; AL_ZERO = 0; AL_NIL = 0; AL_ONE = 1; AL_NEG = -2147483648; AL_MAX = 2147483647; }
''', "m.proto": '''
syntax = "proto3";
package only.msgs;
message Empty {}
message None { None none = 1; }
''', "t.proto": '''
syntax = "proto3";
package only.times;
import "google/protobuf/duration.proto";
message D { google.protobuf.Duration d = 1; }
'''},
    "root_and_children": {"root.proto": '''
syntax = "proto3";
import "child/c.proto";
message RootLeaf { int32 v = 1; }
message Root { child.C c = 1; map<string, child.C> cs = 2; }
''', "child/c.proto": '''
syntax = "proto3";
package child;
message C { repeated C more = 1; optional string note = 2; }
'''},
}
# generated modules that are not importable (name collisions) but exercise the collision report
DIGEST_ONLY = {
    "collisions": {"c.proto": '''
syntax = "proto3";
package clash;
import "google/protobuf/timestamp.proto";
message List { repeated int32 xs = 1; }
message Dict { map<string, int32> m = 1; optional List l = 2; }
message Optional { google.protobuf.Timestamp t = 1; }
'''},
}
OPTIONS = ["", "typing.root", "typing.310", "pydantic_dataclasses", "INCLUDE_GOOGLE,typing.root"]
SEMANTIC_OPTIONS = ["", "typing.root", "typing.310"]
N_SEEDS = 14


def corpus_cases():
    corpus = os.path.normpath(os.path.join(os.path.dirname(betterproto.__file__), "..", "..", "tests", "inputs"))
    cases = {}
    if os.path.isdir(corpus):
        for d in sorted(os.listdir(corpus)):
            protos = sorted(glob.glob(os.path.join(corpus, d, "*.proto")))
            if protos:
                cases[f"corpus/{d}"] = {os.path.basename(p): open(p).read() for p in protos}
    return cases


def all_cases():
    cases = dict(HAND_WRITTEN)
    for seed in range(N_SEEDS):
        cases[f"gen/{seed}"] = generate_schema(seed)
    cases.update(corpus_cases())
    return cases


def run_equivalence_suite(golden):
    cases = all_cases()
    got = {}
    semantic_fields = 0
    for name, files in list(cases.items()) + list(DIGEST_ONLY.items()):
        opts = OPTIONS if not name.startswith("corpus/") else ["", "pydantic_dataclasses"]
        for opt in opts:
            _, outputs, err = run_plugin(files, opt)
            got[f"{name}|{opt}"] = digest(outputs, err)
    if golden is None:
        return got
    # (the tests/inputs corpus is looked up next to the imported sources; it may be absent)
    assert set(got) <= set(golden), set(got) - set(golden)
    assert {k for k in golden if not k.startswith("corpus/")} <= set(got)
    bad = sorted(k for k in got if got[k] != golden[k])
    assert not bad, f"rendered output differs from the reference for {bad[:10]}"
    # semantic check of the imported packages against protoc's descriptors
    for name, files in cases.items():
        if name == "corpus/import_capitalized_package":
            continue  # known limitation of the reference: capitalised package components
        for opt in (SEMANTIC_OPTIONS if not name.startswith("corpus/") else [""]):
            semantic_fields += check(files, opt)[3]
    return len(got), semantic_fields


# ---------------------------------------------------------------------------------------------
# Synthetic header states: every combination of the import bookkeeping an OutputTemplate can be
# in, rendered through outputfile_compiler (exact text, nothing here depends on set order).
import itertools
from betterproto.plugin.compiler import outputfile_compiler
from betterproto.plugin.models import OutputTemplate, PluginRequestCompiler
from betterproto.plugin.typing_compiler import (
    DirectImportTypingCompiler, NoTyping310TypingCompiler, TypingImportTypingCompiler)
from betterproto.lib.google.protobuf import FileDescriptorProto


def _typing_states():
    def direct(*calls):
        def make():
            c = DirectImportTypingCompiler()
            for name in calls:
                getattr(c, name)("int") if name != "dict" else c.dict("str", "int")
            return c
        return make
    def root(used):
        def make():
            c = TypingImportTypingCompiler()
            if used:
                c.optional("int")
            return c
        return make
    def t310(*calls):
        def make():
            c = NoTyping310TypingCompiler()
            for name in calls:
                getattr(c, name)("int") if name != "dict" else c.dict("str", "int")
            return c
        return make
    return {
        "direct-none": direct(), "direct-opt": direct("optional"),
        "direct-all": direct("optional", "list", "dict", "union", "iterable", "async_iterable", "async_iterator"),
        "root-unused": root(False), "root-used": root(True),
        "310-none": t310(), "310-plain": t310("optional", "list", "dict", "union"),
        "310-abc": t310("iterable", "async_iterator", "async_iterable", "optional"),
    }


def synthetic_headers():
    got = {}
    dt_sets = [set(), {"datetime"}, {"timedelta"}, {"timedelta", "datetime"}]
    pyd_sets = [set(), {"model_validator"}, {"zeta", "alpha", "model_validator"}]
    for (tname, make), dts, pyd, builtins_import, pydantic in itertools.product(
            _typing_states().items(), dt_sets, pyd_sets, [False, True], [False, True]):
        proto = FileDescriptorProto(name="syn.proto", package="syn")
        ot = OutputTemplate(parent_request=PluginRequestCompiler(plugin_request_obj=None),
                            package_proto_obj=proto)
        ot.input_files.append(proto)
        ot.typing_compiler = make()
        ot.datetime_imports = set(dts)
        ot.pydantic_imports = set(pyd)
        ot.builtins_import = builtins_import
        ot.pydantic_dataclasses = pydantic
        err = io.StringIO()
        with contextlib.redirect_stderr(err):
            text = outputfile_compiler(ot)
        assert err.getvalue() == "", err.getvalue()
        key = f"{tname}|{sorted(dts)}|{sorted(pyd)}|{builtins_import}|{pydantic}"
        got[key] = hashlib.sha256(text.encode()).hexdigest()[:16]
    return got


def run_synthetic_headers(golden):
    got = synthetic_headers()
    if golden is None:
        return got
    assert set(got) == set(golden)
    bad = sorted(k for k in got if got[k] != golden[k])
    assert not bad, f"header text differs from the reference for {bad[:10]}"
    return len(got)


# ---------------------------------------------------------------------------------------------
# Part 1: the rendering pipeline of betterproto.plugin.compiler.outputfile_compiler
import jinja2
from betterproto.plugin import parser as plugin_parser


def reference_render(output_file):
    """The pipeline as the reference tree spells it: a fresh Environment per package, body first."""
    templates_folder = os.path.abspath(
        os.path.join(os.path.dirname(plugin_compiler.__file__), "..", "templates"))
    env = jinja2.Environment(trim_blocks=True, lstrip_blocks=True,
                             loader=jinja2.FileSystemLoader(templates_folder),
                             undefined=jinja2.StrictUndefined)
    body_template = env.get_template("template.py.j2")
    header_template = env.get_template("header.py.j2")
    code = body_template.render(output_file=output_file)
    return header_template.render(output_file=output_file) + code


def pipeline_checks():
    # 1. every package rendered during real plugin runs equals a render with a fresh environment,
    #    whatever was rendered before it (no state leaks between packages / runs)
    real = plugin_parser.outputfile_compiler
    seen = []

    def checking_compiler(output_file):
        expected = reference_render(output_file)
        got = real(output_file=output_file)
        assert got == expected, output_file.package
        assert real(output_file) == expected      # rendering is repeatable
        seen.append(output_file.package)
        return got

    plugin_parser.outputfile_compiler = checking_compiler
    try:
        cases = list(HAND_WRITTEN.values()) + [generate_schema(s) for s in (3, 5, 8)]
        for files in cases + cases[1::-1]:
            for opt in ("", "pydantic_dataclasses"):
                run_plugin(files, opt)
    finally:
        plugin_parser.outputfile_compiler = real
    assert len(seen) > 25, len(seen)

    # 2. the two ruff passes: exact argv, keyword arguments, chained in this order
    calls = []

    def recording(cmd, input, encoding):
        calls.append((list(cmd), encoding))
        return input + f"# pass {len(calls)}: {' '.join(cmd)}\n"

    saved = plugin_compiler.subprocess.check_output
    plugin_compiler.subprocess.check_output = recording
    try:
        proto = FileDescriptorProto(name="syn.proto", package="syn")
        ot = OutputTemplate(parent_request=PluginRequestCompiler(plugin_request_obj=None),
                            package_proto_obj=proto)
        ot.input_files.append(proto)
        err = io.StringIO()
        with contextlib.redirect_stderr(err):
            text = outputfile_compiler(ot)
    finally:
        plugin_compiler.subprocess.check_output = saved
    assert calls == [(["ruff", "check", "--select", "I,F401", "--fix", "--silent", "-"], "utf-8"),
                     (["ruff", "format", "-"], "utf-8")], calls
    assert text == reference_render(ot) + ("# pass 1: ruff check --select I,F401 --fix --silent -\n"
                                           "# pass 2: ruff format -\n")
    assert err.getvalue() == ""

    # 3. the collision report is computed from the *formatted* code and keeps its exact wording
    formatted = ("import os\n"
                 "from a import b as os\n"
                 "from typing import (\n    Dict,\n    List,\n)\n"
                 "class List:\n    x = 1\n"
                 "def os():\n    pass\n"
                 "Dict = 3\n"
                 "unique = 4\n")
    plugin_compiler.subprocess.check_output = lambda cmd, input, encoding: formatted
    try:
        err = io.StringIO()
        with contextlib.redirect_stderr(err):
            assert outputfile_compiler(ot) == formatted
    finally:
        plugin_compiler.subprocess.check_output = saved
    assert err.getvalue() == (
        "[WARNING]: Generated code has collisions in the module:\n"
        '  "os" on lines:\n'
        "    0:import os\n"
        "    1:from a import b as os\n"
        "    8:def os():\n"
        '  "Dict" on lines:\n'
        "    3:    Dict,\n"
        "    10:Dict = 3\n"
        '  "List" on lines:\n'
        "    4:    List,\n"
        "    6:class List:\n"
    ), err.getvalue()
    return len(seen)


GOLDEN = json.loads(r"""{"headers": {"310-abc|['datetime', 'timedelta']|['alpha', 'model_validator', 'zeta']|False|False": "15d5ea34d57b75ac", "310-abc|['datetime', 'timedelta']|['alpha', 'model_validator', 'zeta']|False|True": "9d8e05a9348eb894", "310-abc|['datetime', 'timedelta']|['alpha', 'model_validator', 'zeta']|True|False": "1b547e73409d73f2", "310-abc|['datetime', 'timedelta']|['alpha', 'model_validator', 'zeta']|True|True": "10cfb90bfeec91fc", "310-abc|['datetime', 'timedelta']|['model_validator']|False|False": "3cc41395172ac032", "310-abc|['datetime', 'timedelta']|['model_validator']|False|True": "e83da719b3dac831", "310-abc|['datetime', 'timedelta']|['model_validator']|True|False": "ef6e921b79a72269", "310-abc|['datetime', 'timedelta']|['model_validator']|True|True": "ae87ce75c3a46081", "310-abc|['datetime', 'timedelta']|[]|False|False": "c5a356d52af5a826", "310-abc|['datetime', 'timedelta']|[]|False|True": "3e6470eda93b751b", "310-abc|['datetime', 'timedelta']|[]|True|False": "c5e43cf2368b1263", "310-abc|['datetime', 'timedelta']|[]|True|True": "b18963c23aee3460", "310-abc|['datetime']|['alpha', 'model_validator', 'zeta']|False|False": "4c7daec2384dd03f", "310-abc|['datetime']|['alpha', 'model_validator', 'zeta']|False|True": "57041683a53d84ed", "310-abc|['datetime']|['alpha', 'model_validator', 'zeta']|True|False": "9d59c61f75fcc8f9", "310-abc|['datetime']|['alpha', 'model_validator', 'zeta']|True|True": "58d1f8573e217acc", "310-abc|['datetime']|['model_validator']|False|False": "6061f0b173bcfc8a", "310-abc|['datetime']|['model_validator']|False|True": "2e4d9f00f16f8e95", "310-abc|['datetime']|['model_validator']|True|False": "133613e57e620bfc", "310-abc|['datetime']|['model_validator']|True|True": "4598139a7e6aa2b0", "310-abc|['datetime']|[]|False|False": "86d47ddc67c6b490", "310-abc|['datetime']|[]|False|True": "98f4a2d0f0ab84bb", "310-abc|['datetime']|[]|True|False": "e598dc9ba9e3cdc0", "310-abc|['datetime']|[]|True|True": "da4600bf51caca33", "310-abc|['timedelta']|['alpha', 'model_validator', 'zeta']|False|False": "eee367b907f96c73", "310-abc|['timedelta']|['alpha', 'model_validator', 'zeta']|False|True": "d99b487c4ab26196", "310-abc|['timedelta']|['alpha', 'model_validator', 'zeta']|True|False": "3d355a3493ea764a", "310-abc|['timedelta']|['alpha', 'model_validator', 'zeta']|True|True": "47f6342cf668e85b", "310-abc|['timedelta']|['model_validator']|False|False": "a10bb301fdd883cd", "310-abc|['timedelta']|['model_validator']|False|True": "a926f97845fcd12a", "310-abc|['timedelta']|['model_validator']|True|False": "22f4517d9bde1641", "310-abc|['timedelta']|['model_validator']|True|True": "4db31d7ea49335e6", "310-abc|['timedelta']|[]|False|False": "53ef07d4ca303885", "310-abc|['timedelta']|[]|False|True": "69152a5669f978ba", "310-abc|['timedelta']|[]|True|False": "d27da50d9c869155", "310-abc|['timedelta']|[]|True|True": "b6bd6aa2628d81ed", "310-abc|[]|['alpha', 'model_validator', 'zeta']|False|False": "319b4cf08d5b00ba", "310-abc|[]|['alpha', 'model_validator', 'zeta']|False|True": "9a5819a47c4ddf6c", "310-abc|[]|['alpha', 'model_validator', 'zeta']|True|False": "167661cfb4c54a78", "310-abc|[]|['alpha', 'model_validator', 'zeta']|True|True": "058342038e98f16d", "310-abc|[]|['model_validator']|False|False": "9583a23e5acbda33", "310-abc|[]|['model_validator']|False|True": "41904269f6b7014a", "310-abc|[]|['model_validator']|True|False": "351e098f74377a23", "310-abc|[]|['model_validator']|True|True": "c462120dc52ad77b", "310-abc|[]|[]|False|False": "fefe7fbf931d6798", "310-abc|[]|[]|False|True": "fcb746215fe3e9be", "310-abc|[]|[]|True|False": "621dac588f8a0e34", "310-abc|[]|[]|True|True": "61f9ffc17f1270b7", "310-none|['datetime', 'timedelta']|['alpha', 'model_validator', 'zeta']|False|False": "f4f7afea38e97dd9", "310-none|['datetime', 'timedelta']|['alpha', 'model_validator', 'zeta']|False|True": "c11fb816d7b4c27d", "310-none|['datetime', 'timedelta']|['alpha', 'model_validator', 'zeta']|True|False": "fc997d86bccd3aa5", "310-none|['datetime', 'timedelta']|['alpha', 'model_validator', 'zeta']|True|True": "223213648ef71a3f", "310-none|['datetime', 'timedelta']|['model_validator']|False|False": "219342012b148aee", "310-none|['datetime', 'timedelta']|['model_validator']|False|True": "bb45156def4dae13", "310-none|['datetime', 'timedelta']|['model_validator']|True|False": "99166e1bef247608", "310-none|['datetime', 'timedelta']|['model_validator']|True|True": "3aa836c4f28ebe3e", "310-none|['datetime', 'timedelta']|[]|False|False": "4f068c671e9c8d1d", "310-none|['datetime', 'timedelta']|[]|False|True": "0739f80a9da47bc8", "310-none|['datetime', 'timedelta']|[]|True|False": "28973df7f46a3fb6", "310-none|['datetime', 'timedelta']|[]|True|True": "0cea6dd7514acff8", "310-none|['datetime']|['alpha', 'model_validator', 'zeta']|False|False": "69cc299b6c2b906d", "310-none|['datetime']|['alpha', 'model_validator', 'zeta']|False|True": "f76cd113491f8b89", "310-none|['datetime']|['alpha', 'model_validator', 'zeta']|True|False": "5b5647a38590b466", "310-none|['datetime']|['alpha', 'model_validator', 'zeta']|True|True": "f2ef2d448d7e9c76", "310-none|['datetime']|['model_validator']|False|False": "ed2cf44b7495ad31", "310-none|['datetime']|['model_validator']|False|True": "83931ce211b53469", "310-none|['datetime']|['model_validator']|True|False": "267743d8603a70ab", "310-none|['datetime']|['model_validator']|True|True": "3a623fb68389ddb5", "310-none|['datetime']|[]|False|False": "fbd0dd1da70ae4ba", "310-none|['datetime']|[]|False|True": "2c989197f3a8488d", "310-none|['datetime']|[]|True|False": "407366630c5cdb68", "310-none|['datetime']|[]|True|True": "6d0cdd1cdaf56670", "310-none|['timedelta']|['alpha', 'model_validator', 'zeta']|False|False": "f64abec0573adaaa", "310-none|['timedelta']|['alpha', 'model_validator', 'zeta']|False|True": "8a734bde592c48c0", "310-none|['timedelta']|['alpha', 'model_validator', 'zeta']|True|False": "fa6893fcbe9440c0", "310-none|['timedelta']|['alpha', 'model_validator', 'zeta']|True|True": "d28cf03d41bbd40b", "310-none|['timedelta']|['model_validator']|False|False": "7d9376e921463ed5", "310-none|['timedelta']|['model_validator']|False|True": "aec798fe10291d86", "310-none|['timedelta']|['model_validator']|True|False": "c9d4ae600f2ea6a5", "310-none|['timedelta']|['model_validator']|True|True": "8475bdcba477baf3", "310-none|['timedelta']|[]|False|False": "fa0ce2259e7ccc6e", "310-none|['timedelta']|[]|False|True": "fcb61995140b3d7b", "310-none|['timedelta']|[]|True|False": "b22e75dfb6a1ff4b", "310-none|['timedelta']|[]|True|True": "8793ff3726f5a1cf", "310-none|[]|['alpha', 'model_validator', 'zeta']|False|False": "27ab771b769e4b62", "310-none|[]|['alpha', 'model_validator', 'zeta']|False|True": "c4f96cb128d169de", "310-none|[]|['alpha', 'model_validator', 'zeta']|True|False": "9bef96b2ff4d1ea4", "310-none|[]|['alpha', 'model_validator', 'zeta']|True|True": "83cc1374e4e18a17", "310-none|[]|['model_validator']|False|False": "50eb6bb1f8f7fd9d", "310-none|[]|['model_validator']|False|True": "ab8d8d629ee7139f", "310-none|[]|['model_validator']|True|False": "80676f8df23c6c6c", "310-none|[]|['model_validator']|True|True": "f5dc5fa8c10881c7", "310-none|[]|[]|False|False": "0952b5f26c88e98a", "310-none|[]|[]|False|True": "e862f0598857d75e", "310-none|[]|[]|True|False": "d4203e8b2d3b7987", "310-none|[]|[]|True|True": "25e0d37d3f5cd904", "310-plain|['datetime', 'timedelta']|['alpha', 'model_validator', 'zeta']|False|False": "f4f7afea38e97dd9", "310-plain|['datetime', 'timedelta']|['alpha', 'model_validator', 'zeta']|False|True": "c11fb816d7b4c27d", "310-plain|['datetime', 'timedelta']|['alpha', 'model_validator', 'zeta']|True|False": "fc997d86bccd3aa5", "310-plain|['datetime', 'timedelta']|['alpha', 'model_validator', 'zeta']|True|True": "223213648ef71a3f", "310-plain|['datetime', 'timedelta']|['model_validator']|False|False": "219342012b148aee", "310-plain|['datetime', 'timedelta']|['model_validator']|False|True": "bb45156def4dae13", "310-plain|['datetime', 'timedelta']|['model_validator']|True|False": "99166e1bef247608", "310-plain|['datetime', 'timedelta']|['model_validator']|True|True": "3aa836c4f28ebe3e", "310-plain|['datetime', 'timedelta']|[]|False|False": "4f068c671e9c8d1d", "310-plain|['datetime', 'timedelta']|[]|False|True": "0739f80a9da47bc8", "310-plain|['datetime', 'timedelta']|[]|True|False": "28973df7f46a3fb6", "310-plain|['datetime', 'timedelta']|[]|True|True": "0cea6dd7514acff8", "310-plain|['datetime']|['alpha', 'model_validator', 'zeta']|False|False": "69cc299b6c2b906d", "310-plain|['datetime']|['alpha', 'model_validator', 'zeta']|False|True": "f76cd113491f8b89", "310-plain|['datetime']|['alpha', 'model_validator', 'zeta']|True|False": "5b5647a38590b466", "310-plain|['datetime']|['alpha', 'model_validator', 'zeta']|True|True": "f2ef2d448d7e9c76", "310-plain|['datetime']|['model_validator']|False|False": "ed2cf44b7495ad31", "310-plain|['datetime']|['model_validator']|False|True": "83931ce211b53469", "310-plain|['datetime']|['model_validator']|True|False": "267743d8603a70ab", "310-plain|['datetime']|['model_validator']|True|True": "3a623fb68389ddb5", "310-plain|['datetime']|[]|False|False": "fbd0dd1da70ae4ba", "310-plain|['datetime']|[]|False|True": "2c989197f3a8488d", "310-plain|['datetime']|[]|True|False": "407366630c5cdb68", "310-plain|['datetime']|[]|True|True": "6d0cdd1cdaf56670", "310-plain|['timedelta']|['alpha', 'model_validator', 'zeta']|False|False": "f64abec0573adaaa", "310-plain|['timedelta']|['alpha', 'model_validator', 'zeta']|False|True": "8a734bde592c48c0", "310-plain|['timedelta']|['alpha', 'model_validator', 'zeta']|True|False": "fa6893fcbe9440c0", "310-plain|['timedelta']|['alpha', 'model_validator', 'zeta']|True|True": "d28cf03d41bbd40b", "310-plain|['timedelta']|['model_validator']|False|False": "7d9376e921463ed5", "310-plain|['timedelta']|['model_validator']|False|True": "aec798fe10291d86", "310-plain|['timedelta']|['model_validator']|True|False": "c9d4ae600f2ea6a5", "310-plain|['timedelta']|['model_validator']|True|True": "8475bdcba477baf3", "310-plain|['timedelta']|[]|False|False": "fa0ce2259e7ccc6e", "310-plain|['timedelta']|[]|False|True": "fcb61995140b3d7b", "310-plain|['timedelta']|[]|True|False": "b22e75dfb6a1ff4b", "310-plain|['timedelta']|[]|True|True": "8793ff3726f5a1cf", "310-plain|[]|['alpha', 'model_validator', 'zeta']|False|False": "27ab771b769e4b62", "310-plain|[]|['alpha', 'model_validator', 'zeta']|False|True": "c4f96cb128d169de", "310-plain|[]|['alpha', 'model_validator', 'zeta']|True|False": "9bef96b2ff4d1ea4", "310-plain|[]|['alpha', 'model_validator', 'zeta']|True|True": "83cc1374e4e18a17", "310-plain|[]|['model_validator']|False|False": "50eb6bb1f8f7fd9d", "310-plain|[]|['model_validator']|False|True": "ab8d8d629ee7139f", "310-plain|[]|['model_validator']|True|False": "80676f8df23c6c6c", "310-plain|[]|['model_validator']|True|True": "f5dc5fa8c10881c7", "310-plain|[]|[]|False|False": "0952b5f26c88e98a", "310-plain|[]|[]|False|True": "e862f0598857d75e", "310-plain|[]|[]|True|False": "d4203e8b2d3b7987", "310-plain|[]|[]|True|True": "25e0d37d3f5cd904", "direct-all|['datetime', 'timedelta']|['alpha', 'model_validator', 'zeta']|False|False": "260f01d774877de6", "direct-all|['datetime', 'timedelta']|['alpha', 'model_validator', 'zeta']|False|True": "9c2c0b12607edcd4", "direct-all|['datetime', 'timedelta']|['alpha', 'model_validator', 'zeta']|True|False": "a2899996fae8b44b", "direct-all|['datetime', 'timedelta']|['alpha', 'model_validator', 'zeta']|True|True": "8c5345622533f33a", "direct-all|['datetime', 'timedelta']|['model_validator']|False|False": "6bd69f455477b5de", "direct-all|['datetime', 'timedelta']|['model_validator']|False|True": "3d512d5c27529ed0", "direct-all|['datetime', 'timedelta']|['model_validator']|True|False": "45700a9d5dcc6aee", "direct-all|['datetime', 'timedelta']|['model_validator']|True|True": "d2d21448ea72da32", "direct-all|['datetime', 'timedelta']|[]|False|False": "36727593990b4e31", "direct-all|['datetime', 'timedelta']|[]|False|True": "c795cec27a9e49b4", "direct-all|['datetime', 'timedelta']|[]|True|False": "0e5bef20713b8e74", "direct-all|['datetime', 'timedelta']|[]|True|True": "13ea4fa06bbb314f", "direct-all|['datetime']|['alpha', 'model_validator', 'zeta']|False|False": "029d6d330361563f", "direct-all|['datetime']|['alpha', 'model_validator', 'zeta']|False|True": "60ebeab1facd6ce2", "direct-all|['datetime']|['alpha', 'model_validator', 'zeta']|True|False": "fd94d54565db0f5f", "direct-all|['datetime']|['alpha', 'model_validator', 'zeta']|True|True": "6455970f457a81dc", "direct-all|['datetime']|['model_validator']|False|False": "88c3699817026f79", "direct-all|['datetime']|['model_validator']|False|True": "9e6ab1d0e420d734", "direct-all|['datetime']|['model_validator']|True|False": "89efa23844239c62", "direct-all|['datetime']|['model_validator']|True|True": "22d1fcdfaeb8ae16", "direct-all|['datetime']|[]|False|False": "80ae2750c186e32e", "direct-all|['datetime']|[]|False|True": "1fcedfb6cdadd48a", "direct-all|['datetime']|[]|True|False": "1bfa442c781bd61a", "direct-all|['datetime']|[]|True|True": "4caca22895a4c4e5", "direct-all|['timedelta']|['alpha', 'model_validator', 'zeta']|False|False": "63772087c9e0af16", "direct-all|['timedelta']|['alpha', 'model_validator', 'zeta']|False|True": "1053f162463fab74", "direct-all|['timedelta']|['alpha', 'model_validator', 'zeta']|True|False": "5b43a878592c40da", "direct-all|['timedelta']|['alpha', 'model_validator', 'zeta']|True|True": "912e9e8a309b0ac4", "direct-all|['timedelta']|['model_validator']|False|False": "440d44623bd6844d", "direct-all|['timedelta']|['model_validator']|False|True": "e9f094b02cd252fe", "direct-all|['timedelta']|['model_validator']|True|False": "92d22da9ac83367d", "direct-all|['timedelta']|['model_validator']|True|True": "d60d47f376c98ed1", "direct-all|['timedelta']|[]|False|False": "7123b3c42c047541", "direct-all|['timedelta']|[]|False|True": "a3287d9f6134e979", "direct-all|['timedelta']|[]|True|False": "171361116b839b43", "direct-all|['timedelta']|[]|True|True": "7d122f9f08b13c32", "direct-all|[]|['alpha', 'model_validator', 'zeta']|False|False": "6330633ce159057c", "direct-all|[]|['alpha', 'model_validator', 'zeta']|False|True": "df73dcd0c27792ae", "direct-all|[]|['alpha', 'model_validator', 'zeta']|True|False": "793a749e5a1e68c3", "direct-all|[]|['alpha', 'model_validator', 'zeta']|True|True": "fc3ceae7939c3e65", "direct-all|[]|['model_validator']|False|False": "9e8bcca502853e4d", "direct-all|[]|['model_validator']|False|True": "7740f12c01c0cbd0", "direct-all|[]|['model_validator']|True|False": "80eddded651f57a7", "direct-all|[]|['model_validator']|True|True": "0d4e81b9661d105c", "direct-all|[]|[]|False|False": "942f9d7dcbc7e716", "direct-all|[]|[]|False|True": "8e0055badc8fbce2", "direct-all|[]|[]|True|False": "f95a372d00cbdeb4", "direct-all|[]|[]|True|True": "f0c9f9a2cf7cb394", "direct-none|['datetime', 'timedelta']|['alpha', 'model_validator', 'zeta']|False|False": "f4f7afea38e97dd9", "direct-none|['datetime', 'timedelta']|['alpha', 'model_validator', 'zeta']|False|True": "c11fb816d7b4c27d", "direct-none|['datetime', 'timedelta']|['alpha', 'model_validator', 'zeta']|True|False": "fc997d86bccd3aa5", "direct-none|['datetime', 'timedelta']|['alpha', 'model_validator', 'zeta']|True|True": "223213648ef71a3f", "direct-none|['datetime', 'timedelta']|['model_validator']|False|False": "219342012b148aee", "direct-none|['datetime', 'timedelta']|['model_validator']|False|True": "bb45156def4dae13", "direct-none|['datetime', 'timedelta']|['model_validator']|True|False": "99166e1bef247608", "direct-none|['datetime', 'timedelta']|['model_validator']|True|True": "3aa836c4f28ebe3e", "direct-none|['datetime', 'timedelta']|[]|False|False": "4f068c671e9c8d1d", "direct-none|['datetime', 'timedelta']|[]|False|True": "0739f80a9da47bc8", "direct-none|['datetime', 'timedelta']|[]|True|False": "28973df7f46a3fb6", "direct-none|['datetime', 'timedelta']|[]|True|True": "0cea6dd7514acff8", "direct-none|['datetime']|['alpha', 'model_validator', 'zeta']|False|False": "69cc299b6c2b906d", "direct-none|['datetime']|['alpha', 'model_validator', 'zeta']|False|True": "f76cd113491f8b89", "direct-none|['datetime']|['alpha', 'model_validator', 'zeta']|True|False": "5b5647a38590b466", "direct-none|['datetime']|['alpha', 'model_validator', 'zeta']|True|True": "f2ef2d448d7e9c76", "direct-none|['datetime']|['model_validator']|False|False": "ed2cf44b7495ad31", "direct-none|['datetime']|['model_validator']|False|True": "83931ce211b53469", "direct-none|['datetime']|['model_validator']|True|False": "267743d8603a70ab", "direct-none|['datetime']|['model_validator']|True|True": "3a623fb68389ddb5", "direct-none|['datetime']|[]|False|False": "fbd0dd1da70ae4ba", "direct-none|['datetime']|[]|False|True": "2c989197f3a8488d", "direct-none|['datetime']|[]|True|False": "407366630c5cdb68", "direct-none|['datetime']|[]|True|True": "6d0cdd1cdaf56670", "direct-none|['timedelta']|['alpha', 'model_validator', 'zeta']|False|False": "f64abec0573adaaa", "direct-none|['timedelta']|['alpha', 'model_validator', 'zeta']|False|True": "8a734bde592c48c0", "direct-none|['timedelta']|['alpha', 'model_validator', 'zeta']|True|False": "fa6893fcbe9440c0", "direct-none|['timedelta']|['alpha', 'model_validator', 'zeta']|True|True": "d28cf03d41bbd40b", "direct-none|['timedelta']|['model_validator']|False|False": "7d9376e921463ed5", "direct-none|['timedelta']|['model_validator']|False|True": "aec798fe10291d86", "direct-none|['timedelta']|['model_validator']|True|False": "c9d4ae600f2ea6a5", "direct-none|['timedelta']|['model_validator']|True|True": "8475bdcba477baf3", "direct-none|['timedelta']|[]|False|False": "fa0ce2259e7ccc6e", "direct-none|['timedelta']|[]|False|True": "fcb61995140b3d7b", "direct-none|['timedelta']|[]|True|False": "b22e75dfb6a1ff4b", "direct-none|['timedelta']|[]|True|True": "8793ff3726f5a1cf", "direct-none|[]|['alpha', 'model_validator', 'zeta']|False|False": "27ab771b769e4b62", "direct-none|[]|['alpha', 'model_validator', 'zeta']|False|True": "c4f96cb128d169de", "direct-none|[]|['alpha', 'model_validator', 'zeta']|True|False": "9bef96b2ff4d1ea4", "direct-none|[]|['alpha', 'model_validator', 'zeta']|True|True": "83cc1374e4e18a17", "direct-none|[]|['model_validator']|False|False": "50eb6bb1f8f7fd9d", "direct-none|[]|['model_validator']|False|True": "ab8d8d629ee7139f", "direct-none|[]|['model_validator']|True|False": "80676f8df23c6c6c", "direct-none|[]|['model_validator']|True|True": "f5dc5fa8c10881c7", "direct-none|[]|[]|False|False": "0952b5f26c88e98a", "direct-none|[]|[]|False|True": "e862f0598857d75e", "direct-none|[]|[]|True|False": "d4203e8b2d3b7987", "direct-none|[]|[]|True|True": "25e0d37d3f5cd904", "direct-opt|['datetime', 'timedelta']|['alpha', 'model_validator', 'zeta']|False|False": "09c9f8870e73dd88", "direct-opt|['datetime', 'timedelta']|['alpha', 'model_validator', 'zeta']|False|True": "eba8a124f933e541", "direct-opt|['datetime', 'timedelta']|['alpha', 'model_validator', 'zeta']|True|False": "61f81a406f3de051", "direct-opt|['datetime', 'timedelta']|['alpha', 'model_validator', 'zeta']|True|True": "cdac266bb9e77735", "direct-opt|['datetime', 'timedelta']|['model_validator']|False|False": "8580688f1a48ee5f", "direct-opt|['datetime', 'timedelta']|['model_validator']|False|True": "dbaf98faf38348f7", "direct-opt|['datetime', 'timedelta']|['model_validator']|True|False": "2e6d353481873ae0", "direct-opt|['datetime', 'timedelta']|['model_validator']|True|True": "59e06faa1a6fa353", "direct-opt|['datetime', 'timedelta']|[]|False|False": "6a5684103eb0b3a1", "direct-opt|['datetime', 'timedelta']|[]|False|True": "25e06bd018cb2ad5", "direct-opt|['datetime', 'timedelta']|[]|True|False": "ba4e9bd810ca8b4d", "direct-opt|['datetime', 'timedelta']|[]|True|True": "7ec1a1f80051f422", "direct-opt|['datetime']|['alpha', 'model_validator', 'zeta']|False|False": "1de82b8f131e16eb", "direct-opt|['datetime']|['alpha', 'model_validator', 'zeta']|False|True": "1c9ee172cfb072a5", "direct-opt|['datetime']|['alpha', 'model_validator', 'zeta']|True|False": "a7f1a38ab16f1bc4", "direct-opt|['datetime']|['alpha', 'model_validator', 'zeta']|True|True": "5d52c1a6264f5ae8", "direct-opt|['datetime']|['model_validator']|False|False": "414212bd2225c0fd", "direct-opt|['datetime']|['model_validator']|False|True": "1a06905a0f30eece", "direct-opt|['datetime']|['model_validator']|True|False": "c18b3e9f9e200560", "direct-opt|['datetime']|['model_validator']|True|True": "806d5995aee7bfbe", "direct-opt|['datetime']|[]|False|False": "06ccf3f2ec911422", "direct-opt|['datetime']|[]|False|True": "766e80e1d3608842", "direct-opt|['datetime']|[]|True|False": "53d69557a77a06af", "direct-opt|['datetime']|[]|True|True": "0c52bec07c99490b", "direct-opt|['timedelta']|['alpha', 'model_validator', 'zeta']|False|False": "9a23e2bcb72308e5", "direct-opt|['timedelta']|['alpha', 'model_validator', 'zeta']|False|True": "e2d0973007bd1e46", "direct-opt|['timedelta']|['alpha', 'model_validator', 'zeta']|True|False": "27ee1f97c71ee6e5", "direct-opt|['timedelta']|['alpha', 'model_validator', 'zeta']|True|True": "b9618ba28f2b5eb3", "direct-opt|['timedelta']|['model_validator']|False|False": "68a2dbbc4ac05e6b", "direct-opt|['timedelta']|['model_validator']|False|True": "efe142b3932bba16", "direct-opt|['timedelta']|['model_validator']|True|False": "50339695c2066b75", "direct-opt|['timedelta']|['model_validator']|True|True": "d7b1bd26eebcd63c", "direct-opt|['timedelta']|[]|False|False": "78f2c086f1cc5c02", "direct-opt|['timedelta']|[]|False|True": "37d49cfb147fddc2", "direct-opt|['timedelta']|[]|True|False": "33a6114c5cea51d7", "direct-opt|['timedelta']|[]|True|True": "9071d8331e77d2d9", "direct-opt|[]|['alpha', 'model_validator', 'zeta']|False|False": "9d3454ec8a9a0475", "direct-opt|[]|['alpha', 'model_validator', 'zeta']|False|True": "aef85e7761902745", "direct-opt|[]|['alpha', 'model_validator', 'zeta']|True|False": "a5f927921f7ba3f9", "direct-opt|[]|['alpha', 'model_validator', 'zeta']|True|True": "ce200d869ede9506", "direct-opt|[]|['model_validator']|False|False": "195bc88b28bf30e2", "direct-opt|[]|['model_validator']|False|True": "8535901d4b9e7982", "direct-opt|[]|['model_validator']|True|False": "07bd8c82e146acc6", "direct-opt|[]|['model_validator']|True|True": "5782184193ecf0cc", "direct-opt|[]|[]|False|False": "3e8efc3d4111411b", "direct-opt|[]|[]|False|True": "9e297c525b8d6053", "direct-opt|[]|[]|True|False": "3f9ffbe471f2fed1", "direct-opt|[]|[]|True|True": "8ebf6f84b6fb21d1", "root-unused|['datetime', 'timedelta']|['alpha', 'model_validator', 'zeta']|False|False": "f4f7afea38e97dd9", "root-unused|['datetime', 'timedelta']|['alpha', 'model_validator', 'zeta']|False|True": "c11fb816d7b4c27d", "root-unused|['datetime', 'timedelta']|['alpha', 'model_validator', 'zeta']|True|False": "fc997d86bccd3aa5", "root-unused|['datetime', 'timedelta']|['alpha', 'model_validator', 'zeta']|True|True": "223213648ef71a3f", "root-unused|['datetime', 'timedelta']|['model_validator']|False|False": "219342012b148aee", "root-unused|['datetime', 'timedelta']|['model_validator']|False|True": "bb45156def4dae13", "root-unused|['datetime', 'timedelta']|['model_validator']|True|False": "99166e1bef247608", "root-unused|['datetime', 'timedelta']|['model_validator']|True|True": "3aa836c4f28ebe3e", "root-unused|['datetime', 'timedelta']|[]|False|False": "4f068c671e9c8d1d", "root-unused|['datetime', 'timedelta']|[]|False|True": "0739f80a9da47bc8", "root-unused|['datetime', 'timedelta']|[]|True|False": "28973df7f46a3fb6", "root-unused|['datetime', 'timedelta']|[]|True|True": "0cea6dd7514acff8", "root-unused|['datetime']|['alpha', 'model_validator', 'zeta']|False|False": "69cc299b6c2b906d", "root-unused|['datetime']|['alpha', 'model_validator', 'zeta']|False|True": "f76cd113491f8b89", "root-unused|['datetime']|['alpha', 'model_validator', 'zeta']|True|False": "5b5647a38590b466", "root-unused|['datetime']|['alpha', 'model_validator', 'zeta']|True|True": "f2ef2d448d7e9c76", "root-unused|['datetime']|['model_validator']|False|False": "ed2cf44b7495ad31", "root-unused|['datetime']|['model_validator']|False|True": "83931ce211b53469", "root-unused|['datetime']|['model_validator']|True|False": "267743d8603a70ab", "root-unused|['datetime']|['model_validator']|True|True": "3a623fb68389ddb5", "root-unused|['datetime']|[]|False|False": "fbd0dd1da70ae4ba", "root-unused|['datetime']|[]|False|True": "2c989197f3a8488d", "root-unused|['datetime']|[]|True|False": "407366630c5cdb68", "root-unused|['datetime']|[]|True|True": "6d0cdd1cdaf56670", "root-unused|['timedelta']|['alpha', 'model_validator', 'zeta']|False|False": "f64abec0573adaaa", "root-unused|['timedelta']|['alpha', 'model_validator', 'zeta']|False|True": "8a734bde592c48c0", "root-unused|['timedelta']|['alpha', 'model_validator', 'zeta']|True|False": "fa6893fcbe9440c0", "root-unused|['timedelta']|['alpha', 'model_validator', 'zeta']|True|True": "d28cf03d41bbd40b", "root-unused|['timedelta']|['model_validator']|False|False": "7d9376e921463ed5", "root-unused|['timedelta']|['model_validator']|False|True": "aec798fe10291d86", "root-unused|['timedelta']|['model_validator']|True|False": "c9d4ae600f2ea6a5", "root-unused|['timedelta']|['model_validator']|True|True": "8475bdcba477baf3", "root-unused|['timedelta']|[]|False|False": "fa0ce2259e7ccc6e", "root-unused|['timedelta']|[]|False|True": "fcb61995140b3d7b", "root-unused|['timedelta']|[]|True|False": "b22e75dfb6a1ff4b", "root-unused|['timedelta']|[]|True|True": "8793ff3726f5a1cf", "root-unused|[]|['alpha', 'model_validator', 'zeta']|False|False": "27ab771b769e4b62", "root-unused|[]|['alpha', 'model_validator', 'zeta']|False|True": "c4f96cb128d169de", "root-unused|[]|['alpha', 'model_validator', 'zeta']|True|False": "9bef96b2ff4d1ea4", "root-unused|[]|['alpha', 'model_validator', 'zeta']|True|True": "83cc1374e4e18a17", "root-unused|[]|['model_validator']|False|False": "50eb6bb1f8f7fd9d", "root-unused|[]|['model_validator']|False|True": "ab8d8d629ee7139f", "root-unused|[]|['model_validator']|True|False": "80676f8df23c6c6c", "root-unused|[]|['model_validator']|True|True": "f5dc5fa8c10881c7", "root-unused|[]|[]|False|False": "0952b5f26c88e98a", "root-unused|[]|[]|False|True": "e862f0598857d75e", "root-unused|[]|[]|True|False": "d4203e8b2d3b7987", "root-unused|[]|[]|True|True": "25e0d37d3f5cd904", "root-used|['datetime', 'timedelta']|['alpha', 'model_validator', 'zeta']|False|False": "dec84568488fdef7", "root-used|['datetime', 'timedelta']|['alpha', 'model_validator', 'zeta']|False|True": "a282f948c61ff3ae", "root-used|['datetime', 'timedelta']|['alpha', 'model_validator', 'zeta']|True|False": "2c5846521150f53f", "root-used|['datetime', 'timedelta']|['alpha', 'model_validator', 'zeta']|True|True": "149fcdc1e729e21c", "root-used|['datetime', 'timedelta']|['model_validator']|False|False": "d52b9f183ff9705b", "root-used|['datetime', 'timedelta']|['model_validator']|False|True": "bfd0f6d49e244624", "root-used|['datetime', 'timedelta']|['model_validator']|True|False": "465b18b83648ea17", "root-used|['datetime', 'timedelta']|['model_validator']|True|True": "181c342680569181", "root-used|['datetime', 'timedelta']|[]|False|False": "608d0a7c08d9737a", "root-used|['datetime', 'timedelta']|[]|False|True": "c5dbd9ba43c597f2", "root-used|['datetime', 'timedelta']|[]|True|False": "fea7a6aac71bd373", "root-used|['datetime', 'timedelta']|[]|True|True": "bdb5d1a1130a923a", "root-used|['datetime']|['alpha', 'model_validator', 'zeta']|False|False": "9a4c7104f22a667c", "root-used|['datetime']|['alpha', 'model_validator', 'zeta']|False|True": "fd72512d8b0e8434", "root-used|['datetime']|['alpha', 'model_validator', 'zeta']|True|False": "951b02d8d71394e9", "root-used|['datetime']|['alpha', 'model_validator', 'zeta']|True|True": "b67617aac05df5fa", "root-used|['datetime']|['model_validator']|False|False": "e5f4925f7c221dd2", "root-used|['datetime']|['model_validator']|False|True": "c767ba41a5a2dd40", "root-used|['datetime']|['model_validator']|True|False": "08a3269c312090d5", "root-used|['datetime']|['model_validator']|True|True": "c5232bde33f4a5f7", "root-used|['datetime']|[]|False|False": "995c6bf329af0ff0", "root-used|['datetime']|[]|False|True": "d30b90e0720c799f", "root-used|['datetime']|[]|True|False": "53162dab08835011", "root-used|['datetime']|[]|True|True": "255dab873f696545", "root-used|['timedelta']|['alpha', 'model_validator', 'zeta']|False|False": "ee9598d1a1692834", "root-used|['timedelta']|['alpha', 'model_validator', 'zeta']|False|True": "8add88349caea3f3", "root-used|['timedelta']|['alpha', 'model_validator', 'zeta']|True|False": "7a6e2556e3fbe69b", "root-used|['timedelta']|['alpha', 'model_validator', 'zeta']|True|True": "d56a90abae341475", "root-used|['timedelta']|['model_validator']|False|False": "80ec366f45a34ece", "root-used|['timedelta']|['model_validator']|False|True": "52acc95f44e985b5", "root-used|['timedelta']|['model_validator']|True|False": "0605fe285e71a131", "root-used|['timedelta']|['model_validator']|True|True": "145629c8ff604477", "root-used|['timedelta']|[]|False|False": "972d7b9b5f2d9ab9", "root-used|['timedelta']|[]|False|True": "af1623103ebc5cf5", "root-used|['timedelta']|[]|True|False": "d6be571dbad4a933", "root-used|['timedelta']|[]|True|True": "305e314013acab6c", "root-used|[]|['alpha', 'model_validator', 'zeta']|False|False": "a9d8961512416ae2", "root-used|[]|['alpha', 'model_validator', 'zeta']|False|True": "19689559bf14c6d8", "root-used|[]|['alpha', 'model_validator', 'zeta']|True|False": "52ad27fb18495806", "root-used|[]|['alpha', 'model_validator', 'zeta']|True|True": "df8c60f543e7ec5d", "root-used|[]|['model_validator']|False|False": "b2f787bb518994e2", "root-used|[]|['model_validator']|False|True": "35f1aead67791b94", "root-used|[]|['model_validator']|True|False": "758f4f4437ee8c30", "root-used|[]|['model_validator']|True|True": "8ae9a3142ecc3cb8", "root-used|[]|[]|False|False": "3e4d692302040fe5", "root-used|[]|[]|False|True": "ee0be15f2c29bd99", "root-used|[]|[]|True|False": "fc079bd27f97b21f", "root-used|[]|[]|True|True": "e80c52eb4889c46f"}, "suite": {"collisions|": "13d60fa7d09bb8f2", "collisions|INCLUDE_GOOGLE,typing.root": "4cd8bf93d521e8c2", "collisions|pydantic_dataclasses": "a8cd0a18dabb1f46", "collisions|typing.310": "beb45ad1f8db1d2b", "collisions|typing.root": "796568e8ea3c22a4", "corpus/bool|": "355695ee22874d07", "corpus/bool|pydantic_dataclasses": "ce4ed856997cb265", "corpus/bytes|": "54a31b8a1d8b6809", "corpus/bytes|pydantic_dataclasses": "b335db779b282dc6", "corpus/casing_inner_class|": "364fc9c9004cbea0", "corpus/casing_inner_class|pydantic_dataclasses": "1af52e56057ecae3", "corpus/casing_message_field_uppercase|": "3ab1132330df0376", "corpus/casing_message_field_uppercase|pydantic_dataclasses": "d60cfac903f757df", "corpus/casing|": "e25f883b4bb5d3aa", "corpus/casing|pydantic_dataclasses": "97f89c960b04ab1d", "corpus/deprecated|": "88d3df9ee155741b", "corpus/deprecated|pydantic_dataclasses": "fb3d52a096de10d3", "corpus/documentation|": "012db9e70bfc5466", "corpus/documentation|pydantic_dataclasses": "ef749b8d110044b1", "corpus/double|": "d76d4e77301c7d14", "corpus/double|pydantic_dataclasses": "8878e23d000ba5c7", "corpus/empty_repeated|": "a6b0882d8479c018", "corpus/empty_repeated|pydantic_dataclasses": "3890e0061d001f87", "corpus/empty_service|": "86e3251230caf945", "corpus/empty_service|pydantic_dataclasses": "fa69bf01212b8ce3", "corpus/entry|": "e0c33575da13f1b9", "corpus/entry|pydantic_dataclasses": "393aaae400bbaa21", "corpus/enum|": "0027283d5be0c1c9", "corpus/enum|pydantic_dataclasses": "50dab9d9b72a0df3", "corpus/example_service|": "7dc30e444429cace", "corpus/example_service|pydantic_dataclasses": "d7c56cb57036af5b", "corpus/example|": "db17bbedec2a41be", "corpus/example|pydantic_dataclasses": "d4018009426c1384", "corpus/field_name_identical_to_type|": "63f4ba608b983684", "corpus/field_name_identical_to_type|pydantic_dataclasses": "669b81f52396805a", "corpus/fixed|": "cb00b044c39de6c4", "corpus/fixed|pydantic_dataclasses": "7aadc36360f3ec7e", "corpus/float|": "6b6925a7efd9b1ac", "corpus/float|pydantic_dataclasses": "a20fb47d378be784", "corpus/google_impl_behavior_equivalence|": "aedd13a48fa80788", "corpus/google_impl_behavior_equivalence|pydantic_dataclasses": "20e38362897c606d", "corpus/googletypes_request|": "632c13544a22968e", "corpus/googletypes_request|pydantic_dataclasses": "c679dba229578071", "corpus/googletypes_response_embedded|": "2ee11b516cb97016", "corpus/googletypes_response_embedded|pydantic_dataclasses": "91d1fef077e35357", "corpus/googletypes_response|": "36b21b85cb6e42f9", "corpus/googletypes_response|pydantic_dataclasses": "54fa20bf895ee7e0", "corpus/googletypes_service_returns_empty|": "eddae17cb81043e1", "corpus/googletypes_service_returns_empty|pydantic_dataclasses": "6346ce8533fb86d3", "corpus/googletypes_service_returns_googletype|": "7fbb20ca92cc7cec", "corpus/googletypes_service_returns_googletype|pydantic_dataclasses": "7f6064ed9eb1780e", "corpus/googletypes_struct|": "ccc58d35928d61bc", "corpus/googletypes_struct|pydantic_dataclasses": "91e29d6e02d8d029", "corpus/googletypes_value|": "a6b964cdafca571d", "corpus/googletypes_value|pydantic_dataclasses": "9a48409957cbb676", "corpus/googletypes|": "bb0b83ac44cfd23f", "corpus/googletypes|pydantic_dataclasses": "df5be51e97476fca", "corpus/import_capitalized_package|": "322be57419d517c8", "corpus/import_capitalized_package|pydantic_dataclasses": "39c971f3da7e4f5a", "corpus/import_child_package_from_package|": "a919fa8bf962bdb3", "corpus/import_child_package_from_package|pydantic_dataclasses": "20650263deabff0b", "corpus/import_child_package_from_root|": "9022672cbbab3b16", "corpus/import_child_package_from_root|pydantic_dataclasses": "87b2eaa14369f0d4", "corpus/import_circular_dependency|": "bfd6b15e639040c6", "corpus/import_circular_dependency|pydantic_dataclasses": "319ca8b843c76548", "corpus/import_cousin_package_same_name|": "6a0da0da304b0c70", "corpus/import_cousin_package_same_name|pydantic_dataclasses": "82994c1bf3f96d5f", "corpus/import_cousin_package|": "9334de548f6888f1", "corpus/import_cousin_package|pydantic_dataclasses": "207947248cb35be9", "corpus/import_packages_same_name|": "71f4d1dfb4cee75e", "corpus/import_packages_same_name|pydantic_dataclasses": "0ecc08d0ec70ec90", "corpus/import_parent_package_from_child|": "8b200a1092e4d53e", "corpus/import_parent_package_from_child|pydantic_dataclasses": "37b901fbdf7f1c96", "corpus/import_root_package_from_child|": "dad5989cbb955765", "corpus/import_root_package_from_child|pydantic_dataclasses": "dd9f377d315accb9", "corpus/import_root_sibling|": "8cba949f9880eca4", "corpus/import_root_sibling|pydantic_dataclasses": "e71f5c7fe15c13e0", "corpus/import_service_input_message|": "c6d22dc03beb22ab", "corpus/import_service_input_message|pydantic_dataclasses": "beaacbd82ef28966", "corpus/int32|": "18710a560cdf5ab6", "corpus/int32|pydantic_dataclasses": "8f75a26abdfa216e", "corpus/invalid_field|": "bd40ca06890d8a15", "corpus/invalid_field|pydantic_dataclasses": "0ae13872566cc150", "corpus/mapmessage|": "dd2b85a3489ca241", "corpus/mapmessage|pydantic_dataclasses": "2b18dee142dda571", "corpus/map|": "d153e798f930c9e7", "corpus/map|pydantic_dataclasses": "e2491c0b3c072f41", "corpus/namespace_builtin_types|": "d876255e806dba48", "corpus/namespace_builtin_types|pydantic_dataclasses": "711c2d3f747519cf", "corpus/namespace_keywords|": "431c4994bc41a872", "corpus/namespace_keywords|pydantic_dataclasses": "10c18ab9b11c90ec", "corpus/nested2|": "a5430f86aec645cf", "corpus/nested2|pydantic_dataclasses": "d7b696ee4eb44fde", "corpus/nestedtwice|": "d91c56f331f735f3", "corpus/nestedtwice|pydantic_dataclasses": "0ceb17c0fd1e6a27", "corpus/nested|": "3b7e15992d5db2e0", "corpus/nested|pydantic_dataclasses": "b2edaca7c958e544", "corpus/oneof_default_value_serialization|": "d46b8751411ecdb1", "corpus/oneof_default_value_serialization|pydantic_dataclasses": "adf5f54158f060ba", "corpus/oneof_empty|": "b557fc2e9e81afd6", "corpus/oneof_empty|pydantic_dataclasses": "bc50bcbc2ad0c447", "corpus/oneof_enum|": "c76ba40553f624c7", "corpus/oneof_enum|pydantic_dataclasses": "b7d7aa587d49fb34", "corpus/oneof|": "f9dde36e58c6fe5f", "corpus/oneof|pydantic_dataclasses": "3c40c08c77119beb", "corpus/proto3_field_presence_oneof|": "98457612aca5b5be", "corpus/proto3_field_presence_oneof|pydantic_dataclasses": "a79c2715949aefad", "corpus/proto3_field_presence|": "2076def2f83246dc", "corpus/proto3_field_presence|pydantic_dataclasses": "468228c0ce6f6962", "corpus/recursivemessage|": "40a0d9f418cffdca", "corpus/recursivemessage|pydantic_dataclasses": "8cf573d08a09e07c", "corpus/ref|": "a909bdcfbd2b133f", "corpus/ref|pydantic_dataclasses": "87ed380bdf8df7e3", "corpus/regression_387|": "0cec4e1bcb70401b", "corpus/regression_387|pydantic_dataclasses": "3d157f70c03c054a", "corpus/regression_414|": "03e1d1c9543bab0b", "corpus/regression_414|pydantic_dataclasses": "4e37415dfd3c416e", "corpus/repeated_duration_timestamp|": "3b570f707c2ac814", "corpus/repeated_duration_timestamp|pydantic_dataclasses": "3e9104fa171b075e", "corpus/repeatedmessage|": "ff99b112c4193dce", "corpus/repeatedmessage|pydantic_dataclasses": "9c79a37e0f0f3af3", "corpus/repeatedpacked|": "f4b4cbecf409f22c", "corpus/repeatedpacked|pydantic_dataclasses": "515c4901dda21e3b", "corpus/repeated|": "025fa5274ecf4372", "corpus/repeated|pydantic_dataclasses": "29ff30690b8f1687", "corpus/service_separate_packages|": "f37dc7e53d4ee6eb", "corpus/service_separate_packages|pydantic_dataclasses": "0c7c82e405128f78", "corpus/service_uppercase|": "83673d0f0875146d", "corpus/service_uppercase|pydantic_dataclasses": "7f7935545136904c", "corpus/service|": "d6abe1305f4fedc7", "corpus/service|pydantic_dataclasses": "ad768dbffbc7451d", "corpus/signed|": "084d0a1312192ad0", "corpus/signed|pydantic_dataclasses": "1a2a0b5119d64050", "corpus/timestamp_dict_encode|": "ca60b4d161d6f03b", "corpus/timestamp_dict_encode|pydantic_dataclasses": "7599c5853b81a468", "gen/0|": "db131b095a4fbba4", "gen/0|INCLUDE_GOOGLE,typing.root": "b466e1da434e80af", "gen/0|pydantic_dataclasses": "943c8ca0a37c0d4a", "gen/0|typing.310": "2602cb6a886c9850", "gen/0|typing.root": "b466e1da434e80af", "gen/10|": "28078f811751a657", "gen/10|INCLUDE_GOOGLE,typing.root": "c92a8c92a7eb0ba1", "gen/10|pydantic_dataclasses": "2e4cab9881d752de", "gen/10|typing.310": "5b8c5794f1f5fbee", "gen/10|typing.root": "f951aa827a1e668b", "gen/11|": "4ea08f0b22c4e38f", "gen/11|INCLUDE_GOOGLE,typing.root": "97b2d8f52f72c1ff", "gen/11|pydantic_dataclasses": "e7272c7a8f2f9636", "gen/11|typing.310": "c612347626161d3c", "gen/11|typing.root": "936f176ee1132661", "gen/12|": "52b5d914de31e379", "gen/12|INCLUDE_GOOGLE,typing.root": "0485b09c80112f31", "gen/12|pydantic_dataclasses": "96bdf3762048ee67", "gen/12|typing.310": "488869548909020a", "gen/12|typing.root": "858e4b4375ba8358", "gen/13|": "ddab6665d135f9cb", "gen/13|INCLUDE_GOOGLE,typing.root": "b941ea8f470edaa3", "gen/13|pydantic_dataclasses": "582e1fa1444b4ad0", "gen/13|typing.310": "964324bdf78de59e", "gen/13|typing.root": "6e64bbf9e25c1098", "gen/1|": "595ad1b9a205f72e", "gen/1|INCLUDE_GOOGLE,typing.root": "56685441072e62ea", "gen/1|pydantic_dataclasses": "f1641173d76e043e", "gen/1|typing.310": "d694fe084d66dfaf", "gen/1|typing.root": "30ecb1ebfbc275f1", "gen/2|": "7a62e1c6331ac48d", "gen/2|INCLUDE_GOOGLE,typing.root": "ee57709385495174", "gen/2|pydantic_dataclasses": "5c6381f71e806e68", "gen/2|typing.310": "5b59e2800e18fe5c", "gen/2|typing.root": "74de4295712f970f", "gen/3|": "3aa36d07d250d1ac", "gen/3|INCLUDE_GOOGLE,typing.root": "6656d81c3ff5e76d", "gen/3|pydantic_dataclasses": "f17e8b6e2c1a7357", "gen/3|typing.310": "9a944e514ed2259d", "gen/3|typing.root": "e1784a16f23b11e1", "gen/4|": "90e54a606f5fc518", "gen/4|INCLUDE_GOOGLE,typing.root": "342866b85dbc3316", "gen/4|pydantic_dataclasses": "2f8db17345050534", "gen/4|typing.310": "87de5f86e20c7edb", "gen/4|typing.root": "c80c373dc2f9f1d3", "gen/5|": "57ee61d3ac7f77a6", "gen/5|INCLUDE_GOOGLE,typing.root": "15d034240c286a83", "gen/5|pydantic_dataclasses": "8625daa4b5e0f133", "gen/5|typing.310": "7c6458225e85d5e9", "gen/5|typing.root": "4f3c13db78fe439a", "gen/6|": "526d4f0fca87e692", "gen/6|INCLUDE_GOOGLE,typing.root": "fa36e60b10bf9148", "gen/6|pydantic_dataclasses": "1f7a52624e664eaa", "gen/6|typing.310": "d419f20a55c8a766", "gen/6|typing.root": "952fb1fe0b1f32bf", "gen/7|": "12b5f0b760b52c41", "gen/7|INCLUDE_GOOGLE,typing.root": "61a9d2f07664f604", "gen/7|pydantic_dataclasses": "388601d99de5cb5a", "gen/7|typing.310": "66fea7cefee3b64b", "gen/7|typing.root": "31431496946acf14", "gen/8|": "eabf41d18109824e", "gen/8|INCLUDE_GOOGLE,typing.root": "9b7dc4da72079f69", "gen/8|pydantic_dataclasses": "02d553aeada4143c", "gen/8|typing.310": "85f64819ca86874d", "gen/8|typing.root": "6cbf66abb4f0b712", "gen/9|": "08e90616c6efb755", "gen/9|INCLUDE_GOOGLE,typing.root": "f1187a42930245f6", "gen/9|pydantic_dataclasses": "d4933d00248c9a18", "gen/9|typing.310": "778dc50d668b40a9", "gen/9|typing.root": "923637a4f28d9d55", "kitchen_sink|": "6d7a6fbc844bc682", "kitchen_sink|INCLUDE_GOOGLE,typing.root": "70570b993a7ba7b0", "kitchen_sink|pydantic_dataclasses": "d33da5f2664ac78d", "kitchen_sink|typing.310": "50395a367654e30e", "kitchen_sink|typing.root": "6105529ee3e25a6f", "only_enums_and_empty|": "363a723d4ccfd6be", "only_enums_and_empty|INCLUDE_GOOGLE,typing.root": "e04ea55dfd968cfa", "only_enums_and_empty|pydantic_dataclasses": "501d2024741b79db", "only_enums_and_empty|typing.310": "363a723d4ccfd6be", "only_enums_and_empty|typing.root": "363a723d4ccfd6be", "root_and_children|": "509d3ba4bb6a3e5f", "root_and_children|INCLUDE_GOOGLE,typing.root": "575c63868e4de0b1", "root_and_children|pydantic_dataclasses": "dd0b9095f11de447", "root_and_children|typing.310": "9060b1f44c088d0b", "root_and_children|typing.root": "575c63868e4de0b1"}}""")

if __name__ == "__main__":
    print(f"pipeline: {pipeline_checks()} packages identical to a fresh-environment render; ruff argv and collision report unchanged")
    print(f"synthetic headers: {run_synthetic_headers(GOLDEN['headers'])} header states identical to the reference text")
    n, fields = run_equivalence_suite(GOLDEN["suite"])
    print(f"plugin runs: {n} (schema, option) outputs identical to the reference; {fields} fields checked against protoc descriptors")
    print("OK")
