"""Behaviour that must hold before and after the rewrite of decode_varint (buffer
based instead of BytesIO + load_varint) and the restructuring of parse_fields.

decode_varint is what Message.load uses to decode packed runs of known repeated
fields; parse_fields is the buffer twin of load_fields (same ParsedField records,
same .raw bytes that Message.load stores for unknown fields).
"""
import random
import struct
from dataclasses import dataclass
from io import BytesIO
from typing import List

import betterproto
from betterproto import ParsedField, decode_varint, load_fields, load_varint, parse_fields
from google.protobuf import descriptor_pb2, descriptor_pool, message_factory

rnd = random.Random(8082)

VARINT_EOF = "Stream ended unexpectedly while attempting to load varint."
VARINT_LONG = "Too many bytes when decoding varint."
BUFFER_EOF = "Buffer ended unexpectedly in the middle of a field."


def varint(v: int, pad: int = 0) -> bytes:
    """minimal encoding, optionally padded with `pad` redundant continuation groups"""
    out = bytearray()
    while True:
        b = v & 0x7F
        v >>= 7
        if v:
            out.append(b | 0x80)
        else:
            out.append(b)
            break
    for _ in range(pad):
        out[-1] |= 0x80
        out.append(0)
    return bytes(out)


def ref_decode(buf, pos):
    """independent reference: (value, new pos) | 'eof' | 'long'"""
    value = 0
    for n in range(10):
        if pos + n >= len(buf):
            return "eof"
        b = buf[pos + n]
        value |= (b & 0x7F) << (7 * n)
        if not b & 0x80:
            return value, pos + n + 1
    return "long"


def outcome(fn):
    try:
        return ("ok", fn())
    except (ValueError, EOFError) as e:
        return (type(e).__name__, str(e))


# --------------------------------------------------------------- 1 decode_varint
values = {0, 1, 127, 128, 255, 300, 16383, 16384}
for k in range(1, 71):
    values.update({(1 << k) - 1, 1 << k, (1 << k) + 1})
values.update(rnd.randrange(1 << 64) for _ in range(300))
n_checked = 0
for v in sorted(values):
    for pad in (0, 1, 2, 9):
        enc = varint(v, pad)
        for prefix in (b"", b"\x80", b"\xff\xff\x01", b"\x00" * 7):
            for suffix in (b"", b"\x00", b"\x80\x80", b"\xff" * 12):
                buf = prefix + enc + suffix
                pos = len(prefix)
                want = ref_decode(buf, pos)
                for view in (buf, bytearray(buf), memoryview(buf)):
                    got = outcome(lambda: decode_varint(view, pos))
                    if want == "eof":
                        assert got == ("EOFError", VARINT_EOF), (buf, pos, got)
                    elif want == "long":
                        assert got == ("ValueError", VARINT_LONG), (buf, pos, got)
                    else:
                        assert got == ("ok", want), (buf, pos, got, want)
                        assert type(got[1][0]) is int and type(got[1][1]) is int
                # same value and same consumption as the stream reader
                s = BytesIO(buf)
                s.seek(pos)
                got_s = outcome(lambda: load_varint(s))
                if isinstance(want, tuple):
                    assert got_s == ("ok", (want[0], buf[pos : want[1]]))
                    if len(enc) <= 10:
                        assert want == (v, pos + len(enc))
                n_checked += 1
assert n_checked > 10000

# every start position of a noisy buffer, including at and past the end
noise = bytes(rnd.choice([0x00, 0x01, 0x7F, 0x80, 0xFF, rnd.randrange(256)]) for _ in range(400))
for pos in range(len(noise) + 5):
    want = ref_decode(noise, pos)
    got = outcome(lambda: decode_varint(noise, pos))
    if want == "eof":
        assert got == ("EOFError", VARINT_EOF), pos
    elif want == "long":
        assert got == ("ValueError", VARINT_LONG), pos
    else:
        assert got == ("ok", want), pos
assert outcome(lambda: decode_varint(b"", 0)) == ("EOFError", VARINT_EOF)
assert outcome(lambda: decode_varint(b"\x01", 1)) == ("EOFError", VARINT_EOF)
assert outcome(lambda: decode_varint(b"\x01", 50)) == ("EOFError", VARINT_EOF)
# ten continuation bytes: too long, even when nothing follows
assert outcome(lambda: decode_varint(b"\x80" * 10, 0)) == ("ValueError", VARINT_LONG)
assert outcome(lambda: decode_varint(b"\x80" * 9, 0)) == ("EOFError", VARINT_EOF)
assert decode_varint(b"\x80" * 9 + b"\x7f", 0) == (0x7F << 63, 10)
assert outcome(lambda: decode_varint(b"\x01", -1))[0] == "ValueError"


# ------------------------------------------------ 2 parse_fields vs load_fields
def rnd_field():
    """(raw bytes, number, wire type, value, [(segment kind, length), ...])"""
    number = rnd.choice([1, 2, 15, 16, 2047, 2048, 2**21, 2**28, 2**29 - 1, rnd.randrange(1, 2**29)])
    wt = rnd.choice([0, 1, 2, 5])
    t = varint((number << 3) | wt, rnd.choice([0, 0, 0, 1]))
    if wt == 0:
        v = rnd.choice([0, 1, 127, 128, 2**32, 2**63, 2**64 - 1, rnd.randrange(2**64)])
        body = varint(v, rnd.choice([0, 0, 1]) if v < 2**56 else 0)
        return t + body, number, wt, v, [("v", len(t)), ("v", len(body))]
    if wt == 1:
        body = bytes(rnd.randrange(256) for _ in range(8))
        return t + body, number, wt, body, [("v", len(t)), ("p", 8)]
    if wt == 5:
        body = bytes(rnd.randrange(256) for _ in range(4))
        return t + body, number, wt, body, [("v", len(t)), ("p", 4)]
    n = rnd.choice([0, 1, 2, 127, 128, 129, 300, rnd.randrange(0, 40)])
    body = bytes(rnd.randrange(256) for _ in range(n))
    lp = varint(n, rnd.choice([0, 0, 1, 4]))
    return t + lp + body, number, wt, body, [("v", len(t)), ("v", len(lp)), ("p", n)]


def drain(gen):
    out = []
    try:
        for f in gen:
            out.append(f)
    except (ValueError, EOFError) as e:
        return out, (type(e).__name__, str(e))
    return out, None


for trial in range(300):
    fields = [rnd_field() for _ in range(rnd.randrange(0, 7))]
    data = b"".join(f[0] for f in fields)
    want = [ParsedField(number=f[1], wire_type=f[2], value=f[3], raw=f[0]) for f in fields]
    got_b, err_b = drain(parse_fields(data))
    got_s, err_s = drain(load_fields(BytesIO(data)))
    assert err_b is None and err_s is None
    assert got_b == want and got_s == want
    assert b"".join(f.raw for f in got_b) == data
    assert all(type(f.value) is (int if f.wire_type == 0 else bytes) for f in got_b)
    assert all(type(f.raw) is bytes for f in got_b)

    # every truncation point
    if trial < 120:
        bounds, off = [0], 0
        for f in fields:
            off += len(f[0])
            bounds.append(off)
        for cut in range(len(data)):
            done = max(i for i, b in enumerate(bounds) if b <= cut)
            got, err = drain(parse_fields(data[:cut]))
            assert got == want[:done], (data, cut)
            got_s, err_s = drain(load_fields(BytesIO(data[:cut])))
            assert got_s == want[:done]
            if cut in bounds:
                assert err is None and err_s is None
                continue
            assert err_s is not None and err_s[0] == "EOFError"
            # the first segment of the cut field that is not completely there
            # decides: a varint (tag, value, length prefix) or a payload
            avail, o = cut - bounds[done], 0
            for kind, n in fields[done][4]:
                o += n
                if avail < o:
                    break
            else:
                raise AssertionError("cut field is complete?")
            want_err = ("EOFError", VARINT_EOF if kind == "v" else BUFFER_EOF)
            assert err == want_err, (data, cut, err, want_err)

# malformed tags
for bad, msg in (
    (b"\x00\x01", "Invalid field number 0."),
    (b"\x05\x01\x02\x03\x04", "Invalid field number 0."),
    (b"\x0b", "Unsupported wire type 3 in field 1."),
    (b"\x0c", "Unsupported wire type 4 in field 1."),
    (b"\x16\x00", "Unsupported wire type 6 in field 2."),
    (b"\xff\x01", "Unsupported wire type 7 in field 31."),
    (b"\x80" * 10 + b"\x01", VARINT_LONG),
    (b"\x08" + b"\xff" * 10, VARINT_LONG),
    (b"\x0a" + b"\xff" * 10, VARINT_LONG),
):
    good = b"\x08\x01\x12\x01x"
    got, err = drain(parse_fields(good + bad))
    assert [f.raw for f in got] == [b"\x08\x01", b"\x12\x01x"]
    assert err == ("ValueError", msg), (bad, err)
    got_s, err_s = drain(load_fields(BytesIO(good + bad)))
    assert got_s == got and err_s == err
# a length that runs far past the end
got, err = drain(parse_fields(b"\x0a" + varint(2**62) + b"abc"))
assert got == [] and err == ("EOFError", BUFFER_EOF)
assert list(parse_fields(b"")) == []
assert [f.raw for f in parse_fields(bytearray(b"\x08\x01\x15abcd"))] == [b"\x08\x01", b"\x15abcd"]


# ---------------------------- 3 packed runs of known fields, unknown fields around
class Color(betterproto.Enum):
    ZERO = 0
    ONE = 1
    NEG = -1


@dataclass(eq=False, repr=False)
class Newer(betterproto.Message):
    i32: List[int] = betterproto.int32_field(1)
    i64: List[int] = betterproto.int64_field(2)
    u32: List[int] = betterproto.uint32_field(3)
    u64: List[int] = betterproto.uint64_field(4)
    s32: List[int] = betterproto.sint32_field(5)
    s64: List[int] = betterproto.sint64_field(6)
    bools: List[bool] = betterproto.bool_field(7)
    colors: List[Color] = betterproto.enum_field(8)
    name: str = betterproto.string_field(9)
    f64: List[int] = betterproto.fixed64_field(10)
    dbl: List[float] = betterproto.double_field(11)
    x: int = betterproto.int64_field(2000)


@dataclass(eq=False, repr=False)
class Older(betterproto.Message):
    i64: List[int] = betterproto.int64_field(2)
    s32: List[int] = betterproto.sint32_field(5)
    colors: List[Color] = betterproto.enum_field(8)
    name: str = betterproto.string_field(9)


FD = descriptor_pb2.FieldDescriptorProto
fdp = descriptor_pb2.FileDescriptorProto(name="c08_keep2.proto", package="c08k2", syntax="proto3")
e = fdp.enum_type.add(name="Color")
e.value.add(name="ZERO", number=0)
e.value.add(name="ONE", number=1)
e.value.add(name="NEG", number=-1)
m = fdp.message_type.add(name="Newer")
for number, name, t in (
    (1, "i32", FD.TYPE_INT32),
    (2, "i64", FD.TYPE_INT64),
    (3, "u32", FD.TYPE_UINT32),
    (4, "u64", FD.TYPE_UINT64),
    (5, "s32", FD.TYPE_SINT32),
    (6, "s64", FD.TYPE_SINT64),
    (7, "bools", FD.TYPE_BOOL),
    (8, "colors", FD.TYPE_ENUM),
    (10, "f64", FD.TYPE_FIXED64),
    (11, "dbl", FD.TYPE_DOUBLE),
):
    f = m.field.add(name=name, number=number, type=t, label=FD.LABEL_REPEATED)
    if t == FD.TYPE_ENUM:
        f.type_name = ".c08k2.Color"
m.field.add(name="name", number=9, type=FD.TYPE_STRING, label=FD.LABEL_OPTIONAL)
m.field.add(name="x", number=2000, type=FD.TYPE_INT64, label=FD.LABEL_OPTIONAL)
pool = descriptor_pool.DescriptorPool()
pool.Add(fdp)
GNewer = message_factory.GetMessageClass(pool.FindMessageTypeByName("c08k2.Newer"))

I32 = [0, 1, -1, 127, 128, 2**31 - 1, -(2**31)]
I64 = [0, 1, -1, 2**63 - 1, -(2**63), 2**35]
U32 = [0, 1, 2**32 - 1, 300]
U64 = [0, 1, 2**64 - 1, 2**63]


def pick(pool_, lo=0, hi=6):
    return [rnd.choice(pool_) for _ in range(rnd.randrange(lo, hi))]


for trial in range(300):
    g = GNewer(
        i32=pick(I32), i64=pick(I64), u32=pick(U32), u64=pick(U64),
        s32=pick(I32), s64=pick(I64), bools=pick([True, False]),
        colors=pick([0, 1, -1, 7]), name=rnd.choice(["", "n", "é" * 70]),
        f64=pick(U64), dbl=pick([0.0, 1.5, -2.0]), x=rnd.choice(I64),
    )
    wire = g.SerializeToString()
    new = Newer().parse(wire)
    for fname in ("i32", "i64", "u32", "u64", "s32", "s64", "bools", "f64", "dbl"):
        assert list(getattr(g, fname)) == getattr(new, fname), fname
    assert [int(c) for c in new.colors] == list(g.colors)
    assert new.name == g.name and new.x == g.x
    assert bytes(new) == wire  # same canonical encoding as google's

    old = Older().parse(wire)
    assert old.i64 == list(g.i64) and old.s32 == list(g.s32)
    assert [int(c) for c in old.colors] == list(g.colors) and old.name == g.name
    again = bytes(old)
    assert len(old) == len(again)
    assert GNewer.FromString(again) == g
    assert Newer().parse(again) == new
    # nothing lost, nothing altered: the same fields, byte for byte
    assert sorted(f.raw for f in parse_fields(again)) == sorted(f.raw for f in parse_fields(wire))
    assert [f.raw for f in parse_fields(again)] == [f.raw for f in load_fields(BytesIO(again))]
    # the unknown ones keep their arrival order
    known_numbers = {2, 5, 8, 9}
    assert [f.raw for f in parse_fields(again) if f.number not in known_numbers] == [
        f.raw for f in parse_fields(wire) if f.number not in known_numbers
    ]

# packed runs that are themselves malformed: same errors as ever
for payload, err in (
    (b"\x80", ("EOFError", VARINT_EOF)),
    (b"\x01\x02\xff", ("EOFError", VARINT_EOF)),
    (b"\x01" + b"\x80" * 10 + b"\x01", ("ValueError", VARINT_LONG)),
    (b"\x01" + b"\xff" * 10, ("ValueError", VARINT_LONG)),
):
    data = b"\x50\x07" + b"\x12" + varint(len(payload)) + payload + b"\x58\x01"
    assert outcome(lambda: Older().parse(data)) == err, payload
ok = Older().parse(b"\x50\x07\x12\x0b\x01" + b"\xff" * 9 + b"\x01\x58\x01\x12\x01\x05")
assert ok.i64 == [1, -1, 5] and bytes(ok) == b"\x12\x0c\x01" + b"\xff" * 9 + b"\x01\x05\x50\x07\x58\x01"

print("ok", n_checked)
