"""Behaviour touched by the keep2 refactor: how Message._postprocess_single turns the
payload of a message-typed field into its Python value -- google.protobuf.Timestamp
-> datetime, Duration -> timedelta, the nine wrapper messages -> Optional scalar,
everything else -> nested message -- for singular, repeated, map-valued and oneof
fields, with valid, boundary, malformed and random payloads.  Expected values come
from a model written out here and from google.protobuf.

Must pass on the pristine tree and with the refactor applied.

Run: PYTHONPATH=/tmp/wt/R9C17/src /venv/bin/python equiv.py
"""
import math
import random
import struct
from dataclasses import dataclass
from datetime import datetime, timedelta, timezone
from typing import Dict, List, Optional

import betterproto
from betterproto import encode_varint
from google.protobuf import (  # noqa: F401  (registers the well-known files)
    descriptor_pb2,
    descriptor_pool,
    duration_pb2,
    message_factory,
    timestamp_pb2,
    wrappers_pb2,
)
from google.protobuf.message import DecodeError

EPOCH = datetime(1970, 1, 1, tzinfo=timezone.utc)
M64 = (1 << 64) - 1


# --------------------------------------------------------------------------- classes
@dataclass(eq=False, repr=False)
class Inner(betterproto.Message):
    n: int = betterproto.int32_field(1)
    t: str = betterproto.string_field(2)


@dataclass(eq=False, repr=False)
class W(betterproto.Message):
    ts: datetime = betterproto.message_field(1)
    du: timedelta = betterproto.message_field(2)
    wb: Optional[bool] = betterproto.message_field(3, wraps=betterproto.TYPE_BOOL)
    wby: Optional[bytes] = betterproto.message_field(4, wraps=betterproto.TYPE_BYTES)
    wd: Optional[float] = betterproto.message_field(5, wraps=betterproto.TYPE_DOUBLE)
    wf: Optional[float] = betterproto.message_field(6, wraps=betterproto.TYPE_FLOAT)
    wi32: Optional[int] = betterproto.message_field(7, wraps=betterproto.TYPE_INT32)
    wi64: Optional[int] = betterproto.message_field(8, wraps=betterproto.TYPE_INT64)
    ws: Optional[str] = betterproto.message_field(9, wraps=betterproto.TYPE_STRING)
    wu32: Optional[int] = betterproto.message_field(10, wraps=betterproto.TYPE_UINT32)
    wu64: Optional[int] = betterproto.message_field(11, wraps=betterproto.TYPE_UINT64)
    inner: "Inner" = betterproto.message_field(12)
    tss: List[datetime] = betterproto.message_field(13)
    dus: List[timedelta] = betterproto.message_field(14)
    inners: List["Inner"] = betterproto.message_field(15)
    mts: Dict[str, datetime] = betterproto.map_field(
        16, betterproto.TYPE_STRING, betterproto.TYPE_MESSAGE
    )
    mdu: Dict[int, timedelta] = betterproto.map_field(
        17, betterproto.TYPE_INT32, betterproto.TYPE_MESSAGE
    )
    minner: Dict[str, "Inner"] = betterproto.map_field(
        18, betterproto.TYPE_STRING, betterproto.TYPE_MESSAGE
    )
    ots: datetime = betterproto.message_field(19, group="g")
    odu: timedelta = betterproto.message_field(20, group="g")
    oinner: "Inner" = betterproto.message_field(21, group="g")
    ow: Optional[int] = betterproto.message_field(
        22, wraps=betterproto.TYPE_INT64, group="g"
    )


WRAPPERS = {
    # field name: (number, wrapped proto type, pb wrapper type name)
    "wb": (3, "bool", "BoolValue"),
    "wby": (4, "bytes", "BytesValue"),
    "wd": (5, "double", "DoubleValue"),
    "wf": (6, "float", "FloatValue"),
    "wi32": (7, "int32", "Int32Value"),
    "wi64": (8, "int64", "Int64Value"),
    "ws": (9, "string", "StringValue"),
    "wu32": (10, "uint32", "UInt32Value"),
    "wu64": (11, "uint64", "UInt64Value"),
}


def build_pb():
    F = descriptor_pb2.FieldDescriptorProto
    fdp = descriptor_pb2.FileDescriptorProto(
        name="c17_keep2.proto", package="c17k2", syntax="proto3",
        dependency=[
            "google/protobuf/timestamp.proto",
            "google/protobuf/duration.proto",
            "google/protobuf/wrappers.proto",
        ],
    )
    inner = fdp.message_type.add(name="Inner")
    inner.field.add(name="n", number=1, type=F.TYPE_INT32, label=F.LABEL_OPTIONAL)
    inner.field.add(name="t", number=2, type=F.TYPE_STRING, label=F.LABEL_OPTIONAL)
    w = fdp.message_type.add(name="W")
    w.oneof_decl.add(name="g")
    TS, DU, IN = ".google.protobuf.Timestamp", ".google.protobuf.Duration", ".c17k2.Inner"

    def msg_field(name, number, type_name, label=F.LABEL_OPTIONAL, **kw):
        w.field.add(name=name, number=number, type=F.TYPE_MESSAGE, type_name=type_name,
                    label=label, **kw)

    msg_field("ts", 1, TS)
    msg_field("du", 2, DU)
    for name, (number, _, pb_name) in WRAPPERS.items():
        msg_field(name, number, ".google.protobuf." + pb_name)
    msg_field("inner", 12, IN)
    msg_field("tss", 13, TS, F.LABEL_REPEATED)
    msg_field("dus", 14, DU, F.LABEL_REPEATED)
    msg_field("inners", 15, IN, F.LABEL_REPEATED)
    for name, number, key_type, value_type in (
        ("mts", 16, F.TYPE_STRING, TS), ("mdu", 17, F.TYPE_INT32, DU),
        ("minner", 18, F.TYPE_STRING, IN),
    ):
        entry = w.nested_type.add(name=name.capitalize() + "Entry")
        entry.options.map_entry = True
        entry.field.add(name="key", number=1, type=key_type, label=F.LABEL_OPTIONAL)
        entry.field.add(name="value", number=2, type=F.TYPE_MESSAGE, type_name=value_type,
                        label=F.LABEL_OPTIONAL)
        msg_field(name, number, ".c17k2.W." + entry.name, F.LABEL_REPEATED)
    msg_field("ots", 19, TS, oneof_index=0)
    msg_field("odu", 20, DU, oneof_index=0)
    msg_field("oinner", 21, IN, oneof_index=0)
    msg_field("ow", 22, ".google.protobuf.Int64Value", oneof_index=0)
    pool = descriptor_pool.Default()
    pool.AddSerializedFile(fdp.SerializeToString())
    return message_factory.GetMessageClass(pool.FindMessageTypeByName("c17k2.W"))


PbW = build_pb()


# --------------------------------------------------------------------------- encoders
def tag(number, wire_type):
    return encode_varint((number << 3) | wire_type)


def varint(number, value):
    return tag(number, 0) + encode_varint(value & M64)


def lendelim(number, payload):
    return tag(number, 2) + encode_varint(len(payload)) + payload


def fixed32(number, payload):
    return tag(number, 5) + payload


def fixed64(number, payload):
    return tag(number, 1) + payload


def sec_nanos(seconds, nanos):
    out = b""
    if seconds:
        out += varint(1, seconds)
    if nanos:
        out += varint(2, nanos)
    return out


def outcome(fn):
    try:
        return ("ok", fn())
    except Exception as exc:  # noqa: BLE001 - the exact class is what is compared
        return (type(exc).__name__, str(exc))


counts = {"ts": 0, "du": 0, "wrap": 0, "bad": 0, "fuzz": 0}

# --------------------------------------------------------------------------- timestamps
MAX_S = int((datetime.max.replace(tzinfo=timezone.utc) - EPOCH).total_seconds())
MIN_S = int((datetime.min.replace(tzinfo=timezone.utc) - EPOCH).total_seconds())
SECONDS = [0, 1, -1, 59, 86399, 86400, -86400, 1700000000, 253402300799, 253402300800,
           -62135596800, -62135596801, MAX_S, MAX_S + 1, MIN_S, MIN_S - 1, 2**31 - 1,
           2**31, -(2**31), 2**53, 2**62, 2**63 - 1, -(2**63), 86400 * 999999999,
           86400 * 999999999 + 86399, 86400 * 1000000000, -86400 * 999999999,
           -86400 * 1000000000]
NANOS = [0, 1, 999, 1000, 1001, 1499, 1500, 2500, 999999, 999999999, 1000000000,
         2**31 - 1, -1, -999, -1000, -1001, -1500, -999999999, -(2**31)]


def model_ts(seconds, nanos):
    return outcome(lambda: EPOCH + timedelta(seconds=seconds, microseconds=nanos // 1000))


def model_du(seconds, nanos):
    return outcome(lambda: timedelta(seconds=seconds, microseconds=nanos / 1e3))


def same_kind(got, want, what):
    assert got[0] == want[0], (what, got, want)
    if got[0] == "ok":
        assert type(got[1]) is type(want[1]) and got[1] == want[1], (what, got, want)
        if isinstance(got[1], datetime):
            assert got[1].tzinfo is not None and got[1].utcoffset() == timedelta(0)
    else:
        assert got[1] == want[1], (what, got, want)


def reencode_check(msg, data):
    """The decoded message can be encoded again, the result is a fixed point and the
    reference decoder reads it."""
    out = bytes(msg)
    assert len(msg) == len(out)
    again = W().parse(out)
    assert bytes(again) == out, (data.hex(), out.hex())
    pb = PbW()
    pb.ParseFromString(out)
    return pb


for s in SECONDS:
    for n in NANOS:
        payload = sec_nanos(s, n)
        want_ts = model_ts(s, n)
        want_du = model_du(s, n)
        # singular / oneof / repeated / map valued timestamp
        for data, get in (
            (lendelim(1, payload), lambda m: m.ts),
            (lendelim(19, payload), lambda m: m.ots),
            (lendelim(13, payload), lambda m: m.tss[0]),
            (lendelim(13, b"") + lendelim(13, payload), lambda m: m.tss[1]),
            (lendelim(16, lendelim(1, b"k") + lendelim(2, payload)), lambda m: m.mts["k"]),
        ):
            got = outcome(lambda: get(W().parse(data)))
            same_kind(got, want_ts, ("ts", s, n, data.hex()))
            if got[0] == "ok":
                msg = W().parse(data)
                pb = reencode_check(msg, data)
                us = (got[1] - EPOCH) // timedelta(microseconds=1)
                if data.startswith(tag(1, 2)):
                    assert (pb.ts.seconds, pb.ts.nanos) == (us // 10**6, us % 10**6 * 1000)
                elif data.startswith(tag(19, 2)):
                    assert pb.WhichOneof("g") == "ots"
                    assert (pb.ots.seconds, pb.ots.nanos) == (us // 10**6, us % 10**6 * 1000)
                    assert betterproto.which_one_of(msg, "g")[0] == "ots"
            counts["ts"] += 1
        # the same for durations
        for data, get in (
            (lendelim(2, payload), lambda m: m.du),
            (lendelim(20, payload), lambda m: m.odu),
            (lendelim(14, payload), lambda m: m.dus[0]),
            (lendelim(17, varint(1, 7) + lendelim(2, payload)), lambda m: m.mdu[7]),
        ):
            got = outcome(lambda: get(W().parse(data)))
            same_kind(got, want_du, ("du", s, n, data.hex()))
            if got[0] == "ok":
                msg = W().parse(data)
                pb = reencode_check(msg, data)
                total_us = got[1] // timedelta(microseconds=1)
                sign = -1 if total_us < 0 else 1
                q, r = divmod(abs(total_us), 10**6)
                if data.startswith(tag(2, 2)):
                    assert (pb.du.seconds, pb.du.nanos) == (sign * q, sign * r * 1000)
                elif data.startswith(tag(20, 2)):
                    assert pb.WhichOneof("g") == "odu"
                    assert (pb.odu.seconds, pb.odu.nanos) == (sign * q, sign * r * 1000)
            counts["du"] += 1

# empty payload = the zero value (present), absent = the default
m = W().parse(lendelim(1, b"") + lendelim(2, b""))
assert m.ts == EPOCH and type(m.ts) is datetime and m.du == timedelta(0)
m = W().parse(b"")
assert m.ts == EPOCH and m.du == timedelta(0) and m.inner == Inner() and m.wb is None
# last occurrence wins
m = W().parse(lendelim(1, sec_nanos(5, 0)) + lendelim(1, sec_nanos(9, 1000)))
assert m.ts == EPOCH + timedelta(seconds=9, microseconds=1)

# --------------------------------------------------------------------------- wrappers
INT_VALUES = [0, 1, -1, 127, 128, 2**31 - 1, -(2**31), 2**31, 2**32 - 1, 2**32, 2**63 - 1,
              -(2**63), 2**64 - 1]
FLOATS = [0.0, -0.0, 1.5, -2.25, 1e38, 3.4028234663852886e38, 1e-45, float("inf"),
          float("-inf"), float("nan"), 1e308, 5e-324]
BYTES = [b"", b"a", b"\x00\xff\x80", bytes(range(256)), b"x" * 300]
STRINGS = ["", "a", "héllo", "\U0001f600", "z" * 200, "\x00"]


def wrapper_cases(proto_type):
    """(inner payload, expected python value) pairs."""
    if proto_type == "bool":
        return [(b"", False), (varint(1, 0), False), (varint(1, 1), True), (varint(1, 2), True),
                (varint(1, 2**63), True)]
    if proto_type in ("int32", "int64"):
        bits = 32 if proto_type == "int32" else 64
        out = [(b"", 0)]
        for v in INT_VALUES:
            raw = v & M64
            x = raw & ((1 << bits) - 1)
            if x >> (bits - 1):
                x -= 1 << bits
            out.append((varint(1, v), x))
        return out
    if proto_type in ("uint32", "uint64"):
        return [(b"", 0)] + [(varint(1, v), v & M64) for v in INT_VALUES]
    if proto_type == "double":
        return [(b"", 0.0)] + [(fixed64(1, struct.pack("<d", f)), f) for f in FLOATS]
    if proto_type == "float":
        out = [(b"", 0.0)]
        for f in FLOATS:
            try:
                packed = struct.pack("<f", f)
            except OverflowError:
                continue
            out.append((fixed32(1, packed), struct.unpack("<f", packed)[0]))
        return out
    if proto_type == "bytes":
        return [(lendelim(1, b), b) for b in BYTES]
    if proto_type == "string":
        return [(lendelim(1, s.encode()), s) for s in STRINGS]
    raise AssertionError(proto_type)


def same_value(a, b):
    if isinstance(a, float) and isinstance(b, float):
        if math.isnan(a) or math.isnan(b):
            return math.isnan(a) and math.isnan(b)
        return a == b and math.copysign(1, a) == math.copysign(1, b)
    return a == b


for name, (number, proto_type, pb_name) in WRAPPERS.items():
    for payload, expect in wrapper_cases(proto_type):
        data = lendelim(number, payload)
        msg = W().parse(data)
        got = getattr(msg, name)
        assert type(got) is type(expect) and same_value(got, expect), (name, payload, got, expect)
        # all the other wrapper fields stay unset
        for other in WRAPPERS:
            if other != name:
                assert getattr(msg, other) is None
        pb = PbW()
        pb.ParseFromString(data)
        assert pb.HasField(name)
        ref = getattr(pb, name).value
        if proto_type == "uint32" and expect >= 2**32:
            pass  # betterproto keeps a uint32 beyond 32 bits, the reference truncates
        else:
            assert same_value(got, ref), (name, payload, got, ref)
        reencode_check(msg, data)
        counts["wrap"] += 1
    # unknown field / mismatching wire type inside the wrapper: value stays default
    for payload in (varint(9, 5), fixed32(1, b"abcd") if proto_type != "float" else varint(1, 1)):
        msg = W().parse(lendelim(number, payload))
        got = getattr(msg, name)
        default = {"bool": False, "bytes": b"", "string": "", "double": 0.0, "float": 0.0}.get(
            proto_type, 0)
        assert type(got) is type(default) and got == default, (name, payload, got)

# wrapper in a oneof
m = W().parse(lendelim(22, varint(1, -5)))
assert betterproto.which_one_of(m, "g") == ("ow", -5)
m = W().parse(lendelim(19, sec_nanos(1, 0)) + lendelim(22, b""))
assert betterproto.which_one_of(m, "g") == ("ow", 0)
m = W().parse(lendelim(22, b"") + lendelim(21, varint(1, 3)))
which, value = betterproto.which_one_of(m, "g")
assert which == "oinner" and type(value) is Inner and value.n == 3

# plain nested messages (singular, repeated, map valued)
m = W().parse(lendelim(12, varint(1, 4) + lendelim(2, b"four")) + lendelim(15, b"")
              + lendelim(15, varint(1, 2)) + lendelim(18, lendelim(1, b"k") + lendelim(2, varint(1, 8)))
              + lendelim(18, lendelim(1, b"e")))
assert type(m.inner) is Inner and (m.inner.n, m.inner.t) == (4, "four")
assert betterproto.serialized_on_wire(m.inner)
assert [type(i) for i in m.inners] == [Inner, Inner] and [i.n for i in m.inners] == [0, 2]
assert all(betterproto.serialized_on_wire(i) for i in m.inners)
assert set(m.minner) == {"k", "e"} and m.minner["k"].n == 8 and type(m.minner["e"]) is Inner
m = W().parse(lendelim(12, b""))
assert betterproto.serialized_on_wire(m.inner) and bytes(m) == lendelim(12, b"")
assert not betterproto.serialized_on_wire(W().inner)

# --------------------------------------------------------------------------- malformed
# payloads that are not a valid message, with the exception they must produce
BAD = [
    (b"\x00", "ValueError", "Invalid field number 0."),
    (b"\x00\x00", "ValueError", "Invalid field number 0."),
    (b"\x05\x00\x00\x00\x00", "ValueError", "Invalid field number 0."),
    (b"\x0b", "ValueError", "Unsupported wire type 3 in field 1."),
    (b"\x0b\x0c", "ValueError", "Unsupported wire type 3 in field 1."),
    (b"\x0c", "ValueError", "Unsupported wire type 4 in field 1."),
    (b"\x0e", "ValueError", "Unsupported wire type 6 in field 1."),
    (b"\x17\x01", "ValueError", "Unsupported wire type 7 in field 2."),
    (b"\x08", "EOFError", None),
    (b"\x08\x80", "EOFError", None),
    (b"\x80", "EOFError", None),
    (b"\x10\xff\xff", "EOFError", None),
    (b"\x08" + b"\x80" * 10 + b"\x01", "ValueError", "Too many bytes when decoding varint."),
    (b"\x80" * 10 + b"\x01", "ValueError", "Too many bytes when decoding varint."),
    (b"\x1a\x05ab", "EOFError", None),
    (b"\x1a", "EOFError", None),
    (b"\x1d\x01\x02\x03", "EOFError", None),
    (b"\x19\x01\x02\x03\x04\x05\x06\x07", "EOFError", None),
    (b"\x08\x01\x00", "ValueError", "Invalid field number 0."),
]
MESSAGE_FIELDS = {
    name: meta.number for name, meta in W._betterproto.meta_by_field_name.items()
}
for name, number in MESSAGE_FIELDS.items():
    is_map = name in ("mts", "mdu", "minner")
    for payload, exc_name, text in BAD:
        variants = [lendelim(number, payload)]
        if is_map:
            # also malformed inside the map VALUE
            key = varint(1, 1) if name == "mdu" else lendelim(1, b"k")
            variants.append(lendelim(number, key + lendelim(2, payload)))
        for data in variants:
            for prefix, suffix in ((b"", b""), (lendelim(12, varint(1, 1)), varint(99, 1))):
                got = outcome(lambda: W().parse(prefix + data + suffix))
                assert got[0] == exc_name, (name, payload, got)
                if text is not None:
                    assert got[1] == text, (name, payload, got)
                ref = outcome(lambda: PbW().ParseFromString(prefix + data + suffix))
                if payload != b"\x0b\x0c":  # the reference skips a balanced group
                    assert ref[0] == "DecodeError", (name, payload, ref)
                counts["bad"] += 1

# invalid UTF-8 in a StringValue / nested string; wrong width is impossible here
for data in (lendelim(9, lendelim(1, b"\xff")), lendelim(9, lendelim(1, b"\xed\xa0\x80")),
             lendelim(12, lendelim(2, b"\xc3")), lendelim(15, lendelim(2, b"\x80")),
             lendelim(18, lendelim(1, b"k") + lendelim(2, lendelim(2, b"\xfe")))):
    got = outcome(lambda: W().parse(data))
    assert got[0] == "UnicodeDecodeError", got
    assert outcome(lambda: PbW().ParseFromString(data))[0] == "DecodeError"

# a message-typed field that arrives with another wire type is kept as unknown
for name, number in MESSAGE_FIELDS.items():
    for chunk in (varint(number, 5), fixed32(number, b"abcd"), fixed64(number, b"abcdefgh")):
        msg = W().parse(chunk)
        assert msg._unknown_fields == chunk and bytes(msg) == chunk
        if name in WRAPPERS:
            assert getattr(msg, name) is None
        assert betterproto.which_one_of(msg, "g") == ("", None)

# an unknown wraps value is still reported by the proto type (KeyError)
assert outcome(lambda: betterproto._get_wrapper("sint32")) == ("KeyError", "'sint32'")
assert outcome(lambda: betterproto._get_wrapper("message")) == ("KeyError", "'message'")
for proto_type, cls_name in (("bool", "BoolValue"), ("bytes", "BytesValue"),
                             ("double", "DoubleValue"), ("float", "FloatValue"),
                             ("int32", "Int32Value"), ("int64", "Int64Value"),
                             ("string", "StringValue"), ("uint32", "UInt32Value"),
                             ("uint64", "UInt64Value")):
    assert betterproto._get_wrapper(proto_type).__name__ == cls_name


@dataclass(eq=False, repr=False)
class Odd(betterproto.Message):
    # hand written oddities: wraps on a datetime field (the datetime wins), an
    # unsupported wraps value (KeyError when such a field is decoded)
    a: datetime = betterproto.message_field(1, wraps=betterproto.TYPE_INT32)
    b: Optional[int] = betterproto.message_field(2, wraps=betterproto.TYPE_SINT32)
    c: timedelta = betterproto.message_field(3, wraps=betterproto.TYPE_STRING)


assert Odd().parse(lendelim(1, sec_nanos(3, 0))).a == EPOCH + timedelta(seconds=3)
assert Odd().parse(lendelim(3, sec_nanos(3, 0))).c == timedelta(seconds=3)
assert outcome(lambda: Odd().parse(lendelim(2, varint(1, 1)))) == ("KeyError", "'sint32'")


# --------------------------------------------------------------------------- fuzz
def typed_ok(msg):
    """Every field of W holds a value of its declared type."""
    assert type(msg.ts) is datetime and type(msg.du) is timedelta
    for name, (_, proto_type, _) in WRAPPERS.items():
        value = getattr(msg, name)
        py = {"bool": bool, "bytes": bytes, "double": float, "float": float,
              "string": str}.get(proto_type, int)
        assert value is None or type(value) is py, (name, value)
    assert type(msg.inner) is Inner
    assert all(type(v) is datetime for v in msg.tss)
    assert all(type(v) is timedelta for v in msg.dus)
    assert all(type(v) is Inner for v in msg.inners)
    assert all(type(k) is str and type(v) is datetime for k, v in msg.mts.items())
    assert all(type(k) is int and type(v) is timedelta for k, v in msg.mdu.items())
    assert all(type(k) is str and type(v) is Inner for k, v in msg.minner.items())
    which, value = betterproto.which_one_of(msg, "g")
    if which:
        want = {"ots": datetime, "odu": timedelta, "oinner": Inner, "ow": int}[which]
        assert type(value) is want, (which, value)


rng = random.Random(20260517)
ALLOWED = {"ValueError", "EOFError", "OverflowError", "UnicodeDecodeError", "error"}


def valid_message():
    parts = []
    for _ in range(rng.randint(1, 6)):
        name, number = rng.choice(list(MESSAGE_FIELDS.items()))
        s = rng.choice([0, 1, -1, rng.randint(-10**9, 10**10), rng.randint(-10**11, 10**11)])
        n = rng.choice([0, 1, 1000, rng.randint(0, 999999999), -rng.randint(0, 999999999)])
        if name in ("ts", "du", "tss", "dus", "ots", "odu"):
            payload = sec_nanos(s, n)
        elif name in WRAPPERS or name == "ow":
            proto_type = WRAPPERS[name][1] if name in WRAPPERS else "int64"
            payload = rng.choice(wrapper_cases(proto_type))[0]
        elif name in ("inner", "inners", "oinner"):
            payload = varint(1, rng.randint(-5, 5)) + lendelim(2, rng.choice(STRINGS).encode())
        elif name == "mts":
            payload = lendelim(1, b"key%d" % rng.randint(0, 2)) + lendelim(2, sec_nanos(s, n))
        elif name == "mdu":
            payload = varint(1, rng.randint(0, 2)) + lendelim(2, sec_nanos(s, n))
        else:
            payload = lendelim(1, b"q") + lendelim(2, varint(1, rng.randint(0, 9)))
        parts.append(lendelim(number, payload))
    return b"".join(parts)


def run_fuzz(data, compare_reject):
    got = outcome(lambda: W().parse(data))
    if got[0] == "ok":
        msg = got[1]
        typed_ok(msg)
        out = bytes(msg)
        assert len(out) == len(msg)
        again = W().parse(out)
        typed_ok(again)
        assert bytes(again) == out, (data.hex(), out.hex())
        assert outcome(lambda: W.FromString(data))[0] == "ok"
    else:
        assert got[0] in ALLOWED, (data.hex(), got)
        if compare_reject and got[0] in ("EOFError",):
            # truncation is rejected by the reference too
            assert outcome(lambda: PbW().ParseFromString(data))[0] == "DecodeError", data.hex()
    counts["fuzz"] += 1
    return got[0]


seen = {}
for _ in range(450):
    data = valid_message()
    kind = run_fuzz(data, False)
    seen[kind] = seen.get(kind, 0) + 1
    # every truncation point
    for cut in range(len(data)):
        kind = run_fuzz(data[:cut], True)
        seen[kind] = seen.get(kind, 0) + 1
    # single byte corruptions
    for _ in range(12):
        pos = rng.randrange(len(data))
        mutated = data[:pos] + bytes([rng.randrange(256)]) + data[pos + 1:]
        kind = run_fuzz(mutated, False)
        seen[kind] = seen.get(kind, 0) + 1
for _ in range(3000):
    blob = bytes(rng.randrange(256) for _ in range(rng.randint(0, 12)))
    number = rng.choice(list(MESSAGE_FIELDS.values()))
    kind = run_fuzz(lendelim(number, blob), False)
    seen[kind] = seen.get(kind, 0) + 1
assert seen.get("ok", 0) > 1000 and seen.get("EOFError", 0) > 1000, seen

print("keep2 equiv: ok", counts, seen)
