"""Behaviour of betterproto.load_fields (and of what Message.load builds on it),
checked against an independent reference decoder written here and against
google.protobuf's view of unknown fields.  Must pass on the pristine tree and
with the load_fields refactor applied.
"""
import random
import struct
from dataclasses import dataclass
from io import BytesIO
from typing import List

from google.protobuf import empty_pb2, unknown_fields

import betterproto
from betterproto import ParsedField, encode_varint, load_fields, parse_fields

rnd = random.Random(80808)


# --------------------------------------------------------------------------- helpers
def varint(n: int, pad: int = 0) -> bytes:
    """Varint of n, optionally made `pad` bytes longer (non-canonical, still valid)."""
    out = bytearray()
    while True:
        b = n & 0x7F
        n >>= 7
        if n or pad:
            out.append(b | 0x80)
        else:
            out.append(b)
            break
        if not n and pad:
            out.extend([0x80] * (pad - 1))
            out.append(0)
            break
    return bytes(out)


assert varint(0) == b"\x00" and varint(300) == b"\xac\x02" and varint(1, 2) == b"\x81\x80\x00"
for n in (0, 1, 127, 128, 300, 2**32, 2**63, 2**64 - 1):
    assert varint(n) == encode_varint(n)


def ref_read_varint(buf: bytes, pos: int):
    result = shift = 0
    start = pos
    while True:
        b = buf[pos]
        pos += 1
        result |= (b & 0x7F) << shift
        shift += 7
        if not b & 0x80:
            return result, pos, buf[start:pos]


def ref_fields(buf: bytes):
    """Independent reference: list of (number, wire_type, value, raw)."""
    out = []
    pos = 0
    while pos < len(buf):
        start = pos
        key, pos, _ = ref_read_varint(buf, pos)
        number, wt = key >> 3, key & 7
        if wt == 0:
            value, pos, _ = ref_read_varint(buf, pos)
        elif wt == 1:
            value, pos = buf[pos : pos + 8], pos + 8
        elif wt == 2:
            ln, pos, _ = ref_read_varint(buf, pos)
            value, pos = buf[pos : pos + ln], pos + ln
        elif wt == 5:
            value, pos = buf[pos : pos + 4], pos + 4
        else:
            raise AssertionError(wt)
        out.append((number, wt, value, buf[start:pos]))
    return out


NUMBERS = [1, 2, 15, 16, 17, 127, 128, 2047, 2048, 262143, 262144, 2**25 - 1, 2**25, 2**29 - 1]
VARINTS = [0, 1, 127, 128, 255, 300, 2**31 - 1, 2**31, 2**32, 2**63 - 1, 2**63, 2**64 - 1]
LENGTHS = [0, 1, 2, 127, 128, 129, 300, 20000]


def gen_field(number=None, wt=None, pad_ok=True, limit5=False):
    """One well-formed field.  With limit5, tags and length prefixes stay within the
    five bytes that google.protobuf (upb) accepts for them."""
    number = rnd.choice(NUMBERS) if number is None else number
    wt = rnd.choice([0, 1, 2, 5]) if wt is None else wt
    pad = rnd.choice([0, 0, 0, 1, 2]) if pad_ok else 0
    if limit5:
        pad = min(pad, 5 - len(varint((number << 3) | wt)))
    tag = varint((number << 3) | wt, pad)
    if wt == 0:
        v = rnd.choice(VARINTS + [rnd.getrandbits(rnd.randint(1, 64))])
        vpad = rnd.choice([0, 0, 1]) if pad_ok and v < 2**56 else 0
        body = varint(v, vpad)
    elif wt == 1:
        body = bytes(rnd.getrandbits(8) for _ in range(8))
    elif wt == 5:
        body = bytes(rnd.getrandbits(8) for _ in range(4))
    else:
        ln = rnd.choice(LENGTHS + [rnd.randint(0, 40)] * 6)
        lpad = rnd.choice([0, 0, 1, 4]) if pad_ok else 0
        if limit5:
            lpad = min(lpad, 5 - len(varint(ln)))
        body = varint(ln, lpad) + bytes(rnd.getrandbits(8) for _ in range(ln))
    return tag + body


def as_tuples(fields):
    return [(f.number, f.wire_type, f.value, f.raw) for f in fields]


# --------------------------------------------------------- 1. load_fields == reference
# exhaustive grid of single fields
for number in NUMBERS:
    for wt in (0, 1, 2, 5):
        for _ in range(6):
            data = gen_field(number, wt)
            got = list(load_fields(BytesIO(data)))
            assert len(got) == 1 and isinstance(got[0], ParsedField)
            assert as_tuples(got) == ref_fields(data), (number, wt, data)
            assert got[0].raw == data and type(got[0].raw) is bytes
            assert type(got[0].value) is (int if wt == 0 else bytes)

# specific boundary payloads
for v in VARINTS:
    data = varint(8) + varint(v)
    (f,) = load_fields(BytesIO(data))
    assert (f.number, f.wire_type, f.value, f.raw) == (1, 0, v, data)
for ln in LENGTHS:
    payload = bytes(i % 251 for i in range(ln))
    data = varint((16 << 3) | 2) + varint(ln) + payload
    (f,) = load_fields(BytesIO(data))
    assert (f.number, f.wire_type, f.value, f.raw) == (16, 2, payload, data)

# random sequences; also agree with parse_fields and with a non-BytesIO stream
class ByteAtATime:
    """A stream whose read() never returns more than asked and is not a BytesIO."""

    def __init__(self, data):
        self.data, self.pos, self.calls = data, 0, []

    def read(self, n=-1):
        self.calls.append(n)
        chunk = self.data[self.pos : self.pos + n]
        self.pos += len(chunk)
        return chunk


for _ in range(1500):
    data = b"".join(gen_field() for _ in range(rnd.randint(0, 8)))
    expect = ref_fields(data)
    assert as_tuples(load_fields(BytesIO(data))) == expect
    assert as_tuples(parse_fields(data)) == expect
    s = ByteAtATime(data)
    assert as_tuples(load_fields(s)) == expect
    assert s.pos == len(data)
    assert b"".join(f.raw for f in load_fields(BytesIO(data))) == data

assert list(load_fields(BytesIO(b""))) == []

# laziness: the generator consumes exactly one field per next()
data = gen_field(1, 0) + gen_field(300, 2) + gen_field(5, 5)
stream = BytesIO(data)
gen = load_fields(stream)
consumed = 0
for f in gen:
    consumed += len(f.raw)
    assert stream.tell() == consumed
assert consumed == len(data)


# ----------------------------------------------------------------- 2. error behaviour
def outcome(data):
    stream = BytesIO(data)
    got = []
    try:
        for f in load_fields(stream):
            got.append((f.number, f.wire_type, f.value, f.raw))
    except Exception as e:  # noqa: BLE001
        return got, type(e), str(e), stream.tell()
    return got, None, None, stream.tell()


good = gen_field(3, 2, pad_ok=False)
# field number 0 is rejected for every wire type, before the payload is looked at
for wt in range(8):
    got, exc, msg, pos = outcome(good + bytes([wt]) + b"\x01\x02\x03\x04\x05\x06\x07\x08")
    assert (len(got), exc, msg) == (1, ValueError, "Invalid field number 0."), (wt, exc, msg)
    assert pos == len(good) + 1
# unsupported wire types (groups 3/4 and the undefined 6/7)
for number in (1, 16, 5000):
    for wt in (3, 4, 6, 7):
        tag = varint((number << 3) | wt)
        got, exc, msg, pos = outcome(good + tag + b"\x00" * 9)
        assert len(got) == 1 and exc is ValueError
        assert msg == f"Unsupported wire type {wt} in field {number}.", msg
        assert pos == len(good) + len(tag)
# truncation anywhere inside a field is an EOFError; at a boundary it is a clean end
for number in (1, 16, 2048):
    for wt in (0, 1, 2, 5):
        data = gen_field(number, wt, pad_ok=False)
        if wt == 2 and len(data) < 4:
            data = varint((number << 3) | 2) + b"\x03abc"
        for cut in range(1, len(data)):
            got, exc, msg, pos = outcome(good + data[:cut])
            assert len(got) == 1 and exc is EOFError, (number, wt, cut, exc)
        got, exc, msg, pos = outcome(good + data)
        assert len(got) == 2 and exc is None
# exact messages of the truncation errors
assert outcome(b"\x0d\x01\x02")[1:3] == (EOFError, "Stream ended unexpectedly: expected 4 bytes but got 2.")
assert outcome(b"\x09\x01\x02")[1:3] == (EOFError, "Stream ended unexpectedly: expected 8 bytes but got 2.")
assert outcome(b"\x0a\x05ab")[1:3] == (EOFError, "Stream ended unexpectedly: expected 5 bytes but got 2.")
assert outcome(b"\x08")[1:3] == (EOFError, "Stream ended unexpectedly while attempting to load varint.")
assert outcome(b"\x88")[1:3] == (EOFError, "Stream ended unexpectedly while attempting to load varint.")
assert outcome(b"\x0a\x80")[1:3] == (EOFError, "Stream ended unexpectedly while attempting to load varint.")
# over-long varints
assert outcome(b"\x08" + b"\x80" * 10 + b"\x01")[1] is ValueError
assert outcome(b"\x80" * 10 + b"\x01")[1] is ValueError
assert outcome(b"\x08" + b"\xff" * 9 + b"\x01")[1] is None


# ---------------------------------------- 3. unknown fields through Message, vs protobuf
@dataclass(eq=False, repr=False)
class Empty(betterproto.Message):
    pass


@dataclass(eq=False, repr=False)
class Newer(betterproto.Message):
    a: int = betterproto.int32_field(1)
    s: str = betterproto.string_field(2)
    d: float = betterproto.double_field(3)
    v: int = betterproto.uint64_field(16)
    t: bytes = betterproto.bytes_field(17)
    f32: int = betterproto.fixed32_field(18)
    f64: int = betterproto.sfixed64_field(19)
    r: List[str] = betterproto.string_field(300)
    p: List[int] = betterproto.sint32_field(301)
    big: int = betterproto.sint64_field(5000)


FIELDS = {
    "a": (1, "int32_field", int),
    "s": (2, "string_field", str),
    "d": (3, "double_field", float),
    "v": (16, "uint64_field", int),
    "t": (17, "bytes_field", bytes),
    "f32": (18, "fixed32_field", int),
    "f64": (19, "sfixed64_field", int),
    "r": (300, "string_field", List[str]),
    "p": (301, "sint32_field", List[int]),
    "big": (5000, "sint64_field", int),
}


def make_older(keep):
    ns = {"__annotations__": {}}
    for name in keep:
        number, maker, typ = FIELDS[name]
        ns["__annotations__"][name] = typ
        ns[name] = getattr(betterproto, maker)(number)
    return dataclass(eq=False, repr=False)(type("Older", (betterproto.Message,), ns))


def rand_newer():
    kw = {}
    pick = lambda: rnd.random() < 0.7
    if pick(): kw["a"] = rnd.choice([0, 1, -1, 2**31 - 1, -(2**31)])
    if pick(): kw["s"] = rnd.choice(["", "x", "héllo", "y" * 200])
    if pick(): kw["d"] = rnd.choice([0.0, 1.5, -2.25, 1e300])
    if pick(): kw["v"] = rnd.choice([0, 1, 2**40, 2**64 - 1])
    if pick(): kw["t"] = rnd.choice([b"", b"\x00", bytes(range(130))])
    if pick(): kw["f32"] = rnd.choice([0, 1, 2**32 - 1])
    if pick(): kw["f64"] = rnd.choice([0, -1, 2**63 - 1, -(2**63)])
    if pick(): kw["r"] = [rnd.choice(["", "a", "bc"]) for _ in range(rnd.randint(0, 4))]
    if pick(): kw["p"] = [rnd.choice([0, -1, 7, -(2**31)]) for _ in range(rnd.randint(0, 4))]
    if pick(): kw["big"] = rnd.choice([0, -1, 2**63 - 1, -(2**63)])
    return Newer(**kw)


names = list(FIELDS)
for mask in range(0, 2 ** len(names), 7):  # a spread of subsets, incl. the empty one
    keep = [n for i, n in enumerate(names) if mask >> i & 1]
    Older = make_older(keep)
    for _ in range(4):
        newer = rand_newer()
        wire = bytes(newer)
        older = Older().parse(wire)
        for n in keep:
            assert getattr(older, n) == getattr(newer, n), (keep, n)
        again = bytes(older)
        assert len(again) == len(wire) == len(older)
        assert sorted(ref_fields(again)) == sorted(ref_fields(wire))
        assert Newer().parse(again) == newer, keep
        # the unknown part is exactly the dropped fields' bytes, in arrival order
        dropped = {FIELDS[n][0] for n in names} - {FIELDS[n][0] for n in keep}
        assert older._unknown_fields == b"".join(
            raw for number, _, _, raw in ref_fields(wire) if number in dropped
        )

# arbitrary unknown bytes: same result as google.protobuf's Empty, byte for byte, and the
# same (number, wire type, payload) view as protobuf's UnknownFieldSet
for _ in range(600):
    data = b"".join(gen_field(limit5=True) for _ in range(rnd.randint(0, 7)))
    ours = bytes(Empty().parse(data))
    ref = empty_pb2.Empty()
    ref.ParseFromString(data)
    assert ours == data == ref.SerializeToString()
    view = []
    for u in unknown_fields.UnknownFieldSet(ref):
        payload = u.data
        if u.wire_type == 1:
            payload = struct.pack("<Q", payload)
        elif u.wire_type == 5:
            payload = struct.pack("<I", payload)
        view.append((u.field_number, u.wire_type, payload))
    assert [(f.number, f.wire_type, f.value) for f in load_fields(BytesIO(data))] == view

# unknown fields interleaved at every position among the known ones
Low = make_older(["a", "s"])
known_a, known_s = b"\x08\x2a", b"\x12\x02ok"
for _ in range(200):
    unknown = [gen_field(rnd.choice([4, 15, 16, 200, 2048, 70000])) for _ in range(rnd.randint(0, 5))]
    i = rnd.randint(0, len(unknown))
    j = rnd.randint(i, len(unknown))
    data = b"".join(unknown[:i]) + known_a + b"".join(unknown[i:j]) + known_s + b"".join(unknown[j:])
    older = Low().parse(data)
    assert (older.a, older.s) == (42, "ok")
    assert bytes(older) == known_a + known_s + b"".join(unknown)
    # size-delimited stream form
    out = BytesIO()
    older.dump(out, betterproto.SIZE_DELIMITED)
    out.write(b"\x08\x01")
    out.seek(0)
    back = Low().load(out, betterproto.SIZE_DELIMITED)
    assert bytes(back) == bytes(older) and out.read() == b"\x08\x01"

print("ok")
