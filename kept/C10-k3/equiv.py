"""Equivalence check for the _serialize_single / _len_single wire-type dispatch.

Exercises the single-field serializer and its size twin against an independent reference
(own varint/struct code and google.protobuf's pure-python field encoders), then checks the
message level: dump(..., SIZE_DELIMITED) against google.protobuf.proto.serialize_length_prefixed,
read-back, stream positions and all cut points.
"""
import struct
from dataclasses import dataclass
from datetime import datetime, timedelta, timezone
from io import BytesIO
from typing import Dict, List, Optional

import betterproto
from betterproto import (
    SIZE_DELIMITED,
    _len_single,
    _serialize_single,
)
from google.protobuf import descriptor_pb2, descriptor_pool, message_factory, proto
from google.protobuf.internal import encoder as genc


def varint(n: int) -> bytes:
    if n < 0:
        n += 1 << 64
    out = bytearray()
    while True:
        b = n & 0x7F
        n >>= 7
        if n:
            out.append(b | 0x80)
        else:
            out.append(b)
            return bytes(out)


def zigzag(n: int) -> int:
    return (n << 1) ^ (n >> 63)


FIELD_NUMBERS = [1, 2, 15, 16, 127, 128, 2047, 2048, 262143, 262144, 2**28, 2**29 - 1]

I32 = [0, 1, -1, 63, 64, 127, 128, 16383, 16384, 2**21 - 1, 2**21, 2**31 - 1, -(2**31)]
I64 = I32 + [2**31, 2**35 - 1, 2**35, 2**42, 2**49 - 1, 2**49, 2**56, 2**63 - 1, -(2**63), -(2**62)]
U32 = [0, 1, 127, 128, 300, 16383, 16384, 2**28 - 1, 2**28, 2**32 - 1]
U64 = U32 + [2**32, 2**35, 2**56 - 1, 2**56, 2**63 - 1, 2**63, 2**64 - 1]
FLOATS = [0.0, -0.0, 1.0, -1.5, 3.4028234663852886e38, float("inf"), float("-inf"), 1e-45]
DOUBLES = FLOATS + [1e300, 2.2250738585072014e-308, 5e-324, 1.7976931348623157e308]

VARINT_CASES = {
    "int32": (I32, lambda v: varint(v), genc.Int32Encoder),
    "int64": (I64, lambda v: varint(v), genc.Int64Encoder),
    "uint32": (U32, lambda v: varint(v), genc.UInt32Encoder),
    "uint64": (U64, lambda v: varint(v), genc.UInt64Encoder),
    "sint32": (I32, lambda v: varint(zigzag(v)), genc.SInt32Encoder),
    "sint64": (I64, lambda v: varint(zigzag(v)), genc.SInt64Encoder),
    "bool": ([False, True], lambda v: varint(int(v)), genc.BoolEncoder),
    "enum": ([0, 1, 2, 127, 128, 2**31 - 1, -1, -(2**31)], lambda v: varint(v), genc.EnumEncoder),
}
FIXED_CASES = {
    "float": (FLOATS, "<f", 5, genc.FloatEncoder),
    "double": (DOUBLES, "<d", 1, genc.DoubleEncoder),
    "fixed32": (U32, "<I", 5, genc.Fixed32Encoder),
    "sfixed32": (I32, "<i", 5, genc.SFixed32Encoder),
    "fixed64": (U64, "<Q", 1, genc.Fixed64Encoder),
    "sfixed64": (I64, "<q", 1, genc.SFixed64Encoder),
}


def google_encode(make_encoder, number, value) -> bytes:
    out = []
    make_encoder(number, False, False)(out.append, value, True)
    return b"".join(out)


checked = 0
for number in FIELD_NUMBERS:
    for proto_type, (values, enc, make_encoder) in VARINT_CASES.items():
        for value in values:
            for serialize_empty in (False, True):
                expected = varint(number << 3) + enc(value)
                got = _serialize_single(number, proto_type, value, serialize_empty=serialize_empty)
                assert type(got) is bytes
                assert got == expected, (number, proto_type, value, got, expected)
                assert got == google_encode(make_encoder, number, value)
                assert _len_single(number, proto_type, value, serialize_empty=serialize_empty) == len(expected)
                checked += 1
    for proto_type, (values, fmt, wire, make_encoder) in FIXED_CASES.items():
        for value in values:
            for serialize_empty in (False, True):
                expected = varint((number << 3) | wire) + struct.pack(fmt, value)
                got = _serialize_single(number, proto_type, value, serialize_empty=serialize_empty)
                assert type(got) is bytes
                assert got == expected, (number, proto_type, value)
                assert got == google_encode(make_encoder, number, value)
                assert _len_single(number, proto_type, value, serialize_empty=serialize_empty) == len(expected)
                checked += 1

# NaN payloads survive unchanged
for proto_type, fmt, wire in (("float", "<f", 5), ("double", "<d", 1)):
    got = _serialize_single(3, proto_type, float("nan"))
    assert got == varint((3 << 3) | wire) + struct.pack(fmt, float("nan"))
    assert _len_single(3, proto_type, float("nan")) == len(got)

# out-of-range values keep failing the same way in both functions
for fn in (_serialize_single, _len_single):
    for proto_type, value, exc in (
        ("int64", -(2**63) - 1, ValueError),
        ("fixed32", -1, struct.error),
        ("sfixed32", 2**31, struct.error),
        ("fixed64", 2**64, struct.error),
    ):
        try:
            fn(1, proto_type, value)
        except exc:
            pass
        else:
            raise AssertionError((fn, proto_type, value))


# ---- length-delimited types ------------------------------------------------------------
@dataclass(eq=False, repr=False)
class Inner(betterproto.Message):
    a: int = betterproto.int32_field(1)
    s: str = betterproto.string_field(2)


STRINGS = ["", "a", "x" * 127, "y" * 128, "z" * 16383, "w" * 16384, "é中\U0001f600", "\x00"]
BYTES = [b"", b"\x00", b"\xff" * 127, b"\x80" * 128, bytes(range(256)) * 65, bytearray(b""), bytearray(b"\x01\x02")]
MESSAGES = [Inner(), Inner(a=1), Inner(a=-1, s="q" * 200), Inner(s="")]


def expect_len_delim(number, payload: bytes, force: bool) -> bytes:
    if not payload and not force:
        return b""
    return varint((number << 3) | 2) + varint(len(payload)) + bytes(payload)


for number in FIELD_NUMBERS:
    for serialize_empty in (False, True):
        for value in STRINGS:
            expected = expect_len_delim(number, value.encode("utf-8"), serialize_empty)
            got = _serialize_single(number, "string", value, serialize_empty=serialize_empty)
            assert type(got) is bytes and got == expected
            if value or serialize_empty:
                assert got == google_encode(genc.StringEncoder, number, value)
            assert _len_single(number, "string", value, serialize_empty=serialize_empty) == len(expected)
            checked += 1
        for value in BYTES:
            for proto_type in ("bytes", "map"):
                expected = expect_len_delim(number, value, serialize_empty)
                got = _serialize_single(number, proto_type, value, serialize_empty=serialize_empty)
                assert type(got) is bytes and got == expected, (number, proto_type, value)
                if (value or serialize_empty) and proto_type == "bytes":
                    assert got == google_encode(genc.BytesEncoder, number, bytes(value))
                assert _len_single(number, proto_type, value, serialize_empty=serialize_empty) == len(expected)
                checked += 1
        for value in MESSAGES:
            expected = expect_len_delim(number, bytes(value), serialize_empty)
            got = _serialize_single(number, "message", value, serialize_empty=serialize_empty)
            assert type(got) is bytes and got == expected
            assert _len_single(number, "message", value, serialize_empty=serialize_empty) == len(expected)
            checked += 1

    # wrapper values are always emitted, even when empty
    for wraps, value, payload in (
        ("int32", None, b""),
        ("int32", 0, b""),
        ("int32", 5, b"\x08\x05"),
        ("int64", -1, b"\x08" + varint(-1)),
        ("bool", False, b""),
        ("bool", True, b"\x08\x01"),
        ("string", "", b""),
        ("string", "hi", b"\x0a\x02hi"),
        ("bytes", b"", b""),
        ("double", 0.0, b""),
        ("double", 1.0, b"\x09" + struct.pack("<d", 1.0)),
        ("float", 2.0, b"\x0d" + struct.pack("<f", 2.0)),
        ("uint32", 7, b"\x08\x07"),
        ("uint64", 2**64 - 1, b"\x08" + varint(2**64 - 1)),
    ):
        for serialize_empty in (False, True):
            expected = expect_len_delim(number, payload, True)
            got = _serialize_single(number, "message", value, serialize_empty=serialize_empty, wraps=wraps)
            assert got == expected, (wraps, value, got, expected)
            assert _len_single(number, "message", value, serialize_empty=serialize_empty, wraps=wraps) == len(expected)
            checked += 1

    # datetime / timedelta are converted to their well-known messages
    for value, payload in (
        (datetime(1970, 1, 1, tzinfo=timezone.utc), b""),
        (datetime(1970, 1, 1, 0, 0, 5, tzinfo=timezone.utc), b"\x08\x05"),
        (timedelta(0), b""),
        (timedelta(seconds=3, microseconds=1), b"\x08\x03\x10" + varint(1000)),
    ):
        for serialize_empty in (False, True):
            expected = expect_len_delim(number, payload, serialize_empty)
            got = _serialize_single(number, "message", value, serialize_empty=serialize_empty)
            assert got == expected, (value, got, expected)
            assert _len_single(number, "message", value, serialize_empty=serialize_empty) == len(expected)
            checked += 1

# unknown proto types are rejected by both functions (after the value was looked at)
for fn in (_serialize_single, _len_single):
    for bad in ("group", "", "INT32", "Int32", "fixed", "sint", "bytes "):
        for kwargs in ({}, {"serialize_empty": True}, {"wraps": "int32"}):
            try:
                fn(1, bad, b"abc", **kwargs)
            except NotImplementedError as e:
                assert e.args == (bad,)
            else:
                raise AssertionError((fn, bad))
for bad_value, exc in ((5, TypeError), (None, TypeError)):
    try:
        _len_single(1, "group", bad_value)
    except exc:
        pass
    else:
        raise AssertionError(bad_value)


# ---- message level: framing vs google.protobuf, read-back, positions, cuts -----------------
class Color(betterproto.Enum):
    ZERO = 0
    RED = 1
    BIG = 2**31 - 1
    NEG = -1


@dataclass(eq=False, repr=False)
class Empty(betterproto.Message):
    pass


@dataclass(eq=False, repr=False)
class Everything(betterproto.Message):
    f_int32: int = betterproto.int32_field(1)
    f_int64: int = betterproto.int64_field(2)
    f_uint32: int = betterproto.uint32_field(3)
    f_uint64: int = betterproto.uint64_field(4)
    f_sint32: int = betterproto.sint32_field(5)
    f_sint64: int = betterproto.sint64_field(6)
    f_bool: bool = betterproto.bool_field(7)
    f_enum: Color = betterproto.enum_field(8)
    f_float: float = betterproto.float_field(9)
    f_double: float = betterproto.double_field(10)
    f_fixed32: int = betterproto.fixed32_field(11)
    f_sfixed32: int = betterproto.sfixed32_field(12)
    f_fixed64: int = betterproto.fixed64_field(13)
    f_sfixed64: int = betterproto.sfixed64_field(14)
    f_string: str = betterproto.string_field(15)
    f_bytes: bytes = betterproto.bytes_field(16)
    f_msg: Inner = betterproto.message_field(17)
    r_int32: List[int] = betterproto.int32_field(18)
    r_sint64: List[int] = betterproto.sint64_field(19)
    r_double: List[float] = betterproto.double_field(20)
    r_fixed32: List[int] = betterproto.fixed32_field(21)
    r_string: List[str] = betterproto.string_field(22)
    r_bytes: List[bytes] = betterproto.bytes_field(23)
    r_msg: List[Inner] = betterproto.message_field(24)
    m_si: Dict[str, int] = betterproto.map_field(25, "string", "int32")
    m_im: Dict[int, Inner] = betterproto.map_field(26, "int64", "message")
    o_a: int = betterproto.int32_field(3000, group="pick")
    o_b: str = betterproto.string_field(3001, group="pick")
    o_c: Inner = betterproto.message_field(3002, group="pick")
    opt_i: Optional[int] = betterproto.uint32_field(70000, optional=True)
    opt_s: Optional[str] = betterproto.string_field(70001, optional=True)
    w_i: Optional[int] = betterproto.message_field(70002, wraps="int64")
    w_s: Optional[str] = betterproto.message_field(70003, wraps="string")


@dataclass(eq=False, repr=False)
class EverythingOld(betterproto.Message):
    """An older reader schema of Everything."""

    f_int32: int = betterproto.int32_field(1)
    f_string: str = betterproto.string_field(15)
    r_double: List[float] = betterproto.double_field(20)


def build_google():
    F = descriptor_pb2.FieldDescriptorProto
    fd = descriptor_pb2.FileDescriptorProto(name="c10_keep1.proto", package="c10k1", syntax="proto3")
    en = fd.enum_type.add(name="Color")
    for n, v in (("ZERO", 0), ("RED", 1), ("BIG", 2**31 - 1), ("NEG", -1)):
        en.value.add(name=n, number=v)
    inner = fd.message_type.add(name="Inner")
    inner.field.add(name="a", number=1, type=F.TYPE_INT32, label=F.LABEL_OPTIONAL)
    inner.field.add(name="s", number=2, type=F.TYPE_STRING, label=F.LABEL_OPTIONAL)
    fd.message_type.add(name="Empty")
    ev = fd.message_type.add(name="Everything")
    scalars = [
        ("f_int32", 1, F.TYPE_INT32), ("f_int64", 2, F.TYPE_INT64), ("f_uint32", 3, F.TYPE_UINT32),
        ("f_uint64", 4, F.TYPE_UINT64), ("f_sint32", 5, F.TYPE_SINT32), ("f_sint64", 6, F.TYPE_SINT64),
        ("f_bool", 7, F.TYPE_BOOL), ("f_float", 9, F.TYPE_FLOAT), ("f_double", 10, F.TYPE_DOUBLE),
        ("f_fixed32", 11, F.TYPE_FIXED32), ("f_sfixed32", 12, F.TYPE_SFIXED32),
        ("f_fixed64", 13, F.TYPE_FIXED64), ("f_sfixed64", 14, F.TYPE_SFIXED64),
        ("f_string", 15, F.TYPE_STRING), ("f_bytes", 16, F.TYPE_BYTES),
    ]
    for n, num, t in scalars:
        ev.field.add(name=n, number=num, type=t, label=F.LABEL_OPTIONAL)
    ev.field.add(name="f_enum", number=8, type=F.TYPE_ENUM, type_name=".c10k1.Color", label=F.LABEL_OPTIONAL)
    ev.field.add(name="f_msg", number=17, type=F.TYPE_MESSAGE, type_name=".c10k1.Inner", label=F.LABEL_OPTIONAL)
    for n, num, t in (("r_int32", 18, F.TYPE_INT32), ("r_sint64", 19, F.TYPE_SINT64), ("r_double", 20, F.TYPE_DOUBLE),
                      ("r_fixed32", 21, F.TYPE_FIXED32), ("r_string", 22, F.TYPE_STRING), ("r_bytes", 23, F.TYPE_BYTES)):
        ev.field.add(name=n, number=num, type=t, label=F.LABEL_REPEATED)
    ev.field.add(name="r_msg", number=24, type=F.TYPE_MESSAGE, type_name=".c10k1.Inner", label=F.LABEL_REPEATED)
    e1 = ev.nested_type.add(name="MSiEntry")
    e1.options.map_entry = True
    e1.field.add(name="key", number=1, type=F.TYPE_STRING, label=F.LABEL_OPTIONAL)
    e1.field.add(name="value", number=2, type=F.TYPE_INT32, label=F.LABEL_OPTIONAL)
    e2 = ev.nested_type.add(name="MImEntry")
    e2.options.map_entry = True
    e2.field.add(name="key", number=1, type=F.TYPE_INT64, label=F.LABEL_OPTIONAL)
    e2.field.add(name="value", number=2, type=F.TYPE_MESSAGE, type_name=".c10k1.Inner", label=F.LABEL_OPTIONAL)
    ev.field.add(name="m_si", number=25, type=F.TYPE_MESSAGE, type_name=".c10k1.Everything.MSiEntry", label=F.LABEL_REPEATED)
    ev.field.add(name="m_im", number=26, type=F.TYPE_MESSAGE, type_name=".c10k1.Everything.MImEntry", label=F.LABEL_REPEATED)
    ev.oneof_decl.add(name="pick")
    ev.oneof_decl.add(name="_opt_i")
    ev.oneof_decl.add(name="_opt_s")
    ev.field.add(name="o_a", number=3000, type=F.TYPE_INT32, label=F.LABEL_OPTIONAL, oneof_index=0)
    ev.field.add(name="o_b", number=3001, type=F.TYPE_STRING, label=F.LABEL_OPTIONAL, oneof_index=0)
    ev.field.add(name="o_c", number=3002, type=F.TYPE_MESSAGE, type_name=".c10k1.Inner", label=F.LABEL_OPTIONAL, oneof_index=0)
    ev.field.add(name="opt_i", number=70000, type=F.TYPE_UINT32, label=F.LABEL_OPTIONAL, oneof_index=1, proto3_optional=True)
    ev.field.add(name="opt_s", number=70001, type=F.TYPE_STRING, label=F.LABEL_OPTIONAL, oneof_index=2, proto3_optional=True)
    w = fd.message_type.add(name="I64")
    w.field.add(name="value", number=1, type=F.TYPE_INT64, label=F.LABEL_OPTIONAL)
    w = fd.message_type.add(name="Str")
    w.field.add(name="value", number=1, type=F.TYPE_STRING, label=F.LABEL_OPTIONAL)
    ev.field.add(name="w_i", number=70002, type=F.TYPE_MESSAGE, type_name=".c10k1.I64", label=F.LABEL_OPTIONAL)
    ev.field.add(name="w_s", number=70003, type=F.TYPE_MESSAGE, type_name=".c10k1.Str", label=F.LABEL_OPTIONAL)
    pool = descriptor_pool.DescriptorPool()
    pool.Add(fd)
    get = lambda n: message_factory.GetMessageClass(pool.FindMessageTypeByName("c10k1." + n))
    return get("Everything"), get("Empty"), get("Inner")


GEverything, GEmpty, GInner = build_google()

SEQ = [
    Everything(),
    Empty(),
    Everything(f_int32=-1, f_int64=-(2**63), f_uint32=2**32 - 1, f_uint64=2**64 - 1, f_sint32=-(2**31),
               f_sint64=2**63 - 1, f_bool=True, f_enum=Color.NEG, f_float=1.5, f_double=-1e300,
               f_fixed32=2**32 - 1, f_sfixed32=-(2**31), f_fixed64=2**64 - 1, f_sfixed64=-(2**63),
               f_string="héllo", f_bytes=b"\x00\xff", f_msg=Inner(a=3, s="in")),
    Everything(r_int32=[0, -1, 300], r_sint64=[-1, 1, -(2**63)], r_double=[0.0, 2.5], r_fixed32=[0, 7],
               r_string=["", "a", ""], r_bytes=[b"", b"\x01"], r_msg=[Inner(), Inner(a=1), Inner()]),
    Empty(),
    Everything(m_si={"": 0, "k": -5, "z" * 130: 2**31 - 1}, m_im={0: Inner(), -7: Inner(s="v"), 2**40: Inner(a=9)}),
    Everything(o_a=0),
    Everything(o_b=""),
    Everything(o_b="picked", f_string="x" * 300),
    Everything(o_c=Inner()),
    Everything(o_c=Inner(a=2)),
    Everything(opt_i=0, opt_s=""),
    Everything(opt_i=2**32 - 1, opt_s="set", w_i=0, w_s=""),
    Everything(w_i=-1, w_s="wrapped", f_msg=Inner()),
    Everything(f_enum=Color.BIG, f_bytes=b"\x80" * 16384),
]


def to_google(m):
    if isinstance(m, Empty):
        return GEmpty()
    return GEverything.FromString(bytes(m))


stream = BytesIO()
ends = []
for m in SEQ:
    assert len(m) == len(bytes(m)), m
    m.dump(stream, SIZE_DELIMITED)
    ends.append(stream.tell())
data = stream.getvalue()
assert data == b"".join(varint(len(bytes(m))) + bytes(m) for m in SEQ)

# google reads the very same frames, and re-frames them identically (field order is ascending)
gstream = BytesIO(data)
gout = BytesIO()
for m, end in zip(SEQ, ends):
    gcls = GEmpty if isinstance(m, Empty) else GEverything
    g = proto.parse_length_prefixed(gcls, gstream)
    assert g is not None and gstream.tell() == end
    if not isinstance(m, Empty) and not (m.m_si or m.m_im):  # map order is not canonical on the google side
        assert g.SerializeToString(deterministic=True) == bytes(m), m
    proto.serialize_length_prefixed(g, gout)
    # betterproto reads what google wrote
gback = BytesIO(gout.getvalue())
for m in SEQ:
    got = type(m)().load(gback, SIZE_DELIMITED)
    assert got == m, (got, m)
assert gback.read() == b""

# betterproto read-back, exact consumption
stream = BytesIO(data)
for m, end in zip(SEQ, ends):
    got = type(m)().load(stream, SIZE_DELIMITED)
    assert got == m and bytes(got) == bytes(m), (got, m)
    assert stream.tell() == end
assert stream.read() == b""

# older reader
stream = BytesIO(data)
for m, end in zip(SEQ, ends):
    if isinstance(m, Empty):
        got = Empty().load(stream, SIZE_DELIMITED)
        assert bytes(got) == b""
    else:
        got = EverythingOld().load(stream, SIZE_DELIMITED)
        assert (got.f_int32, got.f_string, got.r_double) == (m.f_int32, m.f_string, m.r_double)
        assert len(got) == len(bytes(got)) == len(bytes(m))
        assert Everything().parse(bytes(got)) == m
    assert stream.tell() == end

# cuts (the big frame at the end is sampled, the rest is exhaustive)
small = ends[-2]
cuts = list(range(small + 1)) + list(range(small + 1, len(data), 997)) + [len(data) - 1, len(data)]
for cut in cuts:
    stream = BytesIO(data[:cut])
    for i, m in enumerate(SEQ):
        try:
            got = type(m)().load(stream, SIZE_DELIMITED)
        except (EOFError, ValueError):
            assert ends[i] > cut
            break
        assert ends[i] <= cut, (cut, i)
        assert got == m and bytes(got) == bytes(m)
        assert stream.tell() == ends[i]

print(f"keep1 equiv: OK ({checked} single-field cases, {len(SEQ)} framed messages, {len(cuts)} cuts)")
