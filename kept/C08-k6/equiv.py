"""C08 / keep2: the per-class lookup tables (ProtoClassMetadata) that decide
which wire fields are known / unknown and in which order known fields are
written, exercised on many generated schemas.

Part 1 checks the tables themselves against an independent computation:
field_name_by_number, meta_by_field_name (incl. key order = declaration
order = encoding order), sorted_field_names, oneof_group_by_field,
oneof_field_by_group (incl. group order), for schemas declared in shuffled
order, with several oneof groups, optional fields, maps, and (invalid, but
tolerated) duplicate field numbers.

Part 2 checks the behaviour built on them: for random values of a newer schema
and older schemas obtained by deleting random subsets of fields (declared in
random order), fields on the wire in random order, the older side decodes the
known fields, keeps the unknown ones byte for byte, and the newer schema and
google.protobuf read the re-emitted bytes as the original value.  A digest over
all bytes produced must be a fixed constant.
"""
import dataclasses
import hashlib
import random
import struct
from dataclasses import dataclass
from io import BytesIO
from typing import Dict, List, Optional

import betterproto as bp
from betterproto import encode_varint
from google.protobuf import descriptor_pb2, descriptor_pool, message_factory

rng = random.Random(0x0C08_0002)
digest = hashlib.sha256()

# ------------------------------------------------------------------ part 1
FACTORIES = [
    (int, bp.int32_field),
    (int, bp.uint64_field),
    (int, bp.sint32_field),
    (int, bp.fixed32_field),
    (int, bp.sfixed64_field),
    (float, bp.double_field),
    (float, bp.float_field),
    (bool, bp.bool_field),
    (str, bp.string_field),
    (bytes, bp.bytes_field),
]


@dataclass(eq=False, repr=False)
class Leaf(bp.Message):
    v: int = bp.int32_field(1)


def random_schema(idx, allow_duplicates=False):
    """Returns (class, spec) with spec = [(name, number, group, optional)] in
    declaration order."""
    n = rng.randrange(0, 12)
    pool = list(range(1, 40)) + [127, 128, 2047, 2048, 2**29 - 1]
    numbers = rng.sample(pool, n)
    if allow_duplicates and n >= 2:
        for _ in range(rng.randrange(1, 3)):
            i, j = rng.sample(range(n), 2)
            numbers[i] = numbers[j]
    groups = [None, None, None, "g1", "g2", "zeta", "alpha"]
    ns = {"__annotations__": {}}
    spec = []
    for k, number in enumerate(numbers):
        name = rng.choice(["f", "field_name", "x_1", "value", "camelCase", "a"]) + f"_{k}"
        group = rng.choice(groups)
        optional = group is None and rng.random() < 0.2
        kind = rng.randrange(14)
        kw = {}
        if group:
            kw["group"] = group
        if optional:
            kw["optional"] = True
        if kind < len(FACTORIES):
            ann, factory = FACTORIES[kind]
            repeated = not group and not optional and rng.random() < 0.3
            if repeated:
                ann = List[ann]
            elif optional:
                ann = Optional[ann]
            field = factory(number, **kw)
        elif kind in (10, 11):
            ann = Optional[Leaf] if optional else Leaf
            field = bp.message_field(number, **kw)
        elif kind == 12 and not group and not optional:
            ann = Dict[str, int]
            field = bp.map_field(number, bp.TYPE_STRING, bp.TYPE_INT32)
        else:
            ann = List[Leaf] if not group and not optional else (Optional[Leaf] if optional else Leaf)
            field = bp.message_field(number, **kw)
        ns["__annotations__"][name] = ann
        ns[name] = field
        spec.append((name, number, group, optional))
    cls = dataclass(eq=False, repr=False)(type(f"Schema{idx}", (bp.Message,), ns))
    return cls, spec


def check_tables(cls, spec):
    meta = cls._betterproto
    assert meta is cls._betterproto  # cached
    names = [name for name, _, _, _ in spec]
    # meta_by_field_name: every field, declaration order
    assert list(meta.meta_by_field_name) == names
    for name, number, group, optional in spec:
        m = meta.meta_by_field_name[name]
        assert isinstance(m, bp.FieldMetadata)
        assert (m.number, m.group, bool(m.optional)) == (number, group, optional)
    # field_name_by_number: last declaration wins, keys in first-seen order
    expect = {}
    for name, number, _, _ in spec:
        expect[number] = name
    assert meta.field_name_by_number == expect
    assert list(meta.field_name_by_number) == list(expect)
    assert list(meta.field_name_by_number.values()) == list(expect.values())
    # sorted_field_names: by number
    assert meta.sorted_field_names == tuple(expect[k] for k in sorted(expect))
    assert isinstance(meta.sorted_field_names, tuple)
    # oneof tables
    by_field = {name: group for name, _, group, _ in spec if group}
    assert meta.oneof_group_by_field == by_field
    assert list(meta.oneof_group_by_field) == list(by_field)
    by_group = {}
    for name, _, group, _ in spec:
        if group:
            by_group.setdefault(group, []).append(name)
    assert list(meta.oneof_field_by_group) == list(by_group)
    for group, members in by_group.items():
        got = meta.oneof_field_by_group[group]
        assert isinstance(got, set)
        assert all(isinstance(f, dataclasses.Field) for f in got)
        assert sorted(f.name for f in got) == sorted(members)
        assert len(got) == len(members)
    # the remaining tables cover every field too
    assert list(meta.default_gen) == names
    assert set(names) <= set(meta.cls_by_field)
    assert set(names) <= set(meta.field_name_by_key)
    digest.update(repr((list(meta.field_name_by_number.items()), meta.sorted_field_names,
                        list(by_field.items()), list(meta.oneof_field_by_group))).encode())
    # an instance sees the same tables, starts with no unknown fields and no
    # selected oneof member
    inst = cls()
    assert inst._betterproto is meta
    assert inst._unknown_fields == b""
    assert inst._group_current == {g: None for g in by_group}
    assert bytes(inst) == b"" and len(inst) == 0
    # any wire field whose number is not in the schema is kept verbatim
    for number in (1, 5, 39, 40, 127, 128, 2047, 2048, 2**29 - 1, 2**29 - 2):
        if number in expect:
            continue
        for raw in (
            encode_varint(number << 3) + b"\x96\x01",
            encode_varint(number << 3 | 1) + bytes(8),
            encode_varint(number << 3 | 5) + b"abcd",
            encode_varint(number << 3 | 2) + b"\x03xyz",
        ):
            m = cls().parse(raw)
            assert m._unknown_fields == raw and bytes(m) == raw and len(m) == len(raw)
            assert not m  # no known field was touched


for i in range(250):
    check_tables(*random_schema(i))
for i in range(250, 350):
    check_tables(*random_schema(i, allow_duplicates=True))

# ------------------------------------------------------------------ part 2
F = descriptor_pb2.FieldDescriptorProto

SUB_FIELDS = [
    (1, "x", lambda S: int, lambda: bp.int32_field(1)),
    (2, "s", lambda S: str, lambda: bp.string_field(2)),
]
TOP_FIELDS = [
    (1, "a", lambda S: int, lambda: bp.int32_field(1)),
    (2, "b", lambda S: str, lambda: bp.string_field(2)),
    (3, "sub", lambda S: S, lambda: bp.message_field(3)),
    (4, "subs", lambda S: List[S], lambda: bp.message_field(4)),
    (5, "packed", lambda S: List[int], lambda: bp.sint64_field(5)),
    (6, "m", lambda S: Dict[int, S], lambda: bp.map_field(6, bp.TYPE_INT32, bp.TYPE_MESSAGE)),
    (7, "oi", lambda S: int, lambda: bp.int32_field(7, group="choice")),
    (8, "os", lambda S: str, lambda: bp.string_field(8, group="choice")),
    (9, "osub", lambda S: S, lambda: bp.message_field(9, group="choice")),
    (10, "p", lambda S: float, lambda: bp.float_field(10, group="other")),
    (11, "q", lambda S: bool, lambda: bp.bool_field(11, group="other")),
    (12, "opt", lambda S: Optional[int], lambda: bp.uint64_field(12, optional=True)),
    (16, "d", lambda S: float, lambda: bp.double_field(16)),
    (17, "f32", lambda S: int, lambda: bp.fixed32_field(17)),
    (2048, "far", lambda S: bytes, lambda: bp.bytes_field(2048)),
    (2**29 - 1, "last", lambda S: str, lambda: bp.string_field(2**29 - 1)),
]
TOP_ALL = [f[0] for f in TOP_FIELDS]


def make_class(name, fields, keep, sub_cls=None, shuffle=False):
    chosen = [f for f in fields if f[0] in keep]
    if shuffle:
        rng.shuffle(chosen)
    ns = {"__annotations__": {}}
    for number, fname, ann, factory in chosen:
        ns["__annotations__"][fname] = ann(sub_cls)
        ns[fname] = factory()
    return dataclass(eq=False, repr=False)(type(name, (bp.Message,), ns))


Sub = make_class("Sub", SUB_FIELDS, {1, 2})
SubX = make_class("SubX", SUB_FIELDS, {1})
Newer = make_class("Newer", TOP_FIELDS, set(TOP_ALL), Sub)
# the same schema declared (hence written) in another order
NewerShuffled = make_class("NewerShuffled", TOP_FIELDS, set(TOP_ALL), Sub, shuffle=True)


def build_reference():
    fd = descriptor_pb2.FileDescriptorProto(name="c08_keep2.proto", package="c08k2", syntax="proto3")
    sub = fd.message_type.add(name="Sub")
    sub.field.add(name="x", number=1, type=F.TYPE_INT32, label=F.LABEL_OPTIONAL)
    sub.field.add(name="s", number=2, type=F.TYPE_STRING, label=F.LABEL_OPTIONAL)
    top = fd.message_type.add(name="Newer")
    S = ".c08k2.Sub"

    def add(name, number, type_, label=F.LABEL_OPTIONAL, **kw):
        return top.field.add(name=name, number=number, type=type_, label=label, **kw)

    add("a", 1, F.TYPE_INT32)
    add("b", 2, F.TYPE_STRING)
    add("sub", 3, F.TYPE_MESSAGE, type_name=S)
    add("subs", 4, F.TYPE_MESSAGE, F.LABEL_REPEATED, type_name=S)
    add("packed", 5, F.TYPE_SINT64, F.LABEL_REPEATED)
    e = top.nested_type.add(name="MEntry")
    e.options.map_entry = True
    e.field.add(name="key", number=1, type=F.TYPE_INT32, label=F.LABEL_OPTIONAL)
    e.field.add(name="value", number=2, type=F.TYPE_MESSAGE, label=F.LABEL_OPTIONAL, type_name=S)
    add("m", 6, F.TYPE_MESSAGE, F.LABEL_REPEATED, type_name=".c08k2.Newer.MEntry")
    top.oneof_decl.add(name="choice")
    top.oneof_decl.add(name="other")
    top.oneof_decl.add(name="_opt")
    add("oi", 7, F.TYPE_INT32, oneof_index=0)
    add("os", 8, F.TYPE_STRING, oneof_index=0)
    add("osub", 9, F.TYPE_MESSAGE, type_name=S, oneof_index=0)
    add("p", 10, F.TYPE_FLOAT, oneof_index=1)
    add("q", 11, F.TYPE_BOOL, oneof_index=1)
    add("opt", 12, F.TYPE_UINT64, oneof_index=2, proto3_optional=True)
    add("d", 16, F.TYPE_DOUBLE)
    add("f32", 17, F.TYPE_FIXED32)
    add("far", 2048, F.TYPE_BYTES)
    add("last", 2**29 - 1, F.TYPE_STRING)
    pool = descriptor_pool.DescriptorPool()
    pool.Add(fd)
    return message_factory.GetMessageClass(pool.FindMessageTypeByName("c08k2.Newer"))


RefNewer = build_reference()


def ref_parse(data):
    m = RefNewer()
    m.ParseFromString(data)
    return m


I32 = [0, 1, -1, 127, 128, 2**31 - 1, -(2**31)]
I64 = [0, 1, -1, 2**63 - 1, -(2**63)]
STR = ["", "x", "héllo", "b" * 130]


def rand_sub():
    s = Sub()
    if rng.random() < 0.6:
        s.x = rng.choice(I32)
    if rng.random() < 0.6:
        s.s = rng.choice(STR)
    return s


def rand_value(cls):
    n = cls()
    p = rng.choice([0.2, 0.6, 0.95])
    hit = lambda: rng.random() < p
    if hit(): n.a = rng.choice(I32)
    if hit(): n.b = rng.choice(STR)
    if hit(): n.sub = rand_sub()
    if hit(): n.subs = [rand_sub() for _ in range(rng.randrange(4))]
    if hit(): n.packed = [rng.choice(I64) for _ in range(rng.randrange(5))]
    if hit(): n.m = {rng.choice(I32): rand_sub() for _ in range(rng.randrange(3))}
    which = rng.randrange(5)
    if which == 1: n.oi = rng.choice(I32)
    elif which == 2: n.os = rng.choice(STR)
    elif which == 3: n.osub = rand_sub()
    which = rng.randrange(4)
    if which == 1: n.p = rng.choice([0.0, 0.5, -3.0])
    elif which == 2: n.q = rng.choice([False, True])
    if hit(): n.opt = rng.choice([0, 1, 2**64 - 1])
    if hit(): n.d = rng.choice([0.0, 1.5, -1e300])
    if hit(): n.f32 = rng.choice([0, 1, 2**32 - 1])
    if hit(): n.far = rng.choice([b"", b"\x00", b"\xff" * 200])
    if hit(): n.last = rng.choice(STR)
    return n


def split_fields(data):
    """Top-level wire fields of `data` as raw chunks (via the library reader,
    whose output is checked to re-join to the input)."""
    chunks = [f.raw for f in bp.parse_fields(data)]
    assert b"".join(chunks) == data
    return chunks


def field_number(chunk):
    (parsed,) = bp.parse_fields(chunk)
    return parsed.number


def shuffle_wire(chunks):
    """The same wire fields in a random order; occurrences of one field number
    (repeated / map fields) keep their relative order."""
    numbers = [field_number(c) for c in chunks]
    queues = {}
    for number, chunk in zip(numbers, chunks):
        queues.setdefault(number, []).append(chunk)
    order = numbers[:]
    rng.shuffle(order)
    return b"".join(queues[number].pop(0) for number in order)


OLDER = []
keeps = [set(), set(TOP_ALL), {1}, {2**29 - 1}, {2048, 3}, {7, 10}, {8, 9, 11, 12}]
for _ in range(13):
    keeps.append(set(rng.sample(TOP_ALL, rng.randrange(1, len(TOP_ALL)))))
for i, keep in enumerate(keeps):
    OLDER.append((make_class(f"Older{i}", TOP_FIELDS, keep, [Sub, SubX][i % 2], shuffle=True), keep))


def check_encoding(msg):
    data = bytes(msg)
    assert len(msg) == len(data)
    buf = BytesIO()
    msg.dump(buf, delimit=bp.SIZE_DELIMITED)
    assert buf.getvalue() == encode_varint(len(data)) + data
    digest.update(len(data).to_bytes(4, "little") + data)
    return data


def as_newer(msg):
    return Newer().parse(bytes(msg))


for round_ in range(120):
    value = rand_value(Newer if round_ % 2 else NewerShuffled)
    wire = check_encoding(value)
    ref = ref_parse(wire)
    newer = Newer().parse(wire)
    assert Newer().parse(ref.SerializeToString()) == newer
    assert (ref.WhichOneof("choice") or "") == bp.which_one_of(newer, "choice")[0]
    assert (ref.WhichOneof("other") or "") == bp.which_one_of(newer, "other")[0]
    assert ref.HasField("opt") == (newer.opt is not None)
    chunks = split_fields(wire)
    wires = [wire, shuffle_wire(chunks), shuffle_wire(chunks)]
    for w in wires:
        assert Newer().parse(w) == newer
        assert ref_parse(w) == ref
        for older_cls, keep in OLDER:
            older = older_cls().parse(w)
            # known scalar fields are decoded whatever surrounds them
            for number, fname, _, _ in TOP_FIELDS:
                if number in keep and fname in ("a", "b", "packed", "d", "f32", "far", "last", "opt"):
                    assert getattr(older, fname) == getattr(newer, fname), (fname, older_cls.__name__)
            for group in ("choice", "other"):
                sel = bp.which_one_of(newer, group)[0]
                if group in older._group_current:
                    known = {f.name for f in older._betterproto.oneof_field_by_group[group]}
                    assert bp.which_one_of(older, group)[0] == (sel if sel in known else "")
            # unknown ones are kept in arrival order, byte for byte
            known_numbers = set(older._betterproto.field_name_by_number)
            assert known_numbers == keep
            expect_unknown = b"".join(
                c for c in split_fields(w) if field_number(c) not in keep
            )
            assert older._unknown_fields == expect_unknown
            out = check_encoding(older)
            assert out.endswith(expect_unknown)
            assert Newer().parse(out) == newer, (older_cls.__name__, sorted(keep))
            assert ref_parse(out) == ref, (older_cls.__name__, sorted(keep))

EXPECTED = "27e026da31529ca52d506b25c4a81004d33b033cbf8364793dd4352b6a6a023f"
print("digest:", digest.hexdigest())
assert digest.hexdigest() == EXPECTED, digest.hexdigest()
print("C08 keep2 equiv: OK")
