"""Exercises Message.load (the decoder that parse / FromString / pickle go through):
packed and unpacked repeated scalars of every type, several chunks per field,
maps, repeated and singular messages, truncated packed data, wire type
mismatches - compared against google.protobuf and against hand-built wire data.
Must pass on the pristine tree and with the refactor of load() applied.
"""
import copy
import math
import pickle
import random
import struct
from dataclasses import dataclass
from typing import Dict, List

import betterproto
from betterproto import encode_varint
from google.protobuf import descriptor_pb2, descriptor_pool, message_factory

rnd = random.Random(20261005)

# --------------------------------------------------------------------------- schema
SCALARS = [
    # name, number, google type, betterproto field factory, wire kind
    ("f_int32", 1, "TYPE_INT32", betterproto.int32_field, "varint"),
    ("f_int64", 2, "TYPE_INT64", betterproto.int64_field, "varint"),
    ("f_uint32", 3, "TYPE_UINT32", betterproto.uint32_field, "varint"),
    ("f_uint64", 4, "TYPE_UINT64", betterproto.uint64_field, "varint"),
    ("f_sint32", 5, "TYPE_SINT32", betterproto.sint32_field, "zigzag"),
    ("f_sint64", 6, "TYPE_SINT64", betterproto.sint64_field, "zigzag"),
    ("f_bool", 7, "TYPE_BOOL", betterproto.bool_field, "varint"),
    ("f_fixed32", 8, "TYPE_FIXED32", betterproto.fixed32_field, "<I"),
    ("f_sfixed32", 9, "TYPE_SFIXED32", betterproto.sfixed32_field, "<i"),
    ("f_float", 10, "TYPE_FLOAT", betterproto.float_field, "<f"),
    ("f_fixed64", 11, "TYPE_FIXED64", betterproto.fixed64_field, "<Q"),
    ("f_sfixed64", 12, "TYPE_SFIXED64", betterproto.sfixed64_field, "<q"),
    ("f_double", 13, "TYPE_DOUBLE", betterproto.double_field, "<d"),
    ("f_enum", 14, "TYPE_ENUM", betterproto.enum_field, "varint"),
]


class Color(betterproto.Enum):
    ZERO = 0
    RED = 1
    BLUE = 2
    NEG = -3


@dataclass(eq=False, repr=False)
class Sub(betterproto.Message):
    x: int = betterproto.int32_field(1)
    tags: List[int] = betterproto.uint32_field(2)


@dataclass(eq=False, repr=False)
class Rep(betterproto.Message):
    f_int32: List[int] = betterproto.int32_field(1)
    f_int64: List[int] = betterproto.int64_field(2)
    f_uint32: List[int] = betterproto.uint32_field(3)
    f_uint64: List[int] = betterproto.uint64_field(4)
    f_sint32: List[int] = betterproto.sint32_field(5)
    f_sint64: List[int] = betterproto.sint64_field(6)
    f_bool: List[bool] = betterproto.bool_field(7)
    f_fixed32: List[int] = betterproto.fixed32_field(8)
    f_sfixed32: List[int] = betterproto.sfixed32_field(9)
    f_float: List[float] = betterproto.float_field(10)
    f_fixed64: List[int] = betterproto.fixed64_field(11)
    f_sfixed64: List[int] = betterproto.sfixed64_field(12)
    f_double: List[float] = betterproto.double_field(13)
    f_enum: List[Color] = betterproto.enum_field(14)
    f_string: List[str] = betterproto.string_field(15)
    f_bytes: List[bytes] = betterproto.bytes_field(16)
    subs: List[Sub] = betterproto.message_field(17)
    one: Sub = betterproto.message_field(18)
    counts: Dict[str, int] = betterproto.map_field(
        19, betterproto.TYPE_STRING, betterproto.TYPE_INT32
    )
    by_id: Dict[int, Sub] = betterproto.map_field(
        20, betterproto.TYPE_INT32, betterproto.TYPE_MESSAGE
    )


@dataclass(eq=False, repr=False)
class Single(betterproto.Message):
    f_int32: int = betterproto.int32_field(1)
    f_int64: int = betterproto.int64_field(2)
    f_uint32: int = betterproto.uint32_field(3)
    f_uint64: int = betterproto.uint64_field(4)
    f_sint32: int = betterproto.sint32_field(5)
    f_sint64: int = betterproto.sint64_field(6)
    f_bool: bool = betterproto.bool_field(7)
    f_fixed32: int = betterproto.fixed32_field(8)
    f_sfixed32: int = betterproto.sfixed32_field(9)
    f_float: float = betterproto.float_field(10)
    f_fixed64: int = betterproto.fixed64_field(11)
    f_sfixed64: int = betterproto.sfixed64_field(12)
    f_double: float = betterproto.double_field(13)
    f_enum: Color = betterproto.enum_field(14)
    f_string: str = betterproto.string_field(15)
    one: Sub = betterproto.message_field(18)


def build_google():
    F = descriptor_pb2.FieldDescriptorProto
    fdp = descriptor_pb2.FileDescriptorProto(
        name="c14_keep1.proto", package="c14k1", syntax="proto3"
    )
    enum = fdp.enum_type.add(name="Color")
    for n, v in (("ZERO", 0), ("RED", 1), ("BLUE", 2), ("NEG", -3)):
        enum.value.add(name=n, number=v)
    sub = fdp.message_type.add(name="Sub")
    sub.field.add(name="x", number=1, type=F.TYPE_INT32, label=F.LABEL_OPTIONAL)
    sub.field.add(name="tags", number=2, type=F.TYPE_UINT32, label=F.LABEL_REPEATED)
    rep = fdp.message_type.add(name="Rep")
    for name, number, gtype, _, _ in SCALARS:
        f = rep.field.add(
            name=name, number=number, type=getattr(F, gtype), label=F.LABEL_REPEATED
        )
        if gtype == "TYPE_ENUM":
            f.type_name = ".c14k1.Color"
    rep.field.add(name="f_string", number=15, type=F.TYPE_STRING, label=F.LABEL_REPEATED)
    rep.field.add(name="f_bytes", number=16, type=F.TYPE_BYTES, label=F.LABEL_REPEATED)
    rep.field.add(
        name="subs", number=17, type=F.TYPE_MESSAGE, label=F.LABEL_REPEATED,
        type_name=".c14k1.Sub",
    )
    rep.field.add(
        name="one", number=18, type=F.TYPE_MESSAGE, label=F.LABEL_OPTIONAL,
        type_name=".c14k1.Sub",
    )
    e1 = rep.nested_type.add(name="CountsEntry")
    e1.options.map_entry = True
    e1.field.add(name="key", number=1, type=F.TYPE_STRING, label=F.LABEL_OPTIONAL)
    e1.field.add(name="value", number=2, type=F.TYPE_INT32, label=F.LABEL_OPTIONAL)
    rep.field.add(
        name="counts", number=19, type=F.TYPE_MESSAGE, label=F.LABEL_REPEATED,
        type_name=".c14k1.Rep.CountsEntry",
    )
    e2 = rep.nested_type.add(name="ByIdEntry")
    e2.options.map_entry = True
    e2.field.add(name="key", number=1, type=F.TYPE_INT32, label=F.LABEL_OPTIONAL)
    e2.field.add(
        name="value", number=2, type=F.TYPE_MESSAGE, label=F.LABEL_OPTIONAL,
        type_name=".c14k1.Sub",
    )
    rep.field.add(
        name="by_id", number=20, type=F.TYPE_MESSAGE, label=F.LABEL_REPEATED,
        type_name=".c14k1.Rep.ByIdEntry",
    )
    pool = descriptor_pool.DescriptorPool()
    pool.Add(fdp)
    return message_factory.GetMessageClass(pool.FindMessageTypeByName("c14k1.Rep"))


GRep = build_google()

# ------------------------------------------------------------------- value generators
BOUNDS = {
    "f_int32": [0, 1, -1, 127, 128, 2**31 - 1, -(2**31)],
    "f_int64": [0, 1, -1, 2**31, 2**63 - 1, -(2**63)],
    "f_uint32": [0, 1, 127, 128, 16383, 16384, 2**32 - 1],
    "f_uint64": [0, 1, 2**32, 2**63, 2**64 - 1],
    "f_sint32": [0, 1, -1, 63, -64, 64, 2**31 - 1, -(2**31)],
    "f_sint64": [0, 1, -1, 2**63 - 1, -(2**63)],
    "f_bool": [True, False],
    "f_fixed32": [0, 1, 2**32 - 1],
    "f_sfixed32": [0, -1, 2**31 - 1, -(2**31)],
    "f_float": [0.0, -0.0, 1.5, -2.25, float("inf"), float("-inf"), 3.4028234663852886e38],
    "f_fixed64": [0, 1, 2**64 - 1],
    "f_sfixed64": [0, -1, 2**63 - 1, -(2**63)],
    "f_double": [0.0, -0.0, 1e-300, 1.7976931348623157e308, float("inf"), float("-inf")],
    "f_enum": [0, 1, 2, -3],
}


def rand_values(name, n):
    pool = BOUNDS[name]
    out = []
    for _ in range(n):
        if rnd.random() < 0.5:
            out.append(rnd.choice(pool))
        elif name == "f_float":
            out.append(struct.unpack("<f", struct.pack("<f", rnd.uniform(-1e6, 1e6)))[0])
        elif name == "f_double":
            out.append(rnd.uniform(-1e12, 1e12))
        elif name == "f_bool":
            out.append(rnd.random() < 0.5)
        elif name == "f_enum":
            out.append(rnd.choice([0, 1, 2, -3]))
        else:
            lo, hi = min(pool), max(pool)
            out.append(rnd.randint(lo, hi))
    return out


def same(a, b):
    """list equality where floats compare bitwise (distinguishes -0.0, tolerates nan)"""
    if len(a) != len(b):
        return False
    for x, y in zip(a, b):
        if isinstance(x, float) or isinstance(y, float):
            if struct.pack("<d", x) != struct.pack("<d", y):
                return False
        elif int(x) != int(y) or isinstance(x, bool) != isinstance(y, bool):
            return False
    return True


def enc_elem(kind, v):
    if kind == "varint":
        return encode_varint(int(v))
    if kind == "zigzag":
        return encode_varint((v << 1) ^ (v >> 63))
    return struct.pack(kind, v)


def wire_type_of(kind):
    if kind in ("varint", "zigzag"):
        return 0
    return 5 if struct.calcsize(kind) == 4 else 1


def tag(number, wt):
    return encode_varint((number << 3) | wt)


def packed_chunk(number, kind, values):
    body = b"".join(enc_elem(kind, v) for v in values)
    return tag(number, 2) + encode_varint(len(body)) + body


def unpacked(number, kind, values):
    return b"".join(tag(number, wire_type_of(kind)) + enc_elem(kind, v) for v in values)


def check_roundtrips(msg):
    data = bytes(msg)
    assert len(msg) == len(data)
    for clone in (
        copy.copy(msg),
        copy.deepcopy(msg),
        pickle.loads(pickle.dumps(msg)),
        type(msg)().parse(data),
        type(msg).FromString(data),
    ):
        assert bytes(clone) == data
        assert clone == msg and msg == clone
    assert bytes(msg) == data


# ---------------------------------------------------- 1. google-encoded (packed) data
for trial in range(150):
    g = GRep()
    expect = {}
    for name, number, _, _, kind in SCALARS:
        if rnd.random() < 0.7:
            vals = rand_values(name, rnd.choice([1, 1, 2, 3, 10, 40]))
            getattr(g, name).extend(vals)
            expect[name] = vals
    if rnd.random() < 0.5:
        g.f_string.extend(["", "a", "é中", "x" * 200][: rnd.randint(1, 4)])
        g.f_bytes.extend([b"", b"\x00\xff", b"z" * 130][: rnd.randint(1, 3)])
    for _ in range(rnd.randint(0, 3)):
        s = g.subs.add()
        s.x = rnd.randint(-5, 5)
        s.tags.extend(rand_values("f_uint32", rnd.randint(0, 4)))
    if rnd.random() < 0.5:
        g.one.x = rnd.randint(-100, 100)
        g.one.tags.extend([1, 2, 300])
    elif rnd.random() < 0.5:
        g.one.SetInParent()
    if rnd.random() < 0.5:
        g.counts["only"] = rnd.randint(-3, 3)
    if rnd.random() < 0.5:
        g.by_id[rnd.randint(-2, 2)].x = rnd.randint(1, 9)
    data = g.SerializeToString(deterministic=True)

    m = Rep().parse(data)
    for name, _, _, _, _ in SCALARS:
        got = getattr(m, name)
        want = list(getattr(g, name))
        assert same(got, want), (name, got, want)
        if name == "f_enum":
            assert all(isinstance(v, Color) for v in got)
        if name == "f_bool":
            assert all(type(v) is bool for v in got)
    assert m.f_string == list(g.f_string) and m.f_bytes == list(g.f_bytes)
    assert [(s.x, s.tags) for s in m.subs] == [(s.x, list(s.tags)) for s in g.subs]
    assert all(betterproto.serialized_on_wire(s) for s in m.subs)
    assert m.is_set("one") == g.HasField("one")
    assert (m.one.x, m.one.tags) == (g.one.x, list(g.one.tags))
    assert m.counts == dict(g.counts)
    assert {k: (v.x, v.tags) for k, v in m.by_id.items()} == {
        k: (v.x, list(v.tags)) for k, v in g.by_id.items()
    }
    # what betterproto writes back is what google wrote, and google reads it back
    assert bytes(m) == data, (bytes(m), data)
    assert GRep.FromString(bytes(m)) == g
    check_roundtrips(m)

# ------------------------------- 2. packed / unpacked / several chunks, hand-built wire
for name, number, _, _, kind in SCALARS:
    for trial in range(40):
        chunks = []
        wire = b""
        for _ in range(rnd.randint(1, 5)):
            vals = rand_values(name, rnd.choice([0, 1, 2, 7]))
            style = rnd.choice(["packed", "unpacked"])
            if style == "packed":
                wire += packed_chunk(number, kind, vals)
            else:
                wire += unpacked(number, kind, vals)
            chunks.extend(vals)
            if rnd.random() < 0.3:
                # something else in between: another field, an unknown field
                wire += tag(15, 2) + b"\x01s" if rnd.random() < 0.5 else tag(99, 0) + b"\x05"
        m = Rep().parse(wire)
        got = getattr(m, name)
        assert same(got, chunks), (name, got, chunks, wire)
        g = GRep.FromString(wire)
        assert same(got, list(getattr(g, name))), (name, got, list(getattr(g, name)))
        # canonical re-encoding: one packed chunk (nothing at all when empty)
        again = Rep().parse(bytes(m))
        assert same(getattr(again, name), chunks)
        assert bytes(again) == bytes(m)
        check_roundtrips(m)

# an empty packed chunk alone gives an empty list and an empty re-encoding
for name, number, _, _, kind in SCALARS:
    m = Rep().parse(packed_chunk(number, kind, []))
    assert getattr(m, name) == [] and bytes(m) == b""
    assert betterproto.serialized_on_wire(m)

# bool / enum specifics inside packed data
m = Rep().parse(tag(7, 2) + b"\x05\x00\x01\x02\xac\x02")
assert m.f_bool == [False, True, True, True] and all(type(v) is bool for v in m.f_bool)
m = Rep().parse(packed_chunk(14, "varint", [2, 7, -3, 0]))
assert [int(v) for v in m.f_enum] == [2, 7, -3, 0]
assert m.f_enum[0] is Color.BLUE and m.f_enum[2] is Color.NEG
assert isinstance(m.f_enum[1], Color) and m.f_enum[1].name is None
# 32-bit truncation of over-long varints for int32 inside packed data
m = Rep().parse(packed_chunk(1, "varint", [2**32 + 5, 2**31, -1]))
assert m.f_int32 == [5, -(2**31), -1]
# nan in packed floats / doubles
m = Rep().parse(tag(10, 2) + b"\x04" + struct.pack("<f", float("nan")))
assert len(m.f_float) == 1 and math.isnan(m.f_float[0])
m = Rep().parse(tag(13, 2) + b"\x08" + struct.pack("<d", float("nan")))
assert len(m.f_double) == 1 and math.isnan(m.f_double[0])


# ------------------------------------------------------ 3. truncated packed data fails
def raises(exc, data, cls=Rep):
    try:
        cls().parse(data)
    except exc:
        return True
    except Exception as e:  # pragma: no cover
        raise AssertionError(f"expected {exc}, got {type(e)}: {e}")
    raise AssertionError(f"expected {exc} for {data!r}")


for name, number, _, _, kind in SCALARS:
    if kind in ("varint", "zigzag"):
        # last varint of the chunk has its continuation bit set
        raises(EOFError, tag(number, 2) + b"\x02\x01\x80")
        raises(EOFError, tag(number, 2) + b"\x01\xff")
        # eleven continuation bytes
        raises(ValueError, tag(number, 2) + b"\x0b" + b"\x80" * 10 + b"\x01")
    else:
        width = struct.calcsize(kind)
        for extra in range(1, width):
            body = struct.pack(kind, 1) + b"\x01" * extra
            raises(struct.error, tag(number, 2) + encode_varint(len(body)) + body)
            raises(struct.error, tag(number, 2) + encode_varint(extra) + b"\x01" * extra)

# ----------------------------------------- 4. singular fields: last one wins, mismatches
for name, number, _, _, kind in SCALARS:
    vals = rand_values(name, 3)
    wire = unpacked(number, kind, vals)
    m = Single().parse(wire)
    assert same([getattr(m, name)], [vals[-1]]), (name, getattr(m, name), vals)
    # a length-delimited occurrence of a singular scalar is not a packed run:
    # it is kept as an unknown field
    chunk = packed_chunk(number, kind, vals)
    m = Single().parse(chunk)
    assert bytes(m) == chunk and m == Single()
    check_roundtrips(m)
    # wrong wire type for a repeated field is kept as unknown data, too
    wrong = tag(number, 5 if wire_type_of(kind) != 5 else 1) + b"\x01" * (
        4 if wire_type_of(kind) != 5 else 8
    )
    m = Rep().parse(wrong + packed_chunk(number, kind, vals))
    assert same(getattr(m, name), vals)
    assert bytes(m) == packed_chunk(number, kind, vals) + wrong
    check_roundtrips(m)

m = Single().parse(b"\x92\x01\x02\x08\x01" + b"\x92\x01\x02\x10\x07")
assert (m.one.x, m.one.tags) == (0, [7])  # a later occurrence replaces the earlier
m = Single().parse(b"\x92\x01\x00")
assert m.is_set("one") and bytes(m) == b"\x92\x01\x00"
check_roundtrips(m)

# ------------------------------------------------------------- 5. maps, entry by entry
wire = b""
want = {}
for i in range(30):
    k = f"k{rnd.randint(0, 12)}"
    v = rnd.choice(BOUNDS["f_int32"])
    entry = b"\x0a" + encode_varint(len(k)) + k.encode() + b"\x10" + encode_varint(v)
    wire += tag(19, 2) + encode_varint(len(entry)) + entry
    want[k] = v
wire += tag(19, 2) + b"\x00"  # an entry with default key and value
want[""] = 0
m = Rep().parse(wire)
assert m.counts == want and list(m.counts) == list(want)
assert dict(GRep.FromString(wire).counts) == want
check_roundtrips(m)
m2 = pickle.loads(pickle.dumps(m))
m2.counts["new"] = 1
m2.f_int32.append(1)
assert "new" not in m.counts and m.f_int32 == []

wire = tag(20, 2) + b"\x06\x08\x03\x12\x02\x08\x09" + tag(20, 2) + b"\x02\x08\x04"
m = Rep().parse(wire)
assert {k: (v.x, v.tags) for k, v in m.by_id.items()} == {3: (9, []), 4: (0, [])}
check_roundtrips(m)

# ------------------------------------------------- 6. size-delimited load of a stream
import io  # noqa: E402

msgs = []
buf = io.BytesIO()
for i in range(20):
    m = Rep(
        f_sint32=rand_values("f_sint32", i % 4),
        f_double=rand_values("f_double", i % 3),
        f_fixed32=rand_values("f_fixed32", i % 5),
        subs=[Sub(x=i)] * (i % 2),
    )
    msgs.append(m)
    m.dump(buf, betterproto.SIZE_DELIMITED)
buf.seek(0)
for m in msgs:
    got = Rep().load(buf, betterproto.SIZE_DELIMITED)
    assert got == m and bytes(got) == bytes(m)
assert buf.read() == b""

print("ok")
