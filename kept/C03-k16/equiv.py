"""C03 keep2: bookkeeping of plugin/models.py - top level messages / enums are registered in
OutputTemplate.messages / .enums (exactly one class per message and enum, enums first), the
`import warnings` / `import builtins` decision of OutputTemplate.python_module_imports, and
ProtoContentBase.request / .output_file.

Run as:  PYTHONPATH=<worktree>/src /venv/bin/python equiv.py
"""
import contextlib
import dataclasses
import importlib
import io
import itertools
import os
import re
import shutil
import sys
import tempfile
import typing
import warnings

import grpc_tools
from google.protobuf import descriptor_pb2
from grpc_tools import protoc

import betterproto
from betterproto.plugin import compiler as plugin_compiler

plugin_compiler.subprocess.check_output = lambda cmd, input, encoding: input

from betterproto.lib.google.protobuf import (
    DescriptorProto,
    EnumDescriptorProto,
    EnumValueDescriptorProto,
    FieldDescriptorProto,
    FieldDescriptorProtoLabel,
    FieldDescriptorProtoType,
    FieldOptions,
    FileDescriptorProto,
    FileDescriptorSet,
    MessageOptions,
    MethodDescriptorProto,
    MethodOptions,
    ServiceDescriptorProto,
)
from betterproto.lib.google.protobuf.compiler import CodeGeneratorRequest
from betterproto.plugin.models import (
    EnumDefinitionCompiler,
    FieldCompiler,
    MapEntryCompiler,
    MessageCompiler,
    OneOfFieldCompiler,
    OutputTemplate,
    PluginRequestCompiler,
    ServiceCompiler,
    ServiceMethodCompiler,
    monkey_patch_oneof_index,
)
from betterproto.plugin.parser import generate_code, read_protobuf_service, read_protobuf_type, traverse
from betterproto.plugin.typing_compiler import DirectImportTypingCompiler

monkey_patch_oneof_index()

# ---- 1. hand-built descriptors: registration lists and the module import decision ------------
T = FieldDescriptorProtoType


def build(msg_deprecated, field_deprecated, method_deprecated, shadow, n_messages=2, with_service=True):
    """A package of n messages (the LAST one carries the flags), two enums and a service."""
    messages = []
    for i in range(n_messages):
        last = i == n_messages - 1
        fields = [
            FieldDescriptorProto(name="plain", number=1, type=T.TYPE_INT32, label=FieldDescriptorProtoLabel.LABEL_OPTIONAL),
            FieldDescriptorProto(
                name="old", number=2, type=T.TYPE_STRING, label=FieldDescriptorProtoLabel.LABEL_OPTIONAL,
                options=FieldOptions(deprecated=bool(last and field_deprecated)),
            ),
        ]
        if last and shadow:
            fields.append(FieldDescriptorProto(name="int", number=3, type=T.TYPE_BOOL, label=FieldDescriptorProtoLabel.LABEL_OPTIONAL))
        messages.append(
            DescriptorProto(
                name=f"M{i}", field=fields, options=MessageOptions(deprecated=bool(last and msg_deprecated)),
                enum_type=[EnumDescriptorProto(name="Inner", value=[EnumValueDescriptorProto(name="INNER_A", number=0)])],
                nested_type=[DescriptorProto(name="Sub", field=[FieldDescriptorProto(name="v", number=1, type=T.TYPE_BOOL)])],
            )
        )
    services = []
    if with_service:
        services.append(
            ServiceDescriptorProto(
                name="Svc",
                method=[
                    MethodDescriptorProto(name="Fresh", input_type=".pkg.M0", output_type=".pkg.M0"),
                    MethodDescriptorProto(name="Old", input_type=".pkg.M0", output_type=".pkg.M0",
                                          options=MethodOptions(deprecated=bool(method_deprecated))),
                ],
            ),
        )
    file = FileDescriptorProto(
        name="pkg.proto", package="pkg", message_type=messages, service=services,
        enum_type=[EnumDescriptorProto(name="Top", value=[EnumValueDescriptorProto(name="TOP_A", number=0),
                                                          EnumValueDescriptorProto(name="TOP_B", number=-3)])],
    )
    request = PluginRequestCompiler(plugin_request_obj=CodeGeneratorRequest(proto_file=[file]))
    output = OutputTemplate(parent_request=request, package_proto_obj=file)
    request.output_packages["pkg"] = output
    output.input_files.append(file)
    created = []
    for item, path in traverse(file):
        before = len(output.messages), len(output.enums)
        read_protobuf_type(item=item, path=path, source_file=file, output_package=output)
        after = len(output.messages), len(output.enums)
        # every traversed type is registered exactly once, in the list of its kind
        if isinstance(item, EnumDescriptorProto):
            assert after == (before[0], before[1] + 1)
            assert type(output.enums[-1]) is EnumDefinitionCompiler and output.enums[-1].proto_obj is item
            created.append(output.enums[-1])
        else:
            assert after == (before[0] + 1, before[1])
            assert type(output.messages[-1]) is MessageCompiler and output.messages[-1].proto_obj is item
            created.append(output.messages[-1])
    for index, service in enumerate(file.service):
        read_protobuf_service(file, service, index, output)
    return request, output, created


for flags in itertools.product([False, True], repeat=4):
    for n_messages, with_service in ((1, True), (2, True), (3, False)):
        msg_dep, field_dep, method_dep, shadow = flags
        request, output, created = build(*flags, n_messages=n_messages, with_service=with_service)
        assert [e.py_name for e in output.enums] == ["Top"] + [f"M{i}Inner" for i in range(n_messages)]
        assert [m.py_name for m in output.messages] == [
            name for i in range(n_messages) for name in (f"M{i}", f"M{i}Sub")
        ]
        assert not any(isinstance(m, (FieldCompiler, EnumDefinitionCompiler)) for m in output.messages)
        assert len(set(map(id, output.messages + output.enums))) == len(created) == 1 + 3 * n_messages
        expected = set()
        if msg_dep or field_dep or (method_dep and with_service):
            expected.add("warnings")
        if shadow:
            expected.add("builtins")
        got = output.python_module_imports
        assert isinstance(got, set) and got == expected, (flags, n_messages, with_service, got, expected)
        assert output.python_module_imports == expected  # pure: asking twice changes nothing
        last = output.messages[-2]
        assert last.deprecated is bool(msg_dep)
        assert list(last.deprecated_fields) == (["old"] if field_dep else [])
        assert last.has_deprecated_fields is bool(field_dep)
        # navigation upwards from every level
        for message in output.messages:
            assert message.output_file is output and message.request is request
            assert [f.py_name for f in message.fields][:1] in (["plain"], ["v"])
            for field in message.fields:
                assert type(field) is FieldCompiler
                assert field.parent is message and field.output_file is output and field.request is request
                assert field not in output.messages and field not in output.enums
        for enum in output.enums:
            assert enum.output_file is output and enum.request is request
        if with_service:
            (service,) = output.services
            assert service.output_file is output and service.request is request
            assert [m.py_name for m in service.methods] == ["fresh", "old"]
            assert all(m.output_file is output and m.request is request for m in service.methods)
        else:
            assert output.services == []

# an empty package needs nothing
empty = OutputTemplate(parent_request=PluginRequestCompiler(plugin_request_obj=CodeGeneratorRequest()),
                       package_proto_obj=FileDescriptorProto(name="e.proto"))
assert empty.python_module_imports == set()
empty.builtins_import = True
assert empty.python_module_imports == {"builtins"}

# ---- 2. end to end through the plugin ---------------------------------------------------------
WKT_INC = os.path.join(os.path.dirname(grpc_tools.__file__), "_proto")


def run_plugin(files, parameter=""):
    src = tempfile.mkdtemp(prefix="c03src")
    try:
        for name, text in files.items():
            path = os.path.join(src, name)
            os.makedirs(os.path.dirname(path), exist_ok=True)
            with open(path, "w") as fh:
                fh.write(text)
        ds = os.path.join(src, "set.bin")
        rc = protoc.main(["protoc", f"-I{src}", f"-I{WKT_INC}", f"--descriptor_set_out={ds}",
                          "--include_imports", "--include_source_info", *sorted(files)])
        assert rc == 0
        raw = open(ds, "rb").read()
    finally:
        shutil.rmtree(src)
    request = CodeGeneratorRequest(file_to_generate=sorted(files), parameter=parameter,
                                   proto_file=FileDescriptorSet().parse(raw).file)
    with contextlib.redirect_stderr(io.StringIO()):
        response = generate_code(request)
    return descriptor_pb2.FileDescriptorSet.FromString(raw), {f.name: f.content for f in response.file}


COUNTER = itertools.count()


def import_output(out, package):
    root = tempfile.mkdtemp(prefix="c03out")
    top = f"c03keep2_{next(COUNTER)}"
    for name, content in out.items():
        path = os.path.join(root, top, name)
        os.makedirs(os.path.dirname(path), exist_ok=True)
        with open(path, "w") as fh:
            fh.write(content)
    sys.path.insert(0, root)
    try:
        importlib.invalidate_caches()
        return importlib.import_module(f"{top}.{package}" if package else top)
    finally:
        sys.path.remove(root)
        shutil.rmtree(root)


def flat_types(fd):
    """(flattened class name, descriptor) of every message / enum, nested ones included."""
    def walk(prefix, messages, enums):
        for enum in enums:
            yield prefix + enum.name, enum
        for message in messages:
            if message.options.map_entry:
                continue
            yield prefix + message.name, message
            yield from walk(prefix + message.name, message.nested_type, message.enum_type)
    return list(walk("", fd.message_type, fd.enum_type))


def header_imports(text):
    return set(re.findall(r"^import (warnings|builtins)$", text, flags=re.M))


BODY = """
enum Level { LEVEL_UNSET = 0; LEVEL_LOW = 1; LEVEL_NEG = -1; }
message Holder {
  enum Kind { KIND_A = 0; KIND_B = 1; }
  message Item { message Part { int32 n = 1; } Part part = 1; Kind kind = 2; }
  Item item = 1; map<string, Item> items = 2; repeated Level levels = 3; optional Kind kind = 4;
  oneof choice { string text = 5; Item.Part part = 6; }
  %(field)s
}
message Second { %(msgopt)s Holder holder = 1; %(shadow)s }
%(service)s
"""
SERVICE = "service Api { rpc Get (Second) returns (Holder); rpc Old (Second) returns (stream Holder) { %s } }"
VARIANTS = {}
for msg_dep, field_dep, method_dep, shadow, service in itertools.product([False, True], repeat=5):
    if method_dep and not service:
        continue
    VARIANTS[(msg_dep, field_dep, method_dep, shadow, service)] = 'syntax = "proto3";\npackage k2.demo;\n' + BODY % {
        "field": "int64 legacy = 9 [deprecated = true];" if field_dep else "int64 legacy = 9;",
        "msgopt": "option deprecated = true;" if msg_dep else "",
        "shadow": "bool bytes = 2; bytes blob = 3; map<string, bytes> blobs = 4;" if shadow else "bytes blob = 3;",
        "service": SERVICE % ("option deprecated = true;" if method_dep else "") if service else "",
    }

for parameter in ("", "typing.310", "pydantic_dataclasses"):
    for key, source in VARIANTS.items():
        if parameter and sum(key) not in (0, 2, 5):
            continue  # the full matrix for the default options, a sample for the others
        msg_dep, field_dep, method_dep, shadow, service = key
        fds, out = run_plugin({"demo.proto": source}, parameter)
        assert set(out) == {"k2/demo/__init__.py", "k2/__init__.py", "__init__.py"}, sorted(out)
        text = out["k2/demo/__init__.py"]
        expected = ({"warnings"} if msg_dep or field_dep or method_dep else set()) | ({"builtins"} if shadow else set())
        assert header_imports(text) == expected, (key, parameter, header_imports(text))
        (fd,) = [f for f in fds.file if f.name == "demo.proto"]
        types = flat_types(fd)
        # exactly one class statement per message / enum, the enums come first
        classes = re.findall(r"^class (\w+)\((betterproto\.Enum|betterproto\.Message)\):$", text, flags=re.M)
        assert sorted(name for name, _ in classes) == sorted(name for name, _ in types), classes
        assert [name for name, _ in classes] == (
            [n for n, d in types if isinstance(d, descriptor_pb2.EnumDescriptorProto)]
            + [n for n, d in types if isinstance(d, descriptor_pb2.DescriptorProto)]
        ), classes
        assert [base for _, base in classes] == sorted(base for _, base in classes)
        exported = re.search(r"^__all__ = \((.*?)\)$", text, flags=re.M | re.S).group(1)
        exported = [name.strip().strip('"') for name in exported.rstrip(",").split(",")]
        assert exported == [n for n, _ in classes] + (["ApiStub", "ApiBase"] if service else []), exported

        with warnings.catch_warnings():
            # importing must not fail (nor warn, except for pydantic's own deprecation notes)
            warnings.simplefilter("ignore" if parameter == "pydantic_dataclasses" else "error")
            module = import_output(out, "k2.demo")
        for name, descriptor in types:
            cls = getattr(module, name)
            if isinstance(descriptor, descriptor_pb2.EnumDescriptorProto):
                assert issubclass(cls, betterproto.Enum)
                assert sorted(int(member) for member in cls) == sorted(v.number for v in descriptor.value)
            else:
                assert issubclass(cls, betterproto.Message)
                numbers = [f.metadata["betterproto"].number for f in dataclasses.fields(cls)]
                assert numbers == [f.number for f in descriptor.field], (name, numbers)
        if parameter == "pydantic_dataclasses":
            continue
        # the warnings the import exists for are really raised (and only then)
        with warnings.catch_warnings(record=True) as caught:
            warnings.simplefilter("always")
            module.Second()
            module.Holder()
            module.Holder(legacy=3)
        messages = sorted(str(w.message) for w in caught if issubclass(w.category, DeprecationWarning))
        wanted = (["Holder.legacy is deprecated"] if field_dep else []) + (["Second is deprecated"] if msg_dep else [])
        assert messages == wanted, (key, messages)
        if shadow:
            hints = typing.get_type_hints(module.Second, vars(module))
            assert hints["bytes"] is bool and hints["blob"] is bytes, hints
            assert typing.get_args(hints["blobs"]) == (str, bytes), hints

# ---- 3. several packages and files: each type lands in the output file of its own package ------
fds, out = run_plugin({
    "a.proto": 'syntax = "proto3";\npackage fam.a;\nimport "b.proto";\nenum Ea { EA_Z = 0; }\n'
               "message Ma { fam.b.Mb mb = 1; Ea ea = 2; fam.b.Mb.Eb eb = 3; }\n",
    "a2.proto": 'syntax = "proto3";\npackage fam.a;\nmessage Ma2 { option deprecated = true; int32 x = 1; }\nenum Ea2 { EA2_Z = 0; }\n',
    "b.proto": 'syntax = "proto3";\npackage fam.b;\nmessage Mb { enum Eb { EB_Z = 0; } Eb eb = 1; bool str = 2; string s = 3; }\n',
})
text_a, text_b = out["fam/a/__init__.py"], out["fam/b/__init__.py"]
assert re.findall(r"^class (\w+)\(", text_a, flags=re.M) == ["Ea", "Ea2", "Ma", "Ma2"]
assert re.findall(r"^class (\w+)\(", text_b, flags=re.M) == ["MbEb", "Mb"]
assert header_imports(text_a) == {"warnings"} and header_imports(text_b) == {"builtins"}
mod_a = import_output(out, "fam.a")
hints = typing.get_type_hints(mod_a.Ma, vars(mod_a))
assert hints["mb"].__name__ == "Mb" and hints["eb"].__name__ == "MbEb" and hints["ea"] is mod_a.Ea

print("OK")
