"""C16 equivalence check for decode_varint (and its users parse_fields / Message.parse).

Every outcome of decode_varint -- (value, new position), EOFError or ValueError -- is
compared with an independent model of the specified behaviour and with load_varint,
over: exhaustive round trips below 2**21, all 7/32/64-bit boundaries, random 64-bit
values, all byte strings of length <= 2, many structured/random byte strings of length
<= 12 at every start position, and messages parsed through Message.parse compared with
google.protobuf.
"""
import io
import itertools
import random
from dataclasses import dataclass
from typing import List

import betterproto
from betterproto import decode_varint, encode_varint, load_varint, size_varint
from google.protobuf import descriptor_pb2, descriptor_pool, message_factory

rnd = random.Random(1601)


def model_encode(n):
    n &= (1 << 64) - 1
    out = bytearray()
    while n > 0x7F:
        out.append((n & 0x7F) | 0x80)
        n >>= 7
    out.append(n)
    return bytes(out)


def model_decode(buf, pos):
    """Specified behaviour: at most 10 bytes, EOF if input ends inside a varint."""
    result = 0
    for i in range(10):
        if pos + i >= len(buf):
            return "EOF"
        b = buf[pos + i]
        result |= (b & 0x7F) << (7 * i)
        if not b & 0x80:
            return result, pos + i + 1
    return "TOOLONG"


def observed_decode(buf, pos):
    try:
        return decode_varint(buf, pos)
    except EOFError as e:
        assert str(e) == "Stream ended unexpectedly while attempting to load varint.", e
        return "EOF"
    except ValueError as e:
        assert str(e) == "Too many bytes when decoding varint.", e
        return "TOOLONG"


def observed_load(buf, pos):
    stream = io.BytesIO(buf)
    stream.seek(pos)
    try:
        value, raw = load_varint(stream)
    except EOFError:
        return "EOF"
    except ValueError:
        return "TOOLONG"
    assert raw == buf[pos : pos + len(raw)] and stream.tell() == pos + len(raw)
    return value, pos + len(raw)


def check_input(buf, pos):
    want = model_decode(buf, pos)
    got = observed_decode(buf, pos)
    assert got == want, (buf.hex(), pos, got, want)
    assert observed_load(buf, pos) == want, (buf.hex(), pos)


# 1. exhaustive round trip below 2**21 (1-, 2- and 3-byte encodings and the 4-byte edge)
for n in range(2**21 + 2):
    enc = encode_varint(n)
    assert decode_varint(enc, 0) == (n, len(enc))
assert decode_varint(encode_varint(2**21 - 1), 0) == (2**21 - 1, 3)
assert decode_varint(encode_varint(2**21), 0) == (2**21, 4)

# 2. boundaries and random 64-bit values, with prefix/suffix bytes around the varint
values = set()
for k in range(0, 65):
    for d in range(-3, 4):
        values.add(2**k + d)
        values.add(-(2**k) + d)
for _ in range(20000):
    values.add(rnd.getrandbits(rnd.randint(1, 64)))
    values.add(-rnd.getrandbits(rnd.randint(1, 63)))
values = sorted(v for v in values if -(2**63) <= v < 2**64)
for n in values:
    enc = encode_varint(n)
    assert enc == model_encode(n) and len(enc) == size_varint(n)
    unsigned = n % 2**64
    assert decode_varint(enc, 0) == (unsigned, len(enc)), n
    prefix = bytes(rnd.getrandbits(8) for _ in range(rnd.randint(0, 4)))
    suffix = bytes(rnd.getrandbits(8) for _ in range(rnd.randint(0, 4)))
    buf = prefix + enc + suffix
    assert decode_varint(buf, len(prefix)) == (unsigned, len(prefix) + len(enc)), n
    for pos in range(len(buf) + 2):
        check_input(buf, pos)
    # every proper prefix of an encoding is a premature end of input
    for cut in range(len(enc)):
        assert observed_decode(enc[:cut], 0) == "EOF", (n, cut)
        assert observed_decode(prefix + enc[:cut], len(prefix)) == "EOF", (n, cut)

# 3. all byte strings of length <= 2, every start position (also past the end)
for length in range(0, 3):
    for tup in itertools.product(range(256), repeat=length):
        buf = bytes(tup)
        for pos in range(length + 2):
            check_input(buf, pos)

# 4. structured strings up to 12 bytes: runs of continuation bytes then a terminator or EOF
for cont in (0x80, 0xFF, 0x81, 0xAA):
    for run in range(0, 13):
        for tail in (b"", b"\x00", b"\x01", b"\x7f", b"\x02\x80", b"\x80", b"\xff\x01"):
            buf = bytes([cont]) * run + tail
            for pos in range(len(buf) + 2):
                check_input(buf, pos)
# 10-byte varints whose last byte carries bits beyond 2**64 are still decoded as-is
for last in range(0, 0x80):
    check_input(b"\xff" * 9 + bytes([last]), 0)
    check_input(b"\x80" * 9 + bytes([last]) + b"\x05", 0)
for last in range(0x80, 0x100):
    assert observed_decode(b"\xff" * 9 + bytes([last]), 0) == "TOOLONG"
    assert observed_decode(b"\xff" * 9 + bytes([last]) + b"\x00", 0) == "TOOLONG"
    assert observed_decode(b"\xff" * 8 + bytes([last]), 0) == "EOF"

# 5. random strings of length <= 12 biased towards continuation bytes
for _ in range(60000):
    length = rnd.randint(0, 12)
    p = rnd.random()
    buf = bytes(
        (rnd.getrandbits(7) | 0x80) if rnd.random() < p else rnd.getrandbits(7)
        for _ in range(length)
    )
    for pos in range(length + 1):
        check_input(buf, pos)

# 6. other bytes-like buffers give the same answers
for n in (0, 1, 127, 128, 300, 2**32, 2**64 - 1, -1):
    enc = b"\x99" + encode_varint(n) + b"\x01"
    want = decode_varint(enc, 1)
    assert decode_varint(bytearray(enc), 1) == want
    assert decode_varint(memoryview(enc), 1) == want
try:
    decode_varint(b"\x01", -1)
except ValueError:
    pass
else:
    raise AssertionError("negative position accepted")

# 7. through parse_fields / Message.parse, compared with google.protobuf
FDP = descriptor_pb2.FieldDescriptorProto
fdp = descriptor_pb2.FileDescriptorProto(name="c16_k1.proto", package="c16k1", syntax="proto3")
m = fdp.message_type.add(name="M")
m.field.add(name="a", number=1, type=FDP.TYPE_UINT64, label=FDP.LABEL_OPTIONAL)
m.field.add(name="b", number=2, type=FDP.TYPE_INT64, label=FDP.LABEL_REPEATED)
m.field.add(name="c", number=300, type=FDP.TYPE_SINT64, label=FDP.LABEL_REPEATED)
m.field.add(name="d", number=2**29 - 1, type=FDP.TYPE_BYTES, label=FDP.LABEL_OPTIONAL)
m.field.add(name="e", number=16, type=FDP.TYPE_INT32, label=FDP.LABEL_OPTIONAL)
pool = descriptor_pool.DescriptorPool()
pool.Add(fdp)
Ref = message_factory.GetMessageClass(pool.FindMessageTypeByName("c16k1.M"))


@dataclass(eq=False, repr=False)
class M(betterproto.Message):
    a: int = betterproto.uint64_field(1)
    b: List[int] = betterproto.int64_field(2)
    e: int = betterproto.int32_field(16)
    c: List[int] = betterproto.sint64_field(300)
    d: bytes = betterproto.bytes_field(2**29 - 1)


def rand_i64():
    return rnd.choice(
        [0, 1, -1, 127, 128, -128, 2**31 - 1, -(2**31), 2**63 - 1, -(2**63), rnd.randint(-(2**63), 2**63 - 1)]
    )


for _ in range(1500):
    ref = Ref(
        a=rnd.choice([0, 1, 127, 128, 16383, 16384, 2**32, 2**64 - 1, rnd.getrandbits(64)]),
        b=[rand_i64() for _ in range(rnd.randint(0, 5))],
        c=[rand_i64() for _ in range(rnd.randint(0, 5))],
        d=bytes(rnd.getrandbits(8) for _ in range(rnd.choice([0, 1, 127, 128, 129, 300]))),
        e=rnd.choice([0, 1, -1, 2**31 - 1, -(2**31), rnd.randint(-(2**31), 2**31 - 1)]),
    )
    data = ref.SerializeToString()
    msg = M().parse(data)
    assert (msg.a, msg.b, msg.c, msg.d, msg.e) == (ref.a, list(ref.b), list(ref.c), ref.d, ref.e)
    assert bytes(msg) == data
    fields = list(betterproto.parse_fields(data))
    assert b"".join(f.raw for f in fields) == data
    # truncating anywhere strictly inside the message never parses to the same bytes silently
    if data:
        cut = rnd.randrange(len(data))
        try:
            again = bytes(M().parse(data[:cut]))
        except (EOFError, ValueError):
            pass
        else:
            assert again == Ref.FromString(data[:cut]).SerializeToString()

# a tag or a value that is an over-long varint is rejected by the message parser too
for bad in (b"\x80" * 10 + b"\x01", b"\x08" + b"\xff" * 10 + b"\x01"):
    try:
        M().parse(bad)
    except ValueError as e:
        assert "Too many bytes" in str(e)
    else:
        raise AssertionError("over-long varint accepted")
for bad in (b"\x08\x80", b"\x80", b"\x12\x80"):
    try:
        M().parse(bad)
    except EOFError:
        pass
    else:
        raise AssertionError("truncated varint accepted")

print("ok")
