"""C13 keep2 - equivalence check for the refactoring of plugin/compiler.py
(outputfile_compiler: cached templates, render / ruff passes / collision warning split up).

outputfile_compiler turns one OutputTemplate into the text of one generated module.  What the
cross-package property needs from it:

  * the BODY template is rendered before the HEADER (rpc types register their cross-package
    import and the typing imports only while the stubs are rendered) and the module text is
    header + body,
  * the text is piped through `ruff check --select I,F401 --fix --silent -` and then
    `ruff format -` (each pass gets the output of the previous one, as list argv with
    input=/encoding= keywords) and the result of the last pass is returned,
  * the collision warning is printed to stderr for the final text, in the known format,
  * errors of a pass propagate, the next pass is not started,
  * nothing leaks from one output file / request to the next one (several requests with
    different options are compiled in one process).

All of that is checked through the public entry points (generate_code / outputfile_compiler)
with subprocess.check_output replaced by a recording stand-in, against an independent
rendering done here with a private jinja2 environment, and by importing the generated
packages and resolving every reference.

Run: PYTHONPATH=<worktree>/src /venv/bin/python equiv.py
"""
import contextlib
import importlib
import io
import itertools
import os
import subprocess
import sys
import tempfile
import typing
from pathlib import Path

import jinja2

import betterproto
import betterproto.lib.google.protobuf as bundled
from betterproto.lib.google.protobuf import FileDescriptorSet
from betterproto.lib.google.protobuf.compiler import CodeGeneratorRequest
from betterproto.plugin import compiler as plugin_compiler
from betterproto.plugin import parser as plugin_parser
from betterproto.plugin.models import monkey_patch_oneof_index
from betterproto.plugin.module_validation import ModuleValidator

monkey_patch_oneof_index()

CHECK = ["ruff", "check", "--select", "I,F401", "--fix", "--silent", "-"]
FORMAT = ["ruff", "format", "-"]

# ---------------------------------------------------------------------------------
# recording stand-ins
# ---------------------------------------------------------------------------------
calls = []  # (cmd, input, encoding, output)
fail_on = {}  # pass name -> exception to raise


def fake_check_output(cmd, *args, **kwargs):
    assert not args, "the passes are called with keywords only"
    assert set(kwargs) == {"input", "encoding"}, kwargs
    assert type(cmd) is list and all(type(c) is str for c in cmd), cmd
    if cmd[1] in fail_on:
        calls.append((cmd, kwargs["input"], kwargs["encoding"], None))
        raise fail_on[cmd[1]]
    out = kwargs["input"] + f"# after ruff {cmd[1]}\n"
    calls.append((cmd, kwargs["input"], kwargs["encoding"], out))
    return out


plugin_compiler.subprocess.check_output = fake_check_output
assert subprocess.check_output is fake_check_output  # same module object

compiled = []  # (output_file, text)
_real_outputfile_compiler = plugin_parser.outputfile_compiler
assert _real_outputfile_compiler is plugin_compiler.outputfile_compiler


def recording_outputfile_compiler(output_file):
    first_call = len(calls)
    err = io.StringIO()
    with contextlib.redirect_stderr(err):
        text = _real_outputfile_compiler(output_file=output_file)
    compiled.append((output_file, text, calls[first_call:], err.getvalue()))
    sys.stderr.write(err.getvalue())
    return text


plugin_parser.outputfile_compiler = recording_outputfile_compiler

# an independent rendering
_templates = os.path.join(os.path.dirname(betterproto.__file__), "templates")
_env = jinja2.Environment(
    trim_blocks=True,
    lstrip_blocks=True,
    loader=jinja2.FileSystemLoader(_templates),
    undefined=jinja2.StrictUndefined,
)


def expected_text(output_file):
    body = _env.get_template("template.py.j2").render(output_file=output_file)
    header = _env.get_template("header.py.j2").render(output_file=output_file)
    return header + body


def expected_warning(code):
    validator = ModuleValidator(iter(code.splitlines()))
    if validator.validate():
        return ""
    out = ["[WARNING]: Generated code has collisions in the module:"]
    for name, lines in validator.collisions.items():
        out.append(f'  "{name}" on lines:')
        for number, line in lines:
            out.append(f"    {number}:{line}")
    return "\n".join(out) + "\n"


def normalise(text):
    """imports_end is a set: the order of its lines is not defined."""
    return sorted(text.splitlines())


# ---------------------------------------------------------------------------------
# plugin harness
# ---------------------------------------------------------------------------------
_counter = itertools.count()


def descriptor_set(files):
    import grpc_tools
    from grpc_tools import protoc

    inc = os.path.join(os.path.dirname(grpc_tools.__file__), "_proto")
    with tempfile.TemporaryDirectory() as tmp:
        for rel, text in files.items():
            path = Path(tmp, rel)
            path.parent.mkdir(parents=True, exist_ok=True)
            path.write_text(text)
        out = os.path.join(tmp, "set.bin")
        rc = protoc.main(
            ["protoc", f"-I{tmp}", f"-I{inc}", f"--descriptor_set_out={out}",
             "--include_imports", *files]
        )
        assert rc == 0, "protoc failed"
        return Path(out).read_bytes()


def run_plugin(files, parameter=""):
    fds = FileDescriptorSet().parse(descriptor_set(files))
    request = CodeGeneratorRequest(
        file_to_generate=list(files), parameter=parameter, proto_file=fds.file
    )
    request = CodeGeneratorRequest().parse(bytes(request))
    del compiled[:]
    err = io.StringIO()
    with contextlib.redirect_stderr(err):
        response = plugin_parser.generate_code(request)
    return response, list(compiled), err.getvalue()


def write_out(response):
    base = tempfile.mkdtemp(prefix="c13_keep2_")
    root = f"c13k2gen{next(_counter)}"
    for f in response.file:
        path = Path(base, root, f.name)
        path.parent.mkdir(parents=True, exist_ok=True)
        path.write_text(f.content)
    sys.path.insert(0, base)
    importlib.invalidate_caches()
    return root


# ---------------------------------------------------------------------------------
# inputs: packages in every relative position, referring to each other circularly
# ---------------------------------------------------------------------------------
KINDS = "message Target { int32 v = 1; message Inner { int32 w = 1; enum NKind { N0 = 0; N1 = 1; } } } enum Kind { K0 = 0; K1 = 1; }"
PACKAGES = ["", "a", "a.x", "a.y", "a.x.d", "a.x.d.e", "p", "p.q", "p.q.r"]


def prefix(pkg):
    return pkg + "." if pkg else ""


def file_of(pkg):
    return (pkg.replace(".", "_") or "root") + ".proto"


def build_files(rpc_only_from=("p.q.r",)):
    """Two files per package: <pkg>_types.proto defines the types, <pkg>_api.proto refers to
    the types of every package - proto FILES cannot import each other circularly, but the
    generated PACKAGES do."""
    files = {}
    for pkg in PACKAGES:
        head = ['syntax="proto3";'] + ([f"package {pkg};"] if pkg else [])
        files["types_" + file_of(pkg)] = "\n".join(head + [KINDS])
        lines = head + [f'import "types_{file_of(o)}";' for o in PACKAGES]
        if pkg not in rpc_only_from:
            fields, n = [], 0
            for i, o in enumerate(PACKAGES):
                t = "." + prefix(o)
                fields.append(f"  {t}Target one{i} = {n + 1};")
                fields.append(f"  repeated {t}Target.Inner many{i} = {n + 2};")
                fields.append(f"  map<string, {t}Kind> map{i} = {n + 3};")
                fields.append(f"  optional {t}Target.Inner.NKind opt{i} = {n + 4};")
                n += 4
            lines.append("message Holder {\n" + "\n".join(fields) + "\n}")
        # services: in `rpc_only_from` packages the rpc types are the ONLY cross-package
        # references, so their imports exist only because the stubs were rendered
        rpcs = []
        for i, o in enumerate(PACKAGES):
            t = "." + prefix(o)
            rpcs.append(f"  rpc UnaryUnary{i}({t}Target) returns ({t}Target.Inner);")
            rpcs.append(f"  rpc UnaryStream{i}({t}Target.Inner) returns (stream {t}Target);")
            rpcs.append(f"  rpc StreamUnary{i}(stream {t}Target) returns ({t}Target);")
            rpcs.append(f"  rpc StreamStream{i}(stream {t}Target.Inner) returns (stream {t}Target.Inner);")
        lines.append("service Svc {\n" + "\n".join(rpcs) + "\n}")
        files["api_" + file_of(pkg)] = "\n".join(lines)
    return files


FILES = build_files()
OPTIONS = ["", "typing.root", "typing.310", "pydantic_dataclasses", "typing.direct"]

texts_by_option = {}
for round_ in range(2):  # twice: whatever is cached must not change the result
    for option in OPTIONS:
        del calls[:]
        response, done, stderr = run_plugin(FILES, option)
        modules = {f.name: f.content for f in response.file if f.content}
        assert len(done) == len(PACKAGES) == len(modules), (option, len(done))
        assert len(calls) == 2 * len(PACKAGES)

        for (output_file, text, its_calls, its_stderr), rf in zip(done, response.file):
            # response files are in compile order and carry exactly the returned text
            assert rf.content == text
            assert rf.name == str(Path(*output_file.package.split("."), "__init__.py"))
            # two passes, in order, chained, list argv, utf-8
            (cmd1, in1, enc1, out1), (cmd2, in2, enc2, out2) = its_calls
            assert cmd1 == CHECK and cmd2 == FORMAT, (cmd1, cmd2)
            assert enc1 == enc2 == "utf-8"
            assert in2 == out1 and text == out2
            assert text == in1 + "# after ruff check\n# after ruff format\n"
            # the rendered text is header + body of an independent rendering
            want = expected_text(output_file)
            assert normalise(in1) == normalise(want), (option, output_file.package)
            assert len(in1) == len(want)
            header_end = in1.index("import betterproto\n")
            head, body = in1[:header_end], in1[header_end:]
            assert head.startswith("# Generated by the protocol buffer compiler.  DO NOT EDIT!\n")
            assert "__all__ = (" in head and "class SvcStub(betterproto.ServiceStub):" in body
            assert body.index("class SvcStub") < body.index("class SvcBase")
            # warning for the final text (these modules have the usual 'import grpclib'
            # twice only inside TYPE_CHECKING, i.e. nothing is reported)
            assert its_stderr == expected_warning(text), (option, its_stderr)

            # body-before-header: names that only the stubs need are in the header
            if option in ("", "typing.direct"):
                for name in ("AsyncIterable", "AsyncIterator", "Iterable", "Union", "Optional"):
                    assert f"    {name},\n" in head, (option, output_file.package, name)
            elif option == "typing.root":
                assert "\nimport typing\n" in head
            elif option == "typing.310":
                assert "from collections.abc import (" in head
                for name in ("AsyncIterable", "AsyncIterator", "Iterable"):
                    assert f"    {name},\n" in head
            if option == "pydantic_dataclasses":
                assert "from pydantic.dataclasses import dataclass" in head
                assert "\nfrom dataclasses import dataclass" not in head
            else:
                assert "\nfrom dataclasses import dataclass" in head
                assert "pydantic" not in head

            # rpc-only cross-package imports were registered while rendering the stubs
            # and are emitted between the stubs and the ...Base classes
            if output_file.package == "p.q.r":
                assert "class Holder" not in body
                between = body[body.index("class SvcStub") : body.index("class SvcBase")]
                for line in (
                    "from .... import Target as ___Target__",
                    "from .... import TargetInner as ___TargetInner__",
                    "from .... import a as ___a__",
                    "from ....a import x as ___a_x__",
                    "from ....a import y as ___a_y__",
                    "from ....a.x import d as ___a_x_d__",
                    "from ....a.x.d import e as ___a_x_d_e__",
                    "from .... import p as ___p__",
                    "from ... import q as __q__",
                ):
                    assert f"\n{line}\n" in between, (option, line)
                assert set(output_file.imports_end) == {
                    l for l in between.splitlines() if l.startswith("from .")
                }
        # "Writing <path>" listing of generate_code is still there, nothing else
        listing = [l for l in stderr.splitlines() if l]
        assert listing == [f"Writing {n}" for n in sorted(f.name for f in response.file)], listing

        key = {name: normalise(text) for name, text in modules.items()}
        if round_ == 0:
            texts_by_option[option] = key
        else:
            assert texts_by_option[option] == key, option
assert texts_by_option[""] == texts_by_option["typing.direct"]
assert texts_by_option[""] != texts_by_option["typing.root"] != texts_by_option["typing.310"]
assert texts_by_option[""] != texts_by_option["pydantic_dataclasses"]

# ---------------------------------------------------------------------------------
# the modules import (circular references!) and every reference is the right class
# ---------------------------------------------------------------------------------
for option in ("", "typing.root", "typing.310"):
    response, done, _ = run_plugin(FILES, option)
    root = write_out(response)
    mods = {pkg: importlib.import_module(f"{root}.{pkg}" if pkg else root) for pkg in PACKAGES}
    for pkg, mod in mods.items():
        if pkg != "p.q.r":
            hints = typing.get_type_hints(mod.Holder, vars(mod), {})
            values = {}
            for i, o in enumerate(PACKAGES):
                target = mods[o]
                where = (option, pkg, o)
                assert hints[f"one{i}"] is target.Target, where
                assert hints[f"many{i}"].__args__ == (target.TargetInner,), where
                assert hints[f"map{i}"].__args__ == (str, target.Kind), where
                assert hints[f"opt{i}"].__args__[0] is target.TargetInnerNKind, where
                values[f"one{i}"] = target.Target(v=i + 1)
                values[f"many{i}"] = [target.TargetInner(w=i), target.TargetInner(w=9)]
                values[f"map{i}"] = {"k": target.Kind.K1}
                values[f"opt{i}"] = target.TargetInnerNKind.N0
            msg = mod.Holder(**values)
            back = mod.Holder().parse(bytes(msg))
            assert back == msg
            for i, o in enumerate(PACKAGES):
                assert type(getattr(back, f"one{i}")) is mods[o].Target
                assert type(getattr(back, f"many{i}")[1]) is mods[o].TargetInner
                assert type(getattr(back, f"map{i}")["k"]) is mods[o].Kind
                assert type(getattr(back, f"opt{i}")) is mods[o].TargetInnerNKind
        handlers = mod.SvcBase().__mapping__()
        assert len(handlers) == 4 * len(PACKAGES)
        for i, o in enumerate(PACKAGES):
            t = mods[o]
            route = f"/{prefix(pkg)}Svc/"
            expect = {
                f"UnaryUnary{i}": (t.Target, t.TargetInner),
                f"UnaryStream{i}": (t.TargetInner, t.Target),
                f"StreamUnary{i}": (t.Target, t.Target),
                f"StreamStream{i}": (t.TargetInner, t.TargetInner),
            }
            for name, (req, rep) in expect.items():
                h = handlers[route + name]
                assert h.request_type is req and h.reply_type is rep, (option, pkg, o, name)

# ---------------------------------------------------------------------------------
# collision warning: two types flatten to the same class name
# ---------------------------------------------------------------------------------
COLLIDING = {
    "c.proto": 'syntax="proto3"; package c; message Outer { message Inner { int32 v = 1; } } '
    "message OuterInner { int32 w = 1; } message Fine { int32 x = 1; }",
    "d.proto": 'syntax="proto3"; package d; message Fine { int32 x = 1; }',
}
for option in ("", "typing.310"):
    response, done, stderr = run_plugin(COLLIDING, option)
    (oc, text_c, _, err_c), (od, text_d, _, err_d) = done
    assert (oc.package, od.package) == ("c", "d")
    assert err_d == "" and expected_warning(text_d) == ""
    assert err_c == expected_warning(text_c) != ""
    warning_lines = err_c.splitlines()
    assert warning_lines[0] == "[WARNING]: Generated code has collisions in the module:"
    assert warning_lines[1] == '  "OuterInner" on lines:'
    assert len(warning_lines) == 4
    assert all(l.startswith("    ") and l.endswith(":class OuterInner(betterproto.Message):")
               for l in warning_lines[2:])
    numbers = [int(l.strip().split(":")[0]) for l in warning_lines[2:]]
    src_lines = text_c.splitlines()
    assert all(src_lines[n] == "class OuterInner(betterproto.Message):" for n in numbers)
    # stderr of the whole run: the warning, then the listing
    assert stderr == err_c + "".join(
        f"Writing {n}\n" for n in sorted(f.name for f in response.file)
    )
    assert text_c == expected_text(oc) + "# after ruff check\n# after ruff format\n"

# ---------------------------------------------------------------------------------
# error paths: a failing pass propagates, the following pass is not started
# ---------------------------------------------------------------------------------
SMALL = {"s.proto": 'syntax="proto3"; package s; message M { int32 v = 1; }'}
for failing, exc, expected_calls in (
    ("check", FileNotFoundError(2, "No such file or directory: 'ruff'"), [CHECK]),
    ("format", subprocess.CalledProcessError(2, FORMAT), [CHECK, FORMAT]),
):
    fail_on.clear()
    fail_on[failing] = exc
    del calls[:]
    try:
        run_plugin(SMALL)
    except type(exc) as caught:
        assert caught is exc
    else:
        raise AssertionError("the error of the pass was swallowed")
    assert [c[0] for c in calls] == expected_calls, calls
fail_on.clear()
# ... and the compiler is still usable afterwards
del calls[:]
response, done, _ = run_plugin(SMALL)
assert [c[0] for c in calls] == [CHECK, FORMAT]
assert done[0][1] == expected_text(done[0][0]) + "# after ruff check\n# after ruff format\n"
assert "class M(betterproto.Message):" in response.file[0].content

# direct use of the entry point with the canonical stand-in of the task description
plugin_compiler.subprocess.check_output = lambda cmd, input, encoding: input
plugin_parser.outputfile_compiler = _real_outputfile_compiler
response, _, _ = run_plugin(FILES)
root = write_out(response)
m = importlib.import_module(f"{root}.a.x")
assert typing.get_type_hints(m.Holder, vars(m), {})["one3"] is importlib.import_module(f"{root}.a.y").Target
for f in response.file:
    if f.content:
        assert not f.content.endswith("# after ruff format\n")

print("C13 keep2 equiv: OK")
