"""C16 keep1: packed-run decoding in Message.load and _wire_type_matches.

Exercises decoding of packed / unpacked repeated scalars of all 14 packable kinds
(positions reported by decode_varint drive the varint loop), compared with
google.protobuf (dynamic descriptors), plus error paths and the wire-type table."""
import random
import struct
from dataclasses import dataclass
from typing import List

from google.protobuf import descriptor_pb2, descriptor_pool, message_factory

import betterproto
from betterproto import (
    _wire_type_matches,
    decode_varint,
    encode_varint,
    parse_fields,
)

FD = descriptor_pb2.FieldDescriptorProto
KINDS = [
    ("int32", FD.TYPE_INT32), ("int64", FD.TYPE_INT64), ("uint32", FD.TYPE_UINT32),
    ("uint64", FD.TYPE_UINT64), ("sint32", FD.TYPE_SINT32), ("sint64", FD.TYPE_SINT64),
    ("bool", FD.TYPE_BOOL), ("fixed32", FD.TYPE_FIXED32), ("fixed64", FD.TYPE_FIXED64),
    ("sfixed32", FD.TYPE_SFIXED32), ("sfixed64", FD.TYPE_SFIXED64),
    ("float", FD.TYPE_FLOAT), ("double", FD.TYPE_DOUBLE), ("enum", FD.TYPE_ENUM),
]

# ---------------------------------------------------------------- reference
fdp = descriptor_pb2.FileDescriptorProto(name="c16_keep1.proto", package="c16k1", syntax="proto3")
en = fdp.enum_type.add(name="E")
for n, v in (("Z", 0), ("ONE", 1), ("NEG", -1), ("BIG", 2147483647), ("MIN", -2147483648), ("K", 300)):
    en.value.add(name=n, number=v)
msg = fdp.message_type.add(name="R")
for i, (name, t) in enumerate(KINDS, start=1):
    f = msg.field.add(name="r_" + name, number=i, type=t, label=FD.LABEL_REPEATED)
    if t == FD.TYPE_ENUM:
        f.type_name = ".c16k1.E"
msg.field.add(name="s", number=20, type=FD.TYPE_STRING, label=FD.LABEL_OPTIONAL)
pool = descriptor_pool.DescriptorPool()
pool.Add(fdp)
Ref = message_factory.GetMessageClass(pool.FindMessageTypeByName("c16k1.R"))


# ---------------------------------------------------------------- betterproto
class E(betterproto.Enum):
    Z = 0
    ONE = 1
    NEG = -1
    BIG = 2147483647
    MIN = -2147483648
    K = 300


@dataclass(eq=False, repr=False)
class R(betterproto.Message):
    r_int32: List[int] = betterproto.int32_field(1)
    r_int64: List[int] = betterproto.int64_field(2)
    r_uint32: List[int] = betterproto.uint32_field(3)
    r_uint64: List[int] = betterproto.uint64_field(4)
    r_sint32: List[int] = betterproto.sint32_field(5)
    r_sint64: List[int] = betterproto.sint64_field(6)
    r_bool: List[bool] = betterproto.bool_field(7)
    r_fixed32: List[int] = betterproto.fixed32_field(8)
    r_fixed64: List[int] = betterproto.fixed64_field(9)
    r_sfixed32: List[int] = betterproto.sfixed32_field(10)
    r_sfixed64: List[int] = betterproto.sfixed64_field(11)
    r_float: List[float] = betterproto.float_field(12)
    r_double: List[float] = betterproto.double_field(13)
    r_enum: List[E] = betterproto.enum_field(14)
    s: str = betterproto.string_field(20)


rng = random.Random(1601)


def around(points, lo, hi):
    out = set()
    for p in points:
        for d in range(-2, 3):
            if lo <= p + d <= hi:
                out.add(p + d)
    return sorted(out)


def int_samples(lo, hi):
    pts = [0, lo, hi] + [s * (1 << k) for k in (7, 14, 21, 28, 31, 32, 35, 42, 49, 56, 63) for s in (1, -1)]
    vals = around(pts, lo, hi)
    vals += [rng.randint(lo, hi) for _ in range(150)]
    vals += [rng.randint(max(lo, -300), min(hi, 300)) for _ in range(50)]
    return vals


def f32(bits):
    return struct.unpack("<f", struct.pack("<I", bits))[0]


def f64(bits):
    return struct.unpack("<d", struct.pack("<Q", bits))[0]


SAMPLES = {
    "int32": int_samples(-2**31, 2**31 - 1),
    "int64": int_samples(-2**63, 2**63 - 1),
    "uint32": int_samples(0, 2**32 - 1),
    "uint64": int_samples(0, 2**64 - 1),
    "sint32": int_samples(-2**31, 2**31 - 1),
    "sint64": int_samples(-2**63, 2**63 - 1),
    "bool": [True, False, True, True, False] * 8,
    "fixed32": int_samples(0, 2**32 - 1),
    "fixed64": int_samples(0, 2**64 - 1),
    "sfixed32": int_samples(-2**31, 2**31 - 1),
    "sfixed64": int_samples(-2**63, 2**63 - 1),
    "float": [0.0, -0.0, 1.0, -1.5, f32(1), f32(0x7F7FFFFF), f32(0xFF7FFFFF), float("inf"), float("-inf")]
    + [f32(rng.getrandbits(32) & ~0x7F800000 | (rng.randrange(0, 255) << 23)) for _ in range(150)],
    "double": [0.0, -0.0, 1.0, -1.5, 5e-324, 1.7976931348623157e308, float("inf"), float("-inf"), 1e39]
    + [f64(rng.getrandbits(64) & ~(0x7FF << 52) | (rng.randrange(0, 2047) << 52)) for _ in range(150)],
    "enum": [0, 1, -1, 2147483647, -2147483648, 300, 7, -5, 128, 16384] * 3,
}


def same(kind, a, b):
    if kind == "float":
        return struct.pack("<f", a) == struct.pack("<f", b)
    if kind == "double":
        return struct.pack("<d", a) == struct.pack("<d", b)
    if kind == "bool":
        return a is b or (a == b and isinstance(a, bool))
    return int(a) == int(b) and not isinstance(a, bool)


checked = 0
for kind, _ in KINDS:
    vals = SAMPLES[kind]
    # whole list, every single element, prefixes, random sub-lists
    lists = [vals] + [[v] for v in vals] + [vals[:k] for k in (2, 3, 5, 17)]
    lists += [rng.sample(vals, rng.randint(1, min(len(vals), 12))) for _ in range(60)]
    for lst in lists:
        ref = Ref(**{"r_" + kind: lst})
        wire = ref.SerializeToString()
        m = R().parse(wire)
        got = getattr(m, "r_" + kind)
        assert isinstance(got, list) and len(got) == len(lst), (kind, lst, got)
        for a, b in zip(got, lst):
            assert same(kind, a, b), (kind, a, b)
        if kind == "enum":
            assert all(isinstance(x, E) for x in got), got
        # every other repeated field stays empty, nothing lands in unknown fields
        for other, _ in KINDS:
            if other != kind:
                assert getattr(m, "r_" + other) == [], (kind, other)
        assert m._unknown_fields == b""
        # re-encoding is byte-identical to the reference, sizes agree
        assert bytes(m) == wire, (kind, lst, bytes(m).hex(), wire.hex())
        assert len(m) == len(wire)
        built = R(**{"r_" + kind: list(lst) if kind != "enum" else [E.try_value(v) for v in lst]})
        assert bytes(built) == wire, (kind, lst)
        checked += 1

# ---------------------------------------------------------------- unpacked / chunked input
def key(number, wt):
    return encode_varint((number << 3) | wt)


def zz(v):
    return v << 1 if v >= 0 else (v << 1) ^ -1


def payload(kind, v):
    if kind in ("int32", "int64", "uint32", "uint64", "enum", "bool"):
        return encode_varint(int(v))
    if kind in ("sint32", "sint64"):
        return encode_varint(zz(v))
    fmt = {"fixed32": "<I", "fixed64": "<Q", "sfixed32": "<i", "sfixed64": "<q", "float": "<f", "double": "<d"}[kind]
    return struct.pack(fmt, v)


def wt_of(kind):
    return {"fixed32": 5, "sfixed32": 5, "float": 5, "fixed64": 1, "sfixed64": 1, "double": 1}.get(kind, 0)


for number, (kind, _) in enumerate(KINDS, start=1):
    vals = SAMPLES[kind][:40]
    for _ in range(25):
        # a random mix of unpacked elements and packed chunks (incl. empty chunks)
        wire = b""
        expect = []
        while len(expect) < len(vals):
            if rng.random() < 0.4:
                v = vals[len(expect)]
                wire += key(number, wt_of(kind)) + payload(kind, v)
                expect.append(v)
            else:
                n = rng.randint(0, 5)
                chunk_vals = vals[len(expect): len(expect) + n]
                body = b"".join(payload(kind, v) for v in chunk_vals)
                wire += key(number, 2) + encode_varint(len(body)) + body
                expect += chunk_vals
        ref = Ref()
        ref.ParseFromString(wire)
        m = R().parse(wire)
        got = getattr(m, "r_" + kind)
        reflist = list(getattr(ref, "r_" + kind))
        assert len(got) == len(expect) == len(reflist), (kind, wire.hex())
        for a, b, c in zip(got, expect, reflist):
            assert same(kind, a, b) and same(kind, a, c), (kind, a, b, c)
        assert m._unknown_fields == b""
        checked += 1

# non-minimal varints inside a packed run: positions must follow the bytes consumed
body = b"\x81\x00" + b"\x80\x80\x00" + b"\x05" + b"\xff\xff\xff\xff\xff\xff\xff\xff\xff\x01"
m = R().parse(key(2, 2) + encode_varint(len(body)) + body)
assert m.r_int64 == [1, 0, 5, -1], m.r_int64
m = R().parse(key(6, 2) + encode_varint(len(body)) + body)
assert m.r_sint64 == [-1, 0, -3, -(2**63)], m.r_sint64
m = R().parse(key(7, 2) + encode_varint(len(body)) + body)
assert m.r_bool == [True, False, True, True] and all(type(x) is bool for x in m.r_bool)
m = R().parse(key(3, 2) + encode_varint(len(body)) + body)
assert m.r_uint64 == [] and m.r_uint32 == [1, 0, 5, 2**64 - 1]

# ---------------------------------------------------------------- error paths
def outcome(wire):
    try:
        m = R().parse(wire)
    except Exception as exc:  # noqa: BLE001
        return type(exc).__name__
    return {k: v for k, v in m.to_pydict().items()} or "empty"


def packed(number, body):
    return key(number, 2) + encode_varint(len(body)) + body


# truncated varint at the end of a packed run -> EOFError
for number in (1, 2, 3, 4, 5, 6, 7, 14):
    assert outcome(packed(number, b"\x01\x80")) == "EOFError", number
    assert outcome(packed(number, b"\x80")) == "EOFError", number
    assert outcome(packed(number, b"\x01" + b"\xff" * 9)) == "EOFError", number
    # more than ten bytes -> ValueError
    assert outcome(packed(number, b"\x01" + b"\x80" * 10 + b"\x00")) == "ValueError", number
    assert outcome(packed(number, b"\xff" * 10)) == "ValueError", number
    assert outcome(packed(number, b"\xff" * 11)) == "ValueError", number
    # an empty packed run decodes to no elements
    assert outcome(packed(number, b"")) in ("empty", {}), number
# fixed-width runs whose length is not a multiple of the element width -> struct.error
for number, width in ((8, 4), (10, 4), (12, 4), (9, 8), (11, 8), (13, 8)):
    for extra in range(1, width):
        assert outcome(packed(number, b"\x00" * width + b"\x01" * extra)) == "error", (number, extra)
        assert outcome(packed(number, b"\x01" * extra)) == "error", (number, extra)
    assert outcome(packed(number, b"")) in ("empty", {}), number
    ok = R().parse(packed(number, b"\x00" * width * 3))
    assert len([v for f in ("r_fixed32", "r_sfixed32", "r_float", "r_fixed64", "r_sfixed64", "r_double")
                for v in getattr(ok, f)]) == 3

# ---------------------------------------------------------------- wire type mismatches
ALL_TYPES = ["enum", "bool", "int32", "int64", "uint32", "uint64", "sint32", "sint64", "float", "double",
             "fixed32", "sfixed32", "fixed64", "sfixed64", "string", "bytes", "message", "map"]
NATIVE = {
    0: {"enum", "bool", "int32", "int64", "uint32", "uint64", "sint32", "sint64"},
    5: {"float", "fixed32", "sfixed32"},
    1: {"double", "fixed64", "sfixed64"},
    2: {"string", "bytes", "message", "map"},
}
PACKABLE = set(ALL_TYPES) - {"string", "bytes", "message", "map"}
for wt in range(-1, 9):
    for t in ALL_TYPES + ["nonsense"]:
        for repeated in (False, True):
            expected = t in NATIVE.get(wt, ()) or (wt == 2 and repeated and t in PACKABLE)
            got = _wire_type_matches(wt, t, repeated)
            assert got is expected, (wt, t, repeated, got)

# data arriving with the wrong wire type is preserved as unknown fields
for number, (kind, _) in enumerate(KINDS, start=1):
    native = wt_of(kind)
    for wt, body in ((0, b"\x96\x01"), (5, b"\x01\x02\x03\x04"), (1, b"\x01\x02\x03\x04\x05\x06\x07\x08")):
        if wt == native:
            continue
        wire = key(number, wt) + body
        m = R().parse(wire)
        assert getattr(m, "r_" + kind) == [] and m._unknown_fields == wire, (kind, wt)
        assert bytes(m) == wire
# a length-delimited value on the singular string field, and on field 20 as varint
m = R().parse(key(20, 2) + b"\x02hi")
assert m.s == "hi" and m._unknown_fields == b""
m = R().parse(key(20, 0) + b"\x07")
assert m.s == "" and m._unknown_fields == key(20, 0) + b"\x07"


@dataclass(eq=False, repr=False)
class S(betterproto.Message):
    a: int = betterproto.int32_field(1)
    f: float = betterproto.float_field(2)


# a packed run sent for a *singular* scalar is not decoded as packed
wire = packed(1, b"\x01\x02") + packed(2, b"\x00\x00\x80\x3f")
m = S().parse(wire)
assert m.a == 0 and m.f == 0.0 and m._unknown_fields == wire

# ---------------------------------------------------------------- decode_varint positions
buf = b"".join(encode_varint(v) for v in SAMPLES["uint64"])
pos = 0
out = []
while pos < len(buf):
    v, new = decode_varint(buf, pos)
    assert new - pos == len(encode_varint(v)) == betterproto.size_varint(v)
    out.append(v)
    pos = new
assert out == SAMPLES["uint64"] and pos == len(buf)
assert [f.value for f in parse_fields(packed(4, buf))] == [buf]

print(f"C16 keep1 equiv: OK ({checked} packed round trips)")
