"""Shared part of the C02 equivalence scripts (copied verbatim into each equiv.py).

Schema `All` is defined twice - as hand written betterproto dataclasses and as a
google.protobuf descriptor - and exercised in both directions plus through an
independent spec-level re-encoder."""
import hashlib
import io
import math
import random
import struct
from dataclasses import dataclass
from datetime import datetime, timedelta, timezone
from typing import Dict, List, Optional

import betterproto
from google.protobuf import (
    descriptor_pb2,
    descriptor_pool,
    duration_pb2,
    message_factory,
    timestamp_pb2,
    wrappers_pb2,
)

FD = descriptor_pb2.FieldDescriptorProto
UTC = timezone.utc
EPOCH = datetime(1970, 1, 1, tzinfo=UTC)


# =============================================================== betterproto schema
class Color(betterproto.Enum):
    ZERO = 0
    RED = 1
    BLUE = 2
    NEG = -3
    BIG = 2147483647


@dataclass(eq=False, repr=False)
class Empty(betterproto.Message):
    pass


@dataclass(eq=False, repr=False)
class Inner(betterproto.Message):
    a: int = betterproto.int32_field(1)
    s: str = betterproto.string_field(2)
    r: List[int] = betterproto.sint64_field(3)
    child: "Inner" = betterproto.message_field(4)
    kb: bool = betterproto.bool_field(5, group="k")
    ks: str = betterproto.string_field(6, group="k")


@dataclass(eq=False, repr=False)
class All(betterproto.Message):
    i32: int = betterproto.int32_field(1)
    i64: int = betterproto.int64_field(2)
    u32: int = betterproto.uint32_field(3)
    u64: int = betterproto.uint64_field(4)
    s32: int = betterproto.sint32_field(5)
    s64: int = betterproto.sint64_field(6)
    b: bool = betterproto.bool_field(7)
    e: "Color" = betterproto.enum_field(8)
    fx32: int = betterproto.fixed32_field(9)
    fx64: int = betterproto.fixed64_field(10)
    sfx32: int = betterproto.sfixed32_field(11)
    sfx64: int = betterproto.sfixed64_field(12)
    fl: float = betterproto.float_field(13)
    db: float = betterproto.double_field(14)
    st: str = betterproto.string_field(15)
    by: bytes = betterproto.bytes_field(16)
    msg: "Inner" = betterproto.message_field(17)
    emp: "Empty" = betterproto.message_field(18)

    r_i32: List[int] = betterproto.int32_field(21)
    r_i64: List[int] = betterproto.int64_field(22)
    r_u32: List[int] = betterproto.uint32_field(23)
    r_u64: List[int] = betterproto.uint64_field(24)
    r_s32: List[int] = betterproto.sint32_field(25)
    r_s64: List[int] = betterproto.sint64_field(26)
    r_b: List[bool] = betterproto.bool_field(27)
    r_e: List["Color"] = betterproto.enum_field(28)
    r_fx32: List[int] = betterproto.fixed32_field(29)
    r_fx64: List[int] = betterproto.fixed64_field(30)
    r_sfx32: List[int] = betterproto.sfixed32_field(31)
    r_sfx64: List[int] = betterproto.sfixed64_field(32)
    r_fl: List[float] = betterproto.float_field(33)
    r_db: List[float] = betterproto.double_field(34)
    r_st: List[str] = betterproto.string_field(35)
    r_by: List[bytes] = betterproto.bytes_field(36)
    r_msg: List["Inner"] = betterproto.message_field(37)

    m_si: Dict[str, int] = betterproto.map_field(
        41, betterproto.TYPE_STRING, betterproto.TYPE_INT32
    )
    m_im: Dict[int, "Inner"] = betterproto.map_field(
        42, betterproto.TYPE_INT32, betterproto.TYPE_MESSAGE
    )
    m_be: Dict[bool, "Color"] = betterproto.map_field(
        43, betterproto.TYPE_BOOL, betterproto.TYPE_ENUM
    )
    m_sd: Dict[int, float] = betterproto.map_field(
        44, betterproto.TYPE_SINT64, betterproto.TYPE_DOUBLE
    )
    m_ub: Dict[int, bytes] = betterproto.map_field(
        45, betterproto.TYPE_UINT64, betterproto.TYPE_BYTES
    )
    m_fs: Dict[int, str] = betterproto.map_field(
        46, betterproto.TYPE_FIXED32, betterproto.TYPE_STRING
    )

    o_i: int = betterproto.int32_field(51, group="choice")
    o_s: str = betterproto.string_field(52, group="choice")
    o_m: "Inner" = betterproto.message_field(53, group="choice")
    o_b: bytes = betterproto.bytes_field(54, group="choice")
    o_bool: bool = betterproto.bool_field(55, group="choice")
    o_e: "Color" = betterproto.enum_field(56, group="choice")
    o_d: float = betterproto.double_field(57, group="choice")
    o_emp: "Empty" = betterproto.message_field(58, group="choice")

    opt_i: Optional[int] = betterproto.int32_field(61, optional=True)
    opt_s: Optional[str] = betterproto.string_field(62, optional=True)
    opt_m: Optional["Inner"] = betterproto.message_field(63, optional=True)
    opt_e: Optional["Color"] = betterproto.enum_field(64, optional=True)
    opt_d: Optional[float] = betterproto.double_field(65, optional=True)
    opt_b: Optional[bool] = betterproto.bool_field(66, optional=True)
    opt_by: Optional[bytes] = betterproto.bytes_field(67, optional=True)

    ts: datetime = betterproto.message_field(71)
    du: timedelta = betterproto.message_field(72)
    w_i: Optional[int] = betterproto.message_field(73, wraps=betterproto.TYPE_INT32)
    w_s: Optional[str] = betterproto.message_field(74, wraps=betterproto.TYPE_STRING)
    w_b: Optional[bool] = betterproto.message_field(75, wraps=betterproto.TYPE_BOOL)
    w_d: Optional[float] = betterproto.message_field(76, wraps=betterproto.TYPE_DOUBLE)
    w_u64: Optional[int] = betterproto.message_field(77, wraps=betterproto.TYPE_UINT64)
    w_by: Optional[bytes] = betterproto.message_field(78, wraps=betterproto.TYPE_BYTES)
    w_f: Optional[float] = betterproto.message_field(79, wraps=betterproto.TYPE_FLOAT)
    w_i64: Optional[int] = betterproto.message_field(80, wraps=betterproto.TYPE_INT64)
    w_u32: Optional[int] = betterproto.message_field(81, wraps=betterproto.TYPE_UINT32)
    r_ts: List[datetime] = betterproto.message_field(82)
    r_du: List[timedelta] = betterproto.message_field(83)

    hi: int = betterproto.int32_field(536870911)


# ========================================================== google.protobuf schema
PKG = "c02eq"
fdp = descriptor_pb2.FileDescriptorProto(
    name="c02_equiv.proto",
    package=PKG,
    syntax="proto3",
    dependency=[
        "google/protobuf/timestamp.proto",
        "google/protobuf/duration.proto",
        "google/protobuf/wrappers.proto",
    ],
)
_en = fdp.enum_type.add(name="Color")
for _n, _v in (("ZERO", 0), ("RED", 1), ("BLUE", 2), ("NEG", -3), ("BIG", 2147483647)):
    _en.value.add(name=_n, number=_v)
fdp.message_type.add(name="Empty")

SCALAR = {
    "i32": FD.TYPE_INT32,
    "i64": FD.TYPE_INT64,
    "u32": FD.TYPE_UINT32,
    "u64": FD.TYPE_UINT64,
    "s32": FD.TYPE_SINT32,
    "s64": FD.TYPE_SINT64,
    "b": FD.TYPE_BOOL,
    "e": FD.TYPE_ENUM,
    "fx32": FD.TYPE_FIXED32,
    "fx64": FD.TYPE_FIXED64,
    "sfx32": FD.TYPE_SFIXED32,
    "sfx64": FD.TYPE_SFIXED64,
    "fl": FD.TYPE_FLOAT,
    "db": FD.TYPE_DOUBLE,
    "st": FD.TYPE_STRING,
    "by": FD.TYPE_BYTES,
}
MSG_TYPES = {
    "Inner": f".{PKG}.Inner",
    "Empty": f".{PKG}.Empty",
    "Timestamp": ".google.protobuf.Timestamp",
    "Duration": ".google.protobuf.Duration",
}


def _add(msg, name, number, ftype, *, repeated=False, type_name=None, oneof=None, opt=False):
    f = msg.field.add(
        name=name,
        number=number,
        type=ftype,
        label=FD.LABEL_REPEATED if repeated else FD.LABEL_OPTIONAL,
    )
    if ftype == FD.TYPE_ENUM:
        f.type_name = f".{PKG}.Color"
    elif type_name:
        f.type_name = type_name
    if oneof is not None:
        f.oneof_index = oneof
    if opt:
        f.proto3_optional = True
    return f


_inner = fdp.message_type.add(name="Inner")
_inner.oneof_decl.add(name="k")
_add(_inner, "a", 1, FD.TYPE_INT32)
_add(_inner, "s", 2, FD.TYPE_STRING)
_add(_inner, "r", 3, FD.TYPE_SINT64, repeated=True)
_add(_inner, "child", 4, FD.TYPE_MESSAGE, type_name=MSG_TYPES["Inner"])
_add(_inner, "kb", 5, FD.TYPE_BOOL, oneof=0)
_add(_inner, "ks", 6, FD.TYPE_STRING, oneof=0)

_all = fdp.message_type.add(name="All")
for _i, (_n, _t) in enumerate(SCALAR.items()):
    _add(_all, _n, 1 + _i, _t)
_add(_all, "msg", 17, FD.TYPE_MESSAGE, type_name=MSG_TYPES["Inner"])
_add(_all, "emp", 18, FD.TYPE_MESSAGE, type_name=MSG_TYPES["Empty"])
for _i, (_n, _t) in enumerate(SCALAR.items()):
    _add(_all, "r_" + _n, 21 + _i, _t, repeated=True)
_add(_all, "r_msg", 37, FD.TYPE_MESSAGE, repeated=True, type_name=MSG_TYPES["Inner"])


def _map(msg, name, number, ktype, vtype, vtype_name=None):
    entry = msg.nested_type.add(name="".join(p.capitalize() for p in name.split("_")) + "Entry")
    entry.options.map_entry = True
    _add(entry, "key", 1, ktype)
    _add(entry, "value", 2, vtype, type_name=vtype_name)
    _add(msg, name, number, FD.TYPE_MESSAGE, repeated=True, type_name=f".{PKG}.All.{entry.name}")


_map(_all, "m_si", 41, FD.TYPE_STRING, FD.TYPE_INT32)
_map(_all, "m_im", 42, FD.TYPE_INT32, FD.TYPE_MESSAGE, MSG_TYPES["Inner"])
_map(_all, "m_be", 43, FD.TYPE_BOOL, FD.TYPE_ENUM)
_map(_all, "m_sd", 44, FD.TYPE_SINT64, FD.TYPE_DOUBLE)
_map(_all, "m_ub", 45, FD.TYPE_UINT64, FD.TYPE_BYTES)
_map(_all, "m_fs", 46, FD.TYPE_FIXED32, FD.TYPE_STRING)

_all.oneof_decl.add(name="choice")
_add(_all, "o_i", 51, FD.TYPE_INT32, oneof=0)
_add(_all, "o_s", 52, FD.TYPE_STRING, oneof=0)
_add(_all, "o_m", 53, FD.TYPE_MESSAGE, type_name=MSG_TYPES["Inner"], oneof=0)
_add(_all, "o_b", 54, FD.TYPE_BYTES, oneof=0)
_add(_all, "o_bool", 55, FD.TYPE_BOOL, oneof=0)
_add(_all, "o_e", 56, FD.TYPE_ENUM, oneof=0)
_add(_all, "o_d", 57, FD.TYPE_DOUBLE, oneof=0)
_add(_all, "o_emp", 58, FD.TYPE_MESSAGE, type_name=MSG_TYPES["Empty"], oneof=0)

OPTIONALS = (
    ("opt_i", 61, FD.TYPE_INT32, None),
    ("opt_s", 62, FD.TYPE_STRING, None),
    ("opt_m", 63, FD.TYPE_MESSAGE, MSG_TYPES["Inner"]),
    ("opt_e", 64, FD.TYPE_ENUM, None),
    ("opt_d", 65, FD.TYPE_DOUBLE, None),
    ("opt_b", 66, FD.TYPE_BOOL, None),
    ("opt_by", 67, FD.TYPE_BYTES, None),
)
for _i, (_n, _num, _t, _tn) in enumerate(OPTIONALS):
    _all.oneof_decl.add(name="_" + _n)  # synthetic oneofs come after the real ones
    _add(_all, _n, _num, _t, type_name=_tn, oneof=1 + _i, opt=True)

_add(_all, "ts", 71, FD.TYPE_MESSAGE, type_name=MSG_TYPES["Timestamp"])
_add(_all, "du", 72, FD.TYPE_MESSAGE, type_name=MSG_TYPES["Duration"])
WRAPPERS = (
    ("w_i", 73, "Int32Value"),
    ("w_s", 74, "StringValue"),
    ("w_b", 75, "BoolValue"),
    ("w_d", 76, "DoubleValue"),
    ("w_u64", 77, "UInt64Value"),
    ("w_by", 78, "BytesValue"),
    ("w_f", 79, "FloatValue"),
    ("w_i64", 80, "Int64Value"),
    ("w_u32", 81, "UInt32Value"),
)
for _n, _num, _tn in WRAPPERS:
    _add(_all, _n, _num, FD.TYPE_MESSAGE, type_name=".google.protobuf." + _tn)
_add(_all, "r_ts", 82, FD.TYPE_MESSAGE, repeated=True, type_name=MSG_TYPES["Timestamp"])
_add(_all, "r_du", 83, FD.TYPE_MESSAGE, repeated=True, type_name=MSG_TYPES["Duration"])
_add(_all, "hi", 536870911, FD.TYPE_INT32)

_pool = descriptor_pool.DescriptorPool()
for _dep in (timestamp_pb2, duration_pb2, wrappers_pb2):
    _pool.AddSerializedFile(_dep.DESCRIPTOR.serialized_pb)
_pool.Add(fdp)
RefAll = message_factory.GetMessageClass(_pool.FindMessageTypeByName(f"{PKG}.All"))
RefInner = message_factory.GetMessageClass(_pool.FindMessageTypeByName(f"{PKG}.Inner"))


# =================================================================== value domains
I32 = [0, 1, -1, 127, 128, 300, 16383, 16384, 2**31 - 1, -(2**31), -(2**31) + 1, 2**30]
I64 = I32 + [2**31, -(2**31) - 1, 2**63 - 1, -(2**63), -(2**63) + 1, 2**62, 2**56 - 1, 2**56]
U32 = [0, 1, 127, 128, 2**31 - 1, 2**31, 2**32 - 1]
U64 = U32 + [2**32, 2**63 - 1, 2**63, 2**64 - 1, 2**49]
F32 = [0.0, 1.0, -1.0, 0.5, 1.5, -2.25, 3.4028234663852886e38, 1.401298464324817e-45,
       float("inf"), float("-inf"), 16777216.0, -0.0, float("nan")]
F64 = F32 + [0.1, -1e300, 5e-324, 1.7976931348623157e308, 2.0**53 + 2]
STR = ["", "a", "hello", "zażółć gęślą jaźń", "☃\U0001f600", "x" * 127, "y" * 128,
       "z" * 300, "nul\x00in"]
BYT = [b"", b"\x00", b"abc", bytes(range(256)), b"\xff" * 127, b"\x80" * 128, b"\n\x00"]
ENUMS = [0, 1, 2, -3, 2147483647, 7, -1, -(2**31)]  # incl. numbers without a name
DT = [
    datetime(1970, 1, 1, 0, 0, 1, tzinfo=UTC),
    datetime(2024, 2, 29, 12, 30, 15, 123456, tzinfo=UTC),
    datetime(1969, 12, 31, 23, 59, 59, 999999, tzinfo=UTC),
    datetime(1, 1, 1, tzinfo=UTC),
    datetime(9999, 12, 31, 23, 59, 59, 999999, tzinfo=UTC),
    datetime(1900, 5, 6, 7, 8, 9, 1, tzinfo=UTC),
    datetime(2038, 1, 19, 3, 14, 8, tzinfo=UTC),
    datetime(1970, 1, 1, 0, 0, 0, 1, tzinfo=UTC),
]
TD = [
    timedelta(seconds=1),
    timedelta(microseconds=1),
    timedelta(microseconds=-1),
    timedelta(seconds=-1, microseconds=-500000),
    timedelta(days=3650000, seconds=86399, microseconds=999999),
    timedelta(days=-3650000, microseconds=-7),
    timedelta(seconds=2**38, microseconds=999999),
    timedelta(milliseconds=-1500),
]

DOMAIN = {
    FD.TYPE_INT32: I32, FD.TYPE_INT64: I64, FD.TYPE_UINT32: U32, FD.TYPE_UINT64: U64,
    FD.TYPE_SINT32: I32, FD.TYPE_SINT64: I64, FD.TYPE_BOOL: [False, True],
    FD.TYPE_ENUM: ENUMS, FD.TYPE_FIXED32: U32, FD.TYPE_FIXED64: U64,
    FD.TYPE_SFIXED32: I32, FD.TYPE_SFIXED64: I64, FD.TYPE_FLOAT: F32,
    FD.TYPE_DOUBLE: F64, FD.TYPE_STRING: STR, FD.TYPE_BYTES: BYT,
}
MAPS = {  # name -> (key type, value type)
    "m_si": (FD.TYPE_STRING, FD.TYPE_INT32), "m_im": (FD.TYPE_INT32, "Inner"),
    "m_be": (FD.TYPE_BOOL, FD.TYPE_ENUM), "m_sd": (FD.TYPE_SINT64, FD.TYPE_DOUBLE),
    "m_ub": (FD.TYPE_UINT64, FD.TYPE_BYTES), "m_fs": (FD.TYPE_FIXED32, FD.TYPE_STRING),
}
ONEOF = {  # member -> type
    "o_i": FD.TYPE_INT32, "o_s": FD.TYPE_STRING, "o_m": "Inner", "o_b": FD.TYPE_BYTES,
    "o_bool": FD.TYPE_BOOL, "o_e": FD.TYPE_ENUM, "o_d": FD.TYPE_DOUBLE, "o_emp": "Empty",
}
WRAP_TYPE = {
    "w_i": FD.TYPE_INT32, "w_s": FD.TYPE_STRING, "w_b": FD.TYPE_BOOL, "w_d": FD.TYPE_DOUBLE,
    "w_u64": FD.TYPE_UINT64, "w_by": FD.TYPE_BYTES, "w_f": FD.TYPE_FLOAT,
    "w_i64": FD.TYPE_INT64, "w_u32": FD.TYPE_UINT32,
}


def pick(rng, ftype, *, implicit=False):
    while True:
        v = rng.choice(DOMAIN[ftype])
        # An implicit-presence float equal to zero is "not set": betterproto does
        # not write -0.0 there, so that value is kept out of such fields.
        if not (implicit and isinstance(v, float) and v == 0 and math.copysign(1, v) < 0):
            return v


# A "plan" is a plain-Python description of a message; it is applied to both
# implementations so that neither is derived from the other.
def inner_plan(rng, depth=0):
    plan = {}
    if rng.random() < 0.6:
        plan["a"] = pick(rng, FD.TYPE_INT32)
    if rng.random() < 0.5:
        plan["s"] = pick(rng, FD.TYPE_STRING)
    if rng.random() < 0.5:
        plan["r"] = [pick(rng, FD.TYPE_SINT64) for _ in range(rng.randint(1, 4))]
    if depth < 3 and rng.random() < 0.35:
        plan["child"] = inner_plan(rng, depth + 1)
    k = rng.random()
    if k < 0.25:
        plan["kb"] = rng.random() < 0.5
    elif k < 0.5:
        plan["ks"] = pick(rng, FD.TYPE_STRING)
    return plan


def all_plan(rng, density=0.35):
    plan = {}
    for name, ftype in SCALAR.items():
        if rng.random() < density:
            plan[name] = pick(rng, ftype, implicit=True)
        if rng.random() < density:
            plan["r_" + name] = [pick(rng, ftype) for _ in range(rng.randint(1, 5))]
    if rng.random() < density:
        plan["msg"] = inner_plan(rng)
    if rng.random() < density:
        plan["emp"] = {}
    if rng.random() < density:
        plan["r_msg"] = [inner_plan(rng) for _ in range(rng.randint(1, 3))]
    for name, (kt, vt) in MAPS.items():
        if rng.random() < density:
            entries = {}
            for _ in range(rng.randint(1, 4)):
                key = pick(rng, kt)
                entries[key] = inner_plan(rng) if vt == "Inner" else pick(rng, vt)
            plan[name] = entries
    if rng.random() < 0.7:
        member = rng.choice(sorted(ONEOF))
        t = ONEOF[member]
        plan[member] = inner_plan(rng) if t == "Inner" else {} if t == "Empty" else pick(rng, t)
    for name, _num, t, _tn in OPTIONALS:
        if rng.random() < density:
            plan[name] = inner_plan(rng) if t == FD.TYPE_MESSAGE else pick(rng, t)
    if rng.random() < density:
        plan["ts"] = rng.choice(DT)
    if rng.random() < density:
        plan["du"] = rng.choice(TD)
    for name, t in WRAP_TYPE.items():
        if rng.random() < density:
            plan[name] = pick(rng, t, implicit=True)  # `value` inside the wrapper
    if rng.random() < density:
        plan["r_ts"] = [rng.choice(DT + [EPOCH]) for _ in range(rng.randint(1, 3))]
    if rng.random() < density:
        plan["r_du"] = [rng.choice(TD + [timedelta(0)]) for _ in range(rng.randint(1, 3))]
    if rng.random() < density:
        plan["hi"] = pick(rng, FD.TYPE_INT32)
    return plan


def build_bp_inner(plan):
    m = Inner()
    for name, v in plan.items():
        if name == "child":
            m.child = build_bp_inner(v)
        elif name == "r":
            m.r = list(v)
        else:
            setattr(m, name, v)
    return m


def build_bp(plan):
    m = All()
    for name, v in plan.items():
        if name in ("msg", "o_m", "opt_m"):
            setattr(m, name, build_bp_inner(v))
        elif name in ("emp", "o_emp"):
            setattr(m, name, Empty())
        elif name == "r_msg":
            m.r_msg = [build_bp_inner(p) for p in v]
        elif name == "m_im":
            m.m_im = {k: build_bp_inner(p) for k, p in v.items()}
        elif name in ("e", "o_e", "opt_e"):
            setattr(m, name, Color.try_value(v))
        elif name == "r_e":
            m.r_e = [Color.try_value(x) for x in v]
        elif name == "m_be":
            m.m_be = {k: Color.try_value(x) for k, x in v.items()}
        elif isinstance(v, list):
            setattr(m, name, list(v))
        elif isinstance(v, dict):
            setattr(m, name, dict(v))
        else:
            setattr(m, name, v)
    return m


def fill_ref_inner(m, plan):
    for name, v in plan.items():
        if name == "child":
            fill_ref_inner(m.child, v)
            m.child.SetInParent()
        elif name == "r":
            m.r.extend(v)
        else:
            setattr(m, name, v)


def build_ref(plan):
    m = RefAll()
    for name, v in plan.items():
        if name in ("msg", "o_m", "opt_m"):
            sub = getattr(m, name)
            sub.SetInParent()
            fill_ref_inner(sub, v)
        elif name in ("emp", "o_emp"):
            getattr(m, name).SetInParent()
        elif name == "r_msg":
            for p in v:
                fill_ref_inner(m.r_msg.add(), p)
        elif name == "m_im":
            for k, p in v.items():
                m.m_im[k].SetInParent()
                fill_ref_inner(m.m_im[k], p)
        elif name == "ts":
            m.ts.FromDatetime(v)
        elif name == "du":
            m.du.FromTimedelta(v)
        elif name == "r_ts":
            for x in v:
                m.r_ts.add().FromDatetime(x)
        elif name == "r_du":
            for x in v:
                m.r_du.add().FromTimedelta(x)
        elif name in WRAP_TYPE:
            getattr(m, name).value = v
            getattr(m, name).SetInParent()
        elif isinstance(v, list):
            getattr(m, name).extend(v)
        elif isinstance(v, dict):
            for k, x in v.items():
                getattr(m, name)[k] = x
        else:
            setattr(m, name, v)
    return m


# ===================================================================== comparison
def same_float(x, y, what):
    if isinstance(y, float) and math.isnan(y):
        assert isinstance(x, float) and math.isnan(x), what
    else:
        assert x == y and type(x) is type(y), (what, x, y)
        if isinstance(y, float):
            assert math.copysign(1.0, x) == math.copysign(1.0, y), (what, x, y)


def same_scalar(bp_value, ref_value, what):
    if isinstance(ref_value, float):
        same_float(bp_value, ref_value, what)
    elif isinstance(ref_value, bool):
        assert bp_value is ref_value, (what, bp_value, ref_value)
    else:
        assert bp_value == ref_value, (what, bp_value, ref_value)
        if isinstance(ref_value, int):
            assert isinstance(bp_value, int) and not isinstance(bp_value, bool), what


def same_inner(bp: Inner, ref, what):
    same_scalar(bp.a, ref.a, what + ".a")
    same_scalar(bp.s, ref.s, what + ".s")
    assert list(bp.r) == list(ref.r), (what + ".r", bp.r, list(ref.r))
    assert bp.is_set("child") == ref.HasField("child"), what + ".child presence"
    if ref.HasField("child"):
        same_inner(bp.child, ref.child, what + ".child")
    member = betterproto.which_one_of(bp, "k")[0]
    assert member == (ref.WhichOneof("k") or ""), (what + ".k", member)
    if member:
        same_scalar(getattr(bp, member), getattr(ref, member), what + "." + member)


def same_all(bp: All, ref, what="All"):
    for name in SCALAR:
        same_scalar(getattr(bp, name), getattr(ref, name), f"{what}.{name}")
        got, want = list(getattr(bp, "r_" + name)), list(getattr(ref, "r_" + name))
        assert len(got) == len(want), (f"{what}.r_{name}", got, want)
        for i, (x, y) in enumerate(zip(got, want)):
            same_scalar(x, y, f"{what}.r_{name}[{i}]")
    if isinstance(bp.e, int):
        assert isinstance(bp.e, Color)
    same_scalar(bp.hi, ref.hi, what + ".hi")
    for name in ("msg", "emp", "opt_m"):
        if name == "opt_m":
            present = bp.opt_m is not None
        else:
            present = bp.is_set(name)
        assert present == ref.HasField(name), (f"{what}.{name} presence", present)
    if ref.HasField("msg"):
        same_inner(bp.msg, ref.msg, what + ".msg")
    if ref.HasField("opt_m"):
        same_inner(bp.opt_m, ref.opt_m, what + ".opt_m")
    assert len(bp.r_msg) == len(ref.r_msg), what + ".r_msg"
    for i, (x, y) in enumerate(zip(bp.r_msg, ref.r_msg)):
        same_inner(x, y, f"{what}.r_msg[{i}]")
    for name, (_kt, vt) in MAPS.items():
        got, want = getattr(bp, name), getattr(ref, name)
        assert sorted(got, key=repr) == sorted(want, key=repr), (f"{what}.{name} keys", got)
        for key in want:
            assert type(key) is type(next(k for k in got if k == key)), (name, key)
            if vt == "Inner":
                same_inner(got[key], want[key], f"{what}.{name}[{key!r}]")
            else:
                same_scalar(got[key], want[key], f"{what}.{name}[{key!r}]")
    member = betterproto.which_one_of(bp, "choice")[0]
    assert member == (ref.WhichOneof("choice") or ""), (what + ".choice", member)
    if member == "o_m":
        same_inner(bp.o_m, ref.o_m, what + ".o_m")
    elif member and member != "o_emp":
        same_scalar(getattr(bp, member), getattr(ref, member), f"{what}.{member}")
    for name, _num, t, _tn in OPTIONALS:
        if t == FD.TYPE_MESSAGE:
            continue
        value = getattr(bp, name)
        assert (value is not None) == ref.HasField(name), (f"{what}.{name} presence", value)
        if value is not None:
            same_scalar(value, getattr(ref, name), f"{what}.{name}")
    # Timestamp / Duration: betterproto cannot tell "unset" from the zero value,
    # so presence is only compared for non-zero values.
    if ref.HasField("ts"):
        assert bp.ts == ref.ts.ToDatetime(tzinfo=UTC), (what + ".ts", bp.ts)
    else:
        assert bp.ts == EPOCH, (what + ".ts", bp.ts)
    if ref.HasField("du"):
        assert bp.du == ref.du.ToTimedelta(), (what + ".du", bp.du)
    else:
        assert bp.du == timedelta(0), (what + ".du", bp.du)
    assert list(bp.r_ts) == [x.ToDatetime(tzinfo=UTC) for x in ref.r_ts], what + ".r_ts"
    assert list(bp.r_du) == [x.ToTimedelta() for x in ref.r_du], what + ".r_du"
    for name in WRAP_TYPE:
        value = getattr(bp, name)
        assert (value is not None) == ref.HasField(name), (f"{what}.{name} presence", value)
        if value is not None:
            same_scalar(value, getattr(ref, name).value, f"{what}.{name}")


# ========================================== independent spec-level wire re-encoder
def rd_varint(buf, pos):
    shift = value = 0
    while True:
        byte = buf[pos]
        pos += 1
        value |= (byte & 0x7F) << shift
        shift += 7
        if byte < 0x80:
            return value, pos


def wr_varint(value, rng=None, limit=10):
    out = bytearray()
    while value > 0x7F:
        out.append(0x80 | (value & 0x7F))
        value >>= 7
    out.append(value)
    if rng is not None and rng.random() < 0.3 and len(out) < limit:
        # non-minimal encoding: extra continuation bytes carrying zero bits
        # (tags and lengths are 32-bit varints: at most 5 bytes; values: 10)
        extra = rng.randint(1, limit - len(out))
        out[-1] |= 0x80
        out += b"\x80" * (extra - 1) + b"\x00"
    return bytes(out)


def split_records(buf):
    pos, out = 0, []
    while pos < len(buf):
        key, pos = rd_varint(buf, pos)
        number, wire = key >> 3, key & 7
        if wire == 0:
            payload, pos = rd_varint(buf, pos)
        elif wire == 1:
            payload, pos = buf[pos : pos + 8], pos + 8
        elif wire == 5:
            payload, pos = buf[pos : pos + 4], pos + 4
        else:
            assert wire == 2, wire
            size, pos = rd_varint(buf, pos)
            payload, pos = buf[pos : pos + size], pos + size
        out.append((number, wire, payload))
    assert pos == len(buf)
    return out


def emit(number, wire, payload, rng=None):
    key = wr_varint(number << 3 | wire, rng, 5)
    if wire == 0:
        return key + wr_varint(payload, rng)
    if wire == 2:
        return key + wr_varint(len(payload), rng, 5) + payload
    return key + payload


VARINT_TYPES = (FD.TYPE_INT32, FD.TYPE_INT64, FD.TYPE_UINT32, FD.TYPE_UINT64, FD.TYPE_SINT32,
                FD.TYPE_SINT64, FD.TYPE_BOOL, FD.TYPE_ENUM)
FIX32 = (FD.TYPE_FIXED32, FD.TYPE_SFIXED32, FD.TYPE_FLOAT)
FIX64 = (FD.TYPE_FIXED64, FD.TYPE_SFIXED64, FD.TYPE_DOUBLE)


def element_wire(ftype):
    return 0 if ftype in VARINT_TYPES else 5 if ftype in FIX32 else 1 if ftype in FIX64 else 2


def junk_record(rng, desc):
    """A record of a field number the schema does not know."""
    used = {f.number for f in desc.fields}
    while True:
        number = rng.choice([90, 99, 1000, 12345, 2**20 + 1, 2**29 - 2, rng.randint(100, 500)])
        if number not in used:
            break
    wire = rng.choice([0, 1, 2, 5])
    payload = {
        0: rng.choice([0, 1, 2**64 - 1, 300]),
        1: bytes(rng.randrange(256) for _ in range(8)),
        5: bytes(rng.randrange(256) for _ in range(4)),
        2: bytes(rng.randrange(256) for _ in range(rng.choice([0, 1, 5, 130]))),
    }[wire]
    return number, wire, payload


def decoy(rng, field):
    """Some other value of the field's type (wire payload), to be overridden later."""
    wire = element_wire(field.type)
    if wire == 0:
        return 0, rng.choice([0, 1, 5, 2**64 - 1, 2**31])
    if wire == 5:
        return 5, bytes(rng.randrange(256) for _ in range(4))
    if wire == 1:
        return 1, bytes(rng.randrange(256) for _ in range(8))
    if field.type == FD.TYPE_MESSAGE:
        return 2, b""
    return 2, rng.choice([b"", b"decoy", b"abc" * 50])


def reencode(buf, desc, rng, *, is_entry=False):
    """Another legal encoding of the same message: records permuted, packed runs
    unpacked / cut into chunks, varints padded, singular scalars and oneof members
    preceded by overridden occurrences, unknown fields interleaved; recursively."""
    by_number = {f.number: f for f in desc.fields}
    groups = []  # list of lists of encoded records; order inside a group is kept
    group_of = {}
    for number, wire, payload in split_records(buf):
        field = by_number[number]
        oneof = field.containing_oneof
        key = ("oneof", oneof.name) if oneof is not None else ("field", number)
        if key not in group_of:
            group_of[key] = []
            groups.append(group_of[key])
        bucket = group_of[key]
        repeated = field.is_repeated
        if field.type == FD.TYPE_MESSAGE and wire == 2:
            sub = field.message_type
            payload = reencode(
                payload, sub, rng, is_entry=sub.GetOptions().map_entry
            )
            if not repeated and not is_entry and not bucket and rng.random() < 0.3:
                # an earlier, overridden member of the same oneof (never the same
                # message field twice: that would be merged, not replaced)
                others = [f for f in (oneof.fields if oneof is not None else []) if f is not field]
                if others:
                    other = rng.choice(others)
                    w, p = decoy(rng, other)
                    bucket.append(emit(other.number, w, p, rng))
            bucket.append(emit(number, 2, payload, rng))
        elif repeated and wire == 2 and element_wire(field.type) != 2:
            # a packed run: split it into elements, then regroup
            ew, items, pos = element_wire(field.type), [], 0
            while pos < len(payload):
                if ew == 0:
                    v, pos = rd_varint(payload, pos)
                    items.append(v)
                else:
                    width = 4 if ew == 5 else 8
                    items.append(payload[pos : pos + width])
                    pos += width
            if not items:
                bucket.append(emit(number, 2, b"", rng))
            while items:
                take = rng.randint(1, len(items))
                chunk, items = items[:take], items[take:]
                if rng.random() < 0.5:
                    body = b"".join(wr_varint(x, rng) if ew == 0 else x for x in chunk)
                    bucket.append(emit(number, 2, body, rng))
                else:
                    bucket.extend(emit(number, ew, x, rng) for x in chunk)
                if rng.random() < 0.1:
                    bucket.append(emit(number, 2, b"", rng))  # an empty chunk
        else:
            if not repeated and not bucket and rng.random() < 0.3:
                # duplicate occurrence(s) before the real one: last one wins
                candidates = [field] if oneof is None else list(oneof.fields)
                for _ in range(rng.randint(1, 2)):
                    other = rng.choice(candidates)
                    if other.type == FD.TYPE_MESSAGE and other is field:
                        continue
                    w, p = decoy(rng, other)
                    bucket.append(emit(other.number, w, p, rng))
            bucket.append(emit(number, wire, payload, rng))
    if not is_entry:
        for _ in range(rng.choice([0, 0, 1, 2, 3])):
            groups.append([emit(*junk_record(rng, desc), rng)])
    # permutation that keeps the order inside every group
    slots = [i for i, g in enumerate(groups) for _ in g]
    rng.shuffle(slots)
    cursors = [0] * len(groups)
    out = bytearray()
    for i in slots:
        out += groups[i][cursors[i]]
        cursors[i] += 1
    return bytes(out)


def canon(value):
    """Order independent, type aware text form of a betterproto value (for digests)."""
    if isinstance(value, betterproto.Message):
        parts = []
        for name in value._betterproto.meta_by_field_name:
            v = object.__getattribute__(value, name)  # raw: no default is created
            if v is not betterproto.PLACEHOLDER:
                parts.append(f"{name}={canon(v)}")
        parts.append(f"current={sorted(value._group_current.items())}")
        flags = f"|sow={value._serialized_on_wire}|unk={value._unknown_fields.hex()}"
        return f"{type(value).__name__}({','.join(parts)}{flags})"
    if isinstance(value, dict):
        return "{" + ",".join(sorted(f"{canon(k)}:{canon(v)}" for k, v in value.items())) + "}"
    if isinstance(value, list):
        return "[" + ",".join(canon(v) for v in value) + "]"
    if isinstance(value, float):
        return "f" + struct.pack("<d", value).hex() if not math.isnan(value) else "fnan"
    return f"{type(value).__name__}:{value!r}"


# ============================================================================ main
# (keep1: Message.dump / Message.__len__ share the field selection generator)
import copy

DIGEST = hashlib.sha256()
GOLDEN = "cb494cabd521d46a52e6c88fda5a4dfffe99ab944544358bd4161ea8ca2211be"


def note(*chunks):
    for chunk in chunks:
        if isinstance(chunk, str):
            chunk = chunk.encode()
        DIGEST.update(len(chunk).to_bytes(4, "little") + chunk)


def wire(m):
    """bytes(m), cross-checked against every other way of serialising."""
    data = bytes(m)
    assert isinstance(data, bytes)
    assert len(m) == len(data), (len(m), len(data))
    assert m.SerializeToString() == data
    buf = io.BytesIO()
    m.dump(buf)
    assert buf.getvalue() == data
    buf = io.BytesIO()
    m.dump(buf, betterproto.SIZE_DELIMITED)
    assert buf.getvalue() == wr_varint(len(data)) + data
    assert bytes(m) == data  # serialising does not change the message
    note(data)
    return data


def random_part():
    rng = random.Random(0xC02)
    for i in range(320):
        plan = all_plan(rng, density=rng.choice([0.05, 0.2, 0.4, 0.85]))
        # betterproto -> reference
        bp = build_bp(plan)
        data = wire(bp)
        same_all(bp, RefAll.FromString(data), f"enc#{i}")
        again = All().parse(data)
        assert wire(again) == data, f"enc#{i}: not stable under parse/serialise"
        assert wire(copy.deepcopy(bp)) == data and wire(copy.copy(bp)) == data
        # reference -> betterproto -> reference
        ref = build_ref(plan)
        data2 = ref.SerializeToString(deterministic=True)
        bp2 = All().parse(data2)
        same_all(bp2, ref, f"dec#{i}")
        same_all(bp2, RefAll.FromString(wire(bp2)), f"dec-enc#{i}")
        # other legal encodings (unknown fields are kept and written back)
        for j in range(2):
            other = reencode(data2, RefAll.DESCRIPTOR, rng)
            bp3 = All().parse(other)
            back = RefAll.FromString(wire(bp3))
            same_all(bp3, back, f"re#{i}.{j}")
            same_all(bp3, RefAll.FromString(other), f"re-ref#{i}.{j}")
        # nested messages on their own
        if "msg" in plan:
            inner = build_bp_inner(plan["msg"])
            same_inner(inner, RefInner.FromString(wire(inner)), f"inner#{i}")


def ref_of(m):
    return RefAll.FromString(wire(m))


def sequence_part():
    # nothing set
    m = All()
    assert wire(m) == b""
    # explicit zero values of implicit-presence fields are not written
    m = All()
    for name, ftype in SCALAR.items():
        setattr(m, name, Color.ZERO if name == "e" else type(DOMAIN[ftype][0])())
        setattr(m, "r_" + name, [])
    m.m_si = {}
    m.hi = 0
    assert wire(m) == b""
    # merely reading fields does not set them
    m = All()
    for name in m._betterproto.meta_by_field_name:
        try:
            getattr(m, name)
        except AttributeError:
            pass
    assert wire(m) == b""

    # every oneof member with its zero value, and with a non-zero value
    zero = {"o_i": 0, "o_s": "", "o_b": b"", "o_bool": False, "o_e": Color.ZERO, "o_d": 0.0}
    nonzero = {"o_i": -7, "o_s": "x", "o_b": b"\x00", "o_bool": True, "o_e": Color.NEG, "o_d": -0.0}
    for values in (zero, nonzero):
        for name, value in values.items():
            m = All()
            setattr(m, name, value)
            r = ref_of(m)
            assert r.WhichOneof("choice") == name
            same_all(m, r, name)
            assert len(wire(m)) >= 3
    for name, value in (("o_m", Inner()), ("o_emp", Empty()), ("o_m", Inner(a=0)), ("o_m", Inner(ks=""))):
        m = All()
        setattr(m, name, value)
        r = ref_of(m)
        assert r.WhichOneof("choice") == name
        same_all(m, r, name)
    # switching members: only the last one is written
    m = All()
    for name in ("o_i", "o_s", "o_m", "o_i", "o_emp", "o_d", "o_s"):
        setattr(m, name, {"o_i": 5, "o_s": "", "o_m": Inner(a=1), "o_emp": Empty(), "o_d": 1.5}[name])
        r = ref_of(m)
        assert r.WhichOneof("choice") == name
        same_all(m, r, "switch " + name)
    # constructor
    m = All(o_s="", i32=0, st="s", opt_i=0, w_b=False)
    r = ref_of(m)
    assert r.WhichOneof("choice") == "o_s" and r.HasField("opt_i") and r.HasField("w_b")
    same_all(m, r, "ctor")
    # oneof inside a nested message
    for kwargs in ({"kb": False}, {"ks": ""}, {"kb": True}, {"ks": "k"}):
        m = All(msg=Inner(**kwargs))
        r = ref_of(m)
        assert r.HasField("msg") and r.msg.WhichOneof("k") == next(iter(kwargs))
        same_all(m, r, "inner oneof")

    # proto3 optional: zero values are written, None is not, and None again removes
    zero = {"opt_i": 0, "opt_s": "", "opt_e": Color.ZERO, "opt_d": 0.0, "opt_b": False,
            "opt_by": b"", "opt_m": Inner()}
    m = All()
    for name, value in zero.items():
        setattr(m, name, value)
        r = ref_of(m)
        assert r.HasField(name)
        same_all(m, r, name)
    for name in zero:
        setattr(m, name, None)
        r = ref_of(m)
        assert not r.HasField(name)
        same_all(m, r, name + "=None")
    assert wire(m) == b""

    # wrappers: zero values are present
    zero = {"w_i": 0, "w_s": "", "w_b": False, "w_d": 0.0, "w_u64": 0, "w_by": b"", "w_f": 0.0,
            "w_i64": 0, "w_u32": 0}
    m = All()
    for name, value in zero.items():
        setattr(m, name, value)
        r = ref_of(m)
        assert r.HasField(name)
        same_all(m, r, name)
    for name in zero:
        setattr(m, name, None)
    assert wire(m) == b""

    # sub-messages: assigned unset / assigned set / filled in place / emptied in place
    m = All()
    m.msg = Inner()
    assert wire(m) == b"" and not ref_of(m).HasField("msg")
    m.msg = Inner(a=0)
    assert ref_of(m).HasField("msg")
    same_all(m, ref_of(m), "msg=Inner(a=0)")
    m = All()
    m.msg.a = 5
    assert ref_of(m).msg.a == 5
    m.msg.a = 0
    assert ref_of(m).HasField("msg") and wire(m) == bytes.fromhex("8a0100")
    same_all(m, ref_of(m), "msg emptied in place")
    m = All()
    m.msg.child.child.r.append(-1)
    r = ref_of(m)
    assert list(r.msg.child.child.r) == [-1]
    same_all(m, r, "deep in place")
    m = All()
    m.emp = Empty()
    assert ref_of(m).HasField("emp") and wire(m) == bytes.fromhex("920100")
    m = All()
    m.msg = Inner(child=Inner(child=Inner(s="")))
    same_all(m, ref_of(m), "nested ctor")

    # containers with zero-valued content
    m = All()
    m.r_st = ["", "", "x", ""]
    m.r_by = [b"", b"\x00", b""]
    m.r_msg = [Inner(), Inner(a=1), Inner()]
    m.r_i32 = [0]
    m.r_b = [False, False]
    m.r_db = [0.0, -0.0]
    m.r_e = [Color.ZERO]
    m.r_ts = [EPOCH, DT[1], EPOCH]
    m.r_du = [timedelta(0), TD[3]]
    m.m_si = {"": 0, "a": 0, "b": 1}
    m.m_im = {0: Inner(), 1: Inner(a=0), -1: Inner(s="x")}
    m.m_be = {False: Color.ZERO, True: Color.BIG}
    m.m_sd = {0: 0.0, -1: -0.0}
    m.m_ub = {0: b"", 2**64 - 1: b"\xff"}
    m.m_fs = {0: "", 2**32 - 1: "s"}
    r = ref_of(m)
    assert len(r.r_st) == 4 and len(r.r_by) == 3 and len(r.r_msg) == 3 and len(r.r_ts) == 3
    assert len(r.m_si) == 3 and len(r.m_im) == 3 and len(r.m_ub) == 2
    same_all(m, r, "containers")
    m.r_st.clear()
    m.m_si.clear()
    m.r_msg = []
    same_all(m, ref_of(m), "containers emptied")

    # Timestamp / Duration singular fields
    for dt in DT:
        for td in TD:
            m = All(ts=dt, du=td)
            r = ref_of(m)
            assert r.ts.ToDatetime(tzinfo=UTC) == dt and r.du.ToTimedelta() == td
    m = All(ts=EPOCH, du=timedelta(0))
    assert wire(m) == b""

    # a parsed message keeps presence and unknown fields when written back
    src = build_ref({"msg": {}, "emp": {}, "o_m": {}, "opt_m": {}, "w_i": 0, "opt_s": "",
                     "r_msg": [{}], "m_im": {0: {}}})
    data = src.SerializeToString(deterministic=True)
    junk1 = emit(999, 0, 17)
    junk2 = emit(1000, 2, b"junk") + emit(1001, 5, b"\x01\x02\x03\x04")
    m = All().parse(junk1 + data + junk2)
    out = wire(m)
    back = RefAll.FromString(out)
    assert out.endswith(junk1 + junk2)
    back.DiscardUnknownFields()
    assert back == src
    m.o_i = 0  # modify after parsing
    m.opt_s = None
    r = ref_of(m)
    assert r.WhichOneof("choice") == "o_i" and not r.HasField("opt_s") and r.HasField("opt_m")

    # errors surface identically (value out of range for the field type)
    for bad in (All(i64=-(2**63) - 1), All(r_i64=[1, -(2**63) - 1]), All(fx32=-1),
                All(o_i=-(2**70)), All(fl=1e300), All(m_si={"k": -(2**64)})):
        for fn in (bytes, len):
            try:
                fn(bad)
            except (ValueError, struct.error, OverflowError) as exc:
                note(type(exc).__name__)
            else:
                raise AssertionError("expected an error")


def main():
    sequence_part()
    random_part()
    digest = DIGEST.hexdigest()
    print("digest", digest)
    assert digest == GOLDEN, "serialised bytes differ from the recorded ones"
    print("ok")


if __name__ == "__main__":
    main()
