"""Equivalence check for the decoder step Message._postprocess_single.

Everything that comes back from the wire (parse / FromString, hence every pickle
round trip) is turned into a Python value by _postprocess_single.  This script

 1. feeds hand-built wire data with boundary varints (over-long negatives, values
    wider than the field, zig-zag extremes, bool > 1, unknown / negative enum
    numbers), fixed-width extremes and length-delimited payloads through parse()
    and compares with values computed by an independent reference (ctypes/struct),
 2. cross-checks against google.protobuf (dynamic messages built from a
    descriptor): google-encoded data must decode to the same values, and
    betterproto-encoded data must be read back identically by google,
 3. checks the C14 consequences on all generated messages: pickle round trip,
    copy and deepcopy are equal to the original and byte-identical, children that
    arrived on the wire are present.

It must pass unchanged before and after the refactor.
"""
import copy
import ctypes
import math
import pickle
import random
import struct
from dataclasses import dataclass
from datetime import datetime, timedelta, timezone
from typing import Dict, List, Optional

import betterproto
from betterproto import encode_varint

from google.protobuf import (  # noqa: F401  (imports register the well-known files)
    descriptor_pb2,
    descriptor_pool,
    duration_pb2,
    message_factory,
    timestamp_pb2,
    wrappers_pb2,
)

rng = random.Random(20261005)


# --------------------------------------------------------------------------- schema
class Color(betterproto.Enum):
    ZERO = 0
    RED = 1
    BLUE = 5
    NEG = -3


@dataclass(eq=False, repr=False)
class Child(betterproto.Message):
    n: int = betterproto.int32_field(1)
    t: str = betterproto.string_field(2)


@dataclass(eq=False, repr=False)
class Nothing(betterproto.Message):
    pass


@dataclass(eq=False, repr=False)
class Scalars(betterproto.Message):
    d: float = betterproto.double_field(1)
    f: float = betterproto.float_field(2)
    i32: int = betterproto.int32_field(3)
    i64: int = betterproto.int64_field(4)
    u32: int = betterproto.uint32_field(5)
    u64: int = betterproto.uint64_field(6)
    s32: int = betterproto.sint32_field(7)
    s64: int = betterproto.sint64_field(8)
    fx32: int = betterproto.fixed32_field(9)
    fx64: int = betterproto.fixed64_field(10)
    sf32: int = betterproto.sfixed32_field(11)
    sf64: int = betterproto.sfixed64_field(12)
    b: bool = betterproto.bool_field(13)
    s: str = betterproto.string_field(14)
    by: bytes = betterproto.bytes_field(15)
    e: Color = betterproto.enum_field(16)
    child: Child = betterproto.message_field(17)
    nothing: Nothing = betterproto.message_field(18)

    rd: List[float] = betterproto.double_field(21)
    rf: List[float] = betterproto.float_field(22)
    ri32: List[int] = betterproto.int32_field(23)
    ri64: List[int] = betterproto.int64_field(24)
    ru32: List[int] = betterproto.uint32_field(25)
    ru64: List[int] = betterproto.uint64_field(26)
    rs32: List[int] = betterproto.sint32_field(27)
    rs64: List[int] = betterproto.sint64_field(28)
    rfx32: List[int] = betterproto.fixed32_field(29)
    rfx64: List[int] = betterproto.fixed64_field(30)
    rsf32: List[int] = betterproto.sfixed32_field(31)
    rsf64: List[int] = betterproto.sfixed64_field(32)
    rb: List[bool] = betterproto.bool_field(33)
    rs: List[str] = betterproto.string_field(34)
    rby: List[bytes] = betterproto.bytes_field(35)
    re: List[Color] = betterproto.enum_field(36)
    rchild: List[Child] = betterproto.message_field(37)

    m_si: Dict[str, int] = betterproto.map_field(
        40, betterproto.TYPE_STRING, betterproto.TYPE_INT32
    )
    m_ic: Dict[int, Child] = betterproto.map_field(
        41, betterproto.TYPE_INT32, betterproto.TYPE_MESSAGE
    )
    m_se: Dict[str, Color] = betterproto.map_field(
        42, betterproto.TYPE_STRING, betterproto.TYPE_ENUM
    )
    m_zs: Dict[int, int] = betterproto.map_field(
        43, betterproto.TYPE_SINT64, betterproto.TYPE_SFIXED32
    )

    ts: datetime = betterproto.message_field(50)
    du: timedelta = betterproto.message_field(51)
    w_i32: Optional[int] = betterproto.message_field(52, wraps=betterproto.TYPE_INT32)
    w_s: Optional[str] = betterproto.message_field(53, wraps=betterproto.TYPE_STRING)
    w_b: Optional[bool] = betterproto.message_field(54, wraps=betterproto.TYPE_BOOL)
    w_u64: Optional[int] = betterproto.message_field(55, wraps=betterproto.TYPE_UINT64)

    o_i: int = betterproto.sint32_field(60, group="g")
    o_s: str = betterproto.string_field(61, group="g")
    o_c: Child = betterproto.message_field(62, group="g")
    o_e: Color = betterproto.enum_field(63, group="g")

    opt_i: Optional[int] = betterproto.int64_field(70, optional=True)
    opt_s: Optional[str] = betterproto.string_field(71, optional=True)
    opt_c: Optional[Child] = betterproto.message_field(72, optional=True)


META = Scalars._betterproto.meta_by_field_name
F = descriptor_pb2.FieldDescriptorProto
G_TYPE = {
    "double": F.TYPE_DOUBLE, "float": F.TYPE_FLOAT, "int32": F.TYPE_INT32,
    "int64": F.TYPE_INT64, "uint32": F.TYPE_UINT32, "uint64": F.TYPE_UINT64,
    "sint32": F.TYPE_SINT32, "sint64": F.TYPE_SINT64, "fixed32": F.TYPE_FIXED32,
    "fixed64": F.TYPE_FIXED64, "sfixed32": F.TYPE_SFIXED32,
    "sfixed64": F.TYPE_SFIXED64, "bool": F.TYPE_BOOL, "string": F.TYPE_STRING,
    "bytes": F.TYPE_BYTES, "enum": F.TYPE_ENUM, "message": F.TYPE_MESSAGE,
}
MESSAGE_TYPE_NAMES = {
    "child": ".c14k1.Child", "rchild": ".c14k1.Child", "o_c": ".c14k1.Child",
    "opt_c": ".c14k1.Child", "nothing": ".c14k1.Nothing",
    "ts": ".google.protobuf.Timestamp", "du": ".google.protobuf.Duration",
    "w_i32": ".google.protobuf.Int32Value", "w_s": ".google.protobuf.StringValue",
    "w_b": ".google.protobuf.BoolValue", "w_u64": ".google.protobuf.UInt64Value",
}
MAP_VALUE_TYPE_NAME = {"m_ic": ".c14k1.Child", "m_se": ".c14k1.Color"}


def build_google_classes():
    fdp = descriptor_pb2.FileDescriptorProto(
        name="c14_keep1.proto", package="c14k1", syntax="proto3"
    )
    fdp.dependency.extend(
        [
            "google/protobuf/timestamp.proto",
            "google/protobuf/duration.proto",
            "google/protobuf/wrappers.proto",
        ]
    )
    enum = fdp.enum_type.add(name="Color")
    for name, number in (("ZERO", 0), ("RED", 1), ("BLUE", 5), ("NEG", -3)):
        enum.value.add(name=name, number=number)
    child = fdp.message_type.add(name="Child")
    child.field.add(name="n", number=1, type=F.TYPE_INT32, label=F.LABEL_OPTIONAL)
    child.field.add(name="t", number=2, type=F.TYPE_STRING, label=F.LABEL_OPTIONAL)
    fdp.message_type.add(name="Nothing")

    msg = fdp.message_type.add(name="Scalars")
    msg.oneof_decl.add(name="g")
    next_oneof = 1
    hints = Scalars._type_hints()
    for name, meta in META.items():
        repeated = Scalars._betterproto.default_gen[name] is list
        if meta.proto_type == betterproto.TYPE_MAP:
            entry_name = "".join(p.capitalize() for p in name.split("_")) + "Entry"
            entry = msg.nested_type.add(name=entry_name)
            entry.options.map_entry = True
            kt, vt = meta.map_types
            entry.field.add(name="key", number=1, type=G_TYPE[kt], label=F.LABEL_OPTIONAL)
            value = entry.field.add(
                name="value", number=2, type=G_TYPE[vt], label=F.LABEL_OPTIONAL
            )
            if name in MAP_VALUE_TYPE_NAME:
                value.type_name = MAP_VALUE_TYPE_NAME[name]
            msg.field.add(
                name=name, number=meta.number, type=F.TYPE_MESSAGE,
                label=F.LABEL_REPEATED, type_name=f".c14k1.Scalars.{entry_name}",
            )
            continue
        field = msg.field.add(
            name=name, number=meta.number, type=G_TYPE[meta.proto_type],
            label=F.LABEL_REPEATED if repeated else F.LABEL_OPTIONAL,
        )
        if meta.proto_type == betterproto.TYPE_ENUM:
            field.type_name = ".c14k1.Color"
        elif meta.proto_type == betterproto.TYPE_MESSAGE:
            field.type_name = MESSAGE_TYPE_NAMES[name]
        if meta.group:
            field.oneof_index = 0
        elif meta.optional:
            msg.oneof_decl.add(name=f"_{name}")
            field.oneof_index = next_oneof
            field.proto3_optional = True
            next_oneof += 1
    del hints
    pool = descriptor_pool.Default()
    pool.AddSerializedFile(fdp.SerializeToString())
    return message_factory.GetMessageClass(pool.FindMessageTypeByName("c14k1.Scalars"))


GScalars = build_google_classes()

# --------------------------------------------------------------------- value pools
INT32 = [0, 1, -1, 2, 127, 128, 255, 16383, 16384, 2**31 - 1, -(2**31), -(2**31) + 1, 12345, -98765]
INT64 = INT32 + [2**31, -(2**31) - 1, 2**32, 2**53 + 1, 2**63 - 1, -(2**63), -(2**63) + 1]
UINT32 = [0, 1, 127, 128, 2**31 - 1, 2**31, 2**32 - 1, 300]
UINT64 = UINT32 + [2**32, 2**63 - 1, 2**63, 2**64 - 1]
FLOATS = [0.0, 1.0, -1.5, 0.1, 3.4028234663852886e38, 1e-45, float("inf"), float("-inf"), float("nan"), 123456.789]
DOUBLES = FLOATS + [1e308, 5e-324, 2.0**53 + 2, math.pi]
STRINGS = ["", "a", "hello", "éè", "中文", "\U0001f600", "x" * 200, "\x00", "nul\x00mid"]
BYTES = [b"", b"\x00", b"\xff\xfe", bytes(range(256)), b"abc", b"\x08\x01"]
ENUMS = [0, 1, 5, -3, 2, 77, -1, 2**31 - 1, -(2**31)]
BOOLS = [False, True]
DATETIMES = [
    datetime(1970, 1, 1, tzinfo=timezone.utc),
    datetime(1970, 1, 1, 0, 0, 0, 1, tzinfo=timezone.utc),
    datetime(1969, 12, 31, 23, 59, 59, 999999, tzinfo=timezone.utc),
    datetime(2026, 10, 5, 12, 34, 56, 789012, tzinfo=timezone.utc),
    datetime(1, 1, 1, tzinfo=timezone.utc),
    datetime(9999, 12, 31, 23, 59, 59, 999999, tzinfo=timezone.utc),
    datetime(2000, 2, 29, 1, 2, 3, 500000, tzinfo=timezone.utc),
]
DELTAS = [
    timedelta(0), timedelta(microseconds=1), timedelta(microseconds=-1),
    timedelta(seconds=-1, microseconds=-500000), timedelta(days=3650, seconds=7, microseconds=123456),
    timedelta(days=-3650, microseconds=999999), timedelta(seconds=315576000000),
    timedelta(seconds=-315576000000), timedelta(milliseconds=1500),
]

POOL = {
    "double": DOUBLES, "float": FLOATS, "int32": INT32, "int64": INT64,
    "uint32": UINT32, "uint64": UINT64, "sint32": INT32, "sint64": INT64,
    "fixed32": UINT32, "fixed64": UINT64, "sfixed32": INT32, "sfixed64": INT64,
    "bool": BOOLS, "string": STRINGS, "bytes": BYTES, "enum": ENUMS,
}


def f32(x):
    return struct.unpack("<f", struct.pack("<f", x))[0]


def pick(proto_type, nan_ok=True):
    # (a nan inside a list never compares equal to another nan object, so nan is
    # only used for singular fields, where Message.__eq__ handles it)
    value = rng.choice(POOL[proto_type])
    while not nan_ok and isinstance(value, float) and math.isnan(value):
        value = rng.choice(POOL[proto_type])
    if proto_type == "float":
        value = f32(value)
    return value


def same(a, b):
    """Value equality that treats nan == nan and distinguishes 0.0 / -0.0."""
    if isinstance(a, float) and isinstance(b, float):
        return struct.pack("<d", a) == struct.pack("<d", b) or (
            math.isnan(a) and math.isnan(b)
        )
    if isinstance(a, (list, tuple)) and isinstance(b, (list, tuple)):
        return len(a) == len(b) and all(same(x, y) for x, y in zip(a, b))
    if isinstance(a, bool) != isinstance(b, bool):
        return False
    return a == b


# ------------------------------------------------------- random google messages
def fill_child(g_child):
    g_child.n = rng.choice(INT32)
    g_child.t = rng.choice(STRINGS)


def random_google_message():
    g = GScalars()
    for name, meta in META.items():
        if rng.random() < 0.45:
            continue
        repeated = Scalars._betterproto.default_gen[name] is list
        pt = meta.proto_type
        if pt == betterproto.TYPE_MAP:
            kt, vt = meta.map_types
            for _ in range(rng.randrange(0, 4)):
                key = pick(kt)
                if vt == "message":
                    if rng.random() < 0.7:
                        fill_child(getattr(g, name)[key])
                    else:
                        getattr(g, name)[key].SetInParent()
                else:
                    getattr(g, name)[key] = pick(vt)
        elif pt == "message":
            if name in ("child", "o_c", "opt_c"):
                if rng.random() < 0.3:
                    getattr(g, name).SetInParent()
                else:
                    fill_child(getattr(g, name))
            elif name == "nothing":
                g.nothing.SetInParent()
            elif name == "rchild":
                for _ in range(rng.randrange(0, 4)):
                    item = g.rchild.add()
                    if rng.random() < 0.7:
                        fill_child(item)
            elif name == "ts":
                g.ts.FromDatetime(rng.choice(DATETIMES))
            elif name == "du":
                g.du.FromTimedelta(rng.choice(DELTAS))
            else:
                getattr(g, name).value = pick(meta.wraps)
        elif repeated:
            getattr(g, name).extend(
                pick(pt, nan_ok=False) for _ in range(rng.randrange(0, 5))
            )
        else:
            setattr(g, name, pick(pt))
    return g


def check_against_google(g, m):
    """m (betterproto) must hold exactly what g (google) holds."""
    for name, meta in META.items():
        repeated = Scalars._betterproto.default_gen[name] is list
        pt = meta.proto_type
        if meta.group:
            selected = g.WhichOneof("g")
            assert betterproto.which_one_of(m, "g")[0] == (selected or ""), name
            if selected != name:
                continue
        gv = getattr(g, name)
        if pt == betterproto.TYPE_MAP:
            bv = getattr(m, name)
            assert set(bv) == set(gv), (name, bv, gv)
            for key in gv:
                if meta.map_types[1] == "message":
                    assert (bv[key].n, bv[key].t) == (gv[key].n, gv[key].t)
                    assert type(bv[key]) is Child
                else:
                    assert same(bv[key], gv[key]) and int(bv[key]) == gv[key]
                    if meta.map_types[1] == "enum":
                        assert type(bv[key]) is Color
        elif pt == "message":
            if name == "rchild":
                bv = m.rchild
                assert [(c.n, c.t) for c in bv] == [(c.n, c.t) for c in gv]
                assert all(type(c) is Child for c in bv)
                continue
            present = g.HasField(name)
            if name in ("child", "o_c", "nothing"):
                bv = getattr(m, name)
                assert betterproto.serialized_on_wire(bv) == present, name
                assert m.is_set(name) == present, name
                if name != "nothing":
                    assert (bv.n, bv.t) == (gv.n, gv.t)
            elif name == "opt_c":
                assert (m.opt_c is not None) == present
                if present:
                    assert (m.opt_c.n, m.opt_c.t) == (gv.n, gv.t)
                    assert betterproto.serialized_on_wire(m.opt_c)
            elif name == "ts":
                expect = gv.ToDatetime(tzinfo=timezone.utc) if present else DATETIMES[0]
                assert m.ts == expect and m.ts.utcoffset() == timedelta(0), (m.ts, expect)
            elif name == "du":
                assert m.du == (gv.ToTimedelta() if present else timedelta(0))
            else:
                bv = getattr(m, name)
                if present:
                    assert same(bv, gv.value) and type(bv) is type(gv.value), (name, bv)
                else:
                    assert bv is None
        elif repeated:
            bv = getattr(m, name)
            assert same(list(bv), list(gv)), (name, bv, list(gv))
            if pt == "enum":
                assert all(type(v) is Color for v in bv)
            if pt == "bool":
                assert all(type(v) is bool for v in bv)
        elif meta.optional:
            bv = getattr(m, name)
            if g.HasField(name):
                assert same(bv, gv), (name, bv, gv)
            else:
                assert bv is None
        else:
            bv = getattr(m, name)
            assert same(bv, gv), (name, bv, gv)
            if pt == "enum":
                assert type(bv) is Color
            if pt == "bool":
                assert type(bv) is bool
            if pt == "string":
                assert type(bv) is str
            if pt == "bytes":
                assert type(bv) is bytes


def check_c14(m):
    data = bytes(m)
    for how, clone in (
        ("pickle", pickle.loads(pickle.dumps(m))),
        ("deepcopy", copy.deepcopy(m)),
        ("copy", copy.copy(m)),
        ("reparse", Scalars().parse(data)),
    ):
        assert clone == m and m == clone, how
        assert bytes(clone) == data, how
        assert betterproto.which_one_of(clone, "g")[0] == betterproto.which_one_of(m, "g")[0]
        for name in ("child", "nothing", "opt_c", "opt_i", "opt_s", "w_i32", "w_s", "w_b"):
            assert clone.is_set(name) == m.is_set(name), (how, name)
    assert bytes(m) == data


def part_google_cross_check(rounds=1000):
    for _ in range(rounds):
        g = random_google_message()
        data = g.SerializeToString()
        m = Scalars().parse(data)
        check_against_google(g, m)
        check_c14(m)
        # and back: what betterproto writes, google reads as the same message
        # (datetime / timedelta fields have no presence of their own in betterproto:
        # a Timestamp / Duration that is present but zero is not written again)
        g1 = GScalars.FromString(data)
        for name in ("ts", "du"):
            if g1.HasField(name) and not getattr(g1, name).ByteSize():
                g1.ClearField(name)
        g2 = GScalars.FromString(bytes(m))
        assert g2.SerializeToString(deterministic=True) == g1.SerializeToString(
            deterministic=True
        )


# ------------------------------------------------------ hand-built wire inputs
def tag(number, wire_type):
    return encode_varint((number << 3) | wire_type)


def raw_varint(v):
    """varint encoding of the unsigned 64-bit number v (0 <= v < 2**64)."""
    assert 0 <= v < 2**64
    return encode_varint(v)


def overlong(v, total):
    """varint of v padded with continuation bytes to `total` bytes."""
    out = bytearray()
    for i in range(total):
        bits = (v >> (7 * i)) & 0x7F
        out.append(bits | (0x80 if i < total - 1 else 0))
    return bytes(out)


def ref_int(v, bits):
    return (ctypes.c_int64 if bits == 64 else ctypes.c_int32)(v & (2**bits - 1)).value


def ref_zigzag(v):
    return (v >> 1) if v % 2 == 0 else -((v + 1) >> 1)


RAW_VARINTS = sorted(
    set(
        [0, 1, 2, 3, 127, 128, 129, 255, 256, 16383, 16384, 2**31 - 1, 2**31, 2**31 + 1,
         2**32 - 1, 2**32, 2**32 + 1, 2**33 + 5, 2**63 - 1, 2**63, 2**63 + 1, 2**64 - 1,
         2**64 - 2, 2**64 - 3, 2**64 - 2**31, 2**64 - 2**31 - 1, 0xDEADBEEF, 0xFFFFFFFE]
        + [rng.randrange(2**64) for _ in range(300)]
        + [rng.randrange(2**32) for _ in range(100)]
        + [2**64 - rng.randrange(1, 2**31) for _ in range(100)]
    )
)


def part_varints():
    num = {n: META[n].number for n in META}
    for v in RAW_VARINTS:
        enc = raw_varint(v)
        for encoded in {enc, overlong(v, 10)}:
            data = b"".join(
                tag(num[n], 0) + encoded
                for n in ("i32", "i64", "u32", "u64", "s32", "s64", "b", "e", "o_e", "opt_i")
            )
            m = Scalars().parse(data)
            assert m.i32 == ref_int(v, 32) and type(m.i32) is int
            assert m.i64 == ref_int(v, 64) and type(m.i64) is int
            assert m.u32 == v and m.u64 == v and type(m.u64) is int
            assert m.s32 == ref_zigzag(v) and m.s64 == ref_zigzag(v)
            assert type(m.s32) is int and type(m.s64) is int
            assert m.b is (v != 0)
            assert type(m.e) is Color and int(m.e) == ref_int(v, 32)
            assert m.e == Color.try_value(ref_int(v, 32))
            assert (m.e.name is None) == (ref_int(v, 32) not in (0, 1, 5, -3))
            assert betterproto.which_one_of(m, "g")[0] == "o_e"
            assert type(m.o_e) is Color and int(m.o_e) == ref_int(v, 32)
            assert m.opt_i == ref_int(v, 64)
            assert m._unknown_fields == b""

        # the same numbers as packed and as unpacked repeated elements
        packed = b"".join(
            tag(num[n], 2) + encode_varint(len(enc) * 2) + enc + enc
            for n in ("ri32", "ri64", "ru32", "ru64", "rs32", "rs64", "rb", "re")
        )
        unpacked = b"".join(
            (tag(num[n], 0) + enc) * 2
            for n in ("ri32", "ri64", "ru32", "ru64", "rs32", "rs64", "rb", "re")
        )
        for data in (packed, unpacked, packed + unpacked):
            m = Scalars().parse(data)
            k = 4 if data is not packed and data is not unpacked else 2
            assert m.ri32 == [ref_int(v, 32)] * k
            assert m.ri64 == [ref_int(v, 64)] * k
            assert m.ru32 == [v] * k and m.ru64 == [v] * k
            assert m.rs32 == [ref_zigzag(v)] * k and m.rs64 == [ref_zigzag(v)] * k
            assert m.rb == [v != 0] * k and all(type(x) is bool for x in m.rb)
            assert [int(x) for x in m.re] == [ref_int(v, 32)] * k
            assert all(type(x) is Color for x in m.re)

        # map<sint64, sfixed32> key goes through the varint path as well
        entry = tag(1, 0) + enc + tag(2, 5) + struct.pack("<i", ref_int(v, 32))
        m = Scalars().parse(tag(num["m_zs"], 2) + encode_varint(len(entry)) + entry)
        assert m.m_zs == {ref_zigzag(v): ref_int(v, 32)}

        # wrappers: Int32Value / UInt64Value / BoolValue
        inner = tag(1, 0) + enc
        data = b"".join(
            tag(num[n], 2) + encode_varint(len(inner)) + inner
            for n in ("w_i32", "w_u64", "w_b")
        )
        m = Scalars().parse(data)
        assert m.w_i32 == ref_int(v, 32) and m.w_u64 == v and m.w_b is (v != 0)


def part_fixed():
    num = {n: META[n].number for n in META}
    patterns32 = [b"\x00" * 4, b"\xff" * 4, b"\x00\x00\x00\x80", b"\xff\xff\xff\x7f", b"\x01\x00\x00\x00",
                  struct.pack("<f", 1.5), struct.pack("<f", float("inf")), b"\x00\x00\xc0\x7f"]
    patterns64 = [b"\x00" * 8, b"\xff" * 8, b"\x00" * 7 + b"\x80", b"\xff" * 7 + b"\x7f",
                  struct.pack("<d", -2.5), struct.pack("<d", float("-inf")), struct.pack("<d", 5e-324)]
    patterns32 += [bytes(rng.randrange(256) for _ in range(4)) for _ in range(200)]
    patterns64 += [bytes(rng.randrange(256) for _ in range(8)) for _ in range(200)]
    for p in patterns32:
        data = b"".join(tag(num[n], 5) + p for n in ("f", "fx32", "sf32"))
        data += b"".join(tag(num[n], 2) + b"\x08" + p + p for n in ("rf", "rfx32", "rsf32"))
        data += b"".join(tag(num[n], 5) + p for n in ("rf", "rfx32", "rsf32"))
        m = Scalars().parse(data)
        assert same(m.f, struct.unpack("<f", p)[0]) and type(m.f) is float
        assert m.fx32 == int.from_bytes(p, "little")
        assert m.sf32 == int.from_bytes(p, "little", signed=True)
        assert same(m.rf, [struct.unpack("<f", p)[0]] * 3)
        assert m.rfx32 == [m.fx32] * 3 and m.rsf32 == [m.sf32] * 3
        assert bytes(Scalars().parse(bytes(m))) == bytes(m)
    for p in patterns64:
        data = b"".join(tag(num[n], 1) + p for n in ("d", "fx64", "sf64"))
        data += b"".join(tag(num[n], 2) + b"\x10" + p + p for n in ("rd", "rfx64", "rsf64"))
        data += b"".join(tag(num[n], 1) + p for n in ("rd", "rfx64", "rsf64"))
        m = Scalars().parse(data)
        assert same(m.d, struct.unpack("<d", p)[0]) and type(m.d) is float
        assert m.fx64 == int.from_bytes(p, "little")
        assert m.sf64 == int.from_bytes(p, "little", signed=True)
        assert same(m.rd, [struct.unpack("<d", p)[0]] * 3)
        assert m.rfx64 == [m.fx64] * 3 and m.rsf64 == [m.sf64] * 3
        assert bytes(Scalars().parse(bytes(m))) == bytes(m)


def ld(number, payload):
    return tag(number, 2) + encode_varint(len(payload)) + payload


def part_len_delim():
    num = {n: META[n].number for n in META}
    for text in STRINGS:
        raw = text.encode("utf-8")
        m = Scalars().parse(
            ld(num["s"], raw) + ld(num["by"], raw) + ld(num["rs"], raw) + ld(num["rs"], b"")
            + ld(num["rby"], raw) + ld(num["o_s"], raw) + ld(num["opt_s"], raw)
            + ld(num["w_s"], ld(1, raw))
        )
        assert m.s == text and type(m.s) is str
        assert m.by == raw and type(m.by) is bytes
        assert m.rs == [text, ""] and m.rby == [raw]
        assert betterproto.which_one_of(m, "g") == ("o_s", text)
        assert m.opt_s == text and m.is_set("opt_s")
        assert m.w_s == text
        check_c14(m)

    # invalid UTF-8 is an error for strings, fine for bytes
    bad = b"\xff\xfe\xfd"
    assert Scalars().parse(ld(num["by"], bad)).by == bad
    for field in ("s", "rs", "o_s", "opt_s"):
        try:
            Scalars().parse(ld(num[field], bad))
        except UnicodeDecodeError:
            pass
        else:
            raise AssertionError("invalid UTF-8 accepted")

    # sub-messages: empty, filled, with unknown fields inside; presence is recorded
    unknown = tag(9, 0) + b"\x07" + ld(10, b"zz")
    for payload in (b"", tag(1, 0) + b"\x05", tag(1, 0) + overlong(2**64 - 1, 10) + ld(2, b"hi"), unknown,
                    tag(1, 0) + b"\x01" + unknown):
        m = Scalars().parse(
            ld(num["child"], payload) + ld(num["rchild"], payload) + ld(num["rchild"], b"")
            + ld(num["o_c"], payload) + ld(num["opt_c"], payload) + ld(num["nothing"], unknown)
            + ld(num["m_ic"], tag(1, 0) + b"\x03" + ld(2, payload))
        )
        ref = Child().parse(payload)
        for c in (m.child, m.rchild[0], m.o_c, m.opt_c, m.m_ic[3]):
            assert type(c) is Child and c == ref and bytes(c) == bytes(ref)
            assert betterproto.serialized_on_wire(c)
            assert c._unknown_fields == ref._unknown_fields
        assert m.rchild[1] == Child() and len(m.rchild) == 2
        assert m.is_set("child") and m.is_set("opt_c") and m.is_set("nothing")
        assert type(m.nothing) is Nothing and m.nothing._unknown_fields == unknown
        assert betterproto.which_one_of(m, "g")[0] == "o_c"
        assert bytes(Scalars().parse(bytes(m))) == bytes(m)
        check_c14(m)

    # maps
    entry = ld(1, b"k") + tag(2, 0) + overlong(2**64 - 7, 10)
    entry2 = ld(1, b"") + tag(2, 0) + b"\x00"
    entry3 = ld(1, b"c") + tag(2, 0) + raw_varint(2**64 - 3)
    m = Scalars().parse(
        ld(num["m_si"], entry) + ld(num["m_si"], entry2) + ld(num["m_si"], b"")
        + ld(num["m_se"], entry3) + ld(num["m_se"], ld(1, b"u") + tag(2, 0) + b"\x4d")
    )
    assert m.m_si == {"k": -7, "": 0}
    assert m.m_se == {"c": Color.NEG, "u": Color.try_value(77)}
    assert all(type(v) is Color for v in m.m_se.values())
    check_c14(m)

    # Timestamp / Duration / wrappers
    for dt in DATETIMES:
        g = timestamp_pb2.Timestamp()
        g.FromDatetime(dt)
        m = Scalars().parse(ld(num["ts"], g.SerializeToString()))
        assert m.ts == dt and m.ts.tzinfo is not None
        check_c14(m)
    for delta in DELTAS:
        g = duration_pb2.Duration()
        g.FromTimedelta(delta)
        m = Scalars().parse(ld(num["du"], g.SerializeToString()))
        assert m.du == delta, (m.du, delta)
        check_c14(m)
    m = Scalars().parse(ld(num["w_i32"], b"") + ld(num["w_s"], b"") + ld(num["w_b"], b"") + ld(num["ts"], b"") + ld(num["du"], b""))
    assert m.w_i32 == 0 and m.w_s == "" and m.w_b is False
    assert m.ts == DATETIMES[0] and m.du == timedelta(0)
    check_c14(m)

    # a known number with a mismatching wire type stays unknown, nothing is decoded
    stray = tag(num["s"], 0) + b"\x01" + tag(num["i32"], 2) + b"\x01a" + tag(num["d"], 5) + b"abcd"
    m = Scalars().parse(stray)
    assert m._unknown_fields == stray and not m and bytes(m) == stray
    check_c14(m)


def part_constructed_round_trips(rounds=400):
    """Messages built in Python: whatever is encoded must come back unchanged."""
    for _ in range(rounds):
        m = Scalars()
        for name, meta in META.items():
            if rng.random() < 0.6:
                continue
            repeated = Scalars._betterproto.default_gen[name] is list
            pt = meta.proto_type
            if pt == betterproto.TYPE_MAP:
                kt, vt = meta.map_types
                value = {}
                for _ in range(rng.randrange(0, 4)):
                    if vt == "message":
                        value[pick(kt)] = Child(n=rng.choice(INT32), t=rng.choice(STRINGS))
                    elif vt == "enum":
                        value[pick(kt)] = Color.try_value(pick("enum"))
                    else:
                        value[pick(kt)] = pick(vt)
            elif pt == "message":
                if name in ("child", "o_c", "opt_c"):
                    value = Child(n=rng.choice(INT32), t=rng.choice(STRINGS))
                elif name == "nothing":
                    value = Nothing()
                elif name == "rchild":
                    value = [Child(n=rng.choice(INT32)) for _ in range(rng.randrange(0, 4))]
                elif name == "ts":
                    value = rng.choice(DATETIMES)
                elif name == "du":
                    value = rng.choice(DELTAS)
                else:
                    value = pick(meta.wraps)
            elif pt == "enum":
                value = (
                    [Color.try_value(pick("enum")) for _ in range(rng.randrange(0, 4))]
                    if repeated
                    else Color.try_value(pick("enum"))
                )
            elif repeated:
                value = [pick(pt, nan_ok=False) for _ in range(rng.randrange(0, 5))]
            else:
                value = pick(pt)
            setattr(m, name, value)
        check_c14(m)
        g = GScalars.FromString(bytes(m))
        check_against_google(g, Scalars().parse(bytes(m)))


if __name__ == "__main__":
    part_varints()
    part_fixed()
    part_len_delim()
    part_google_cross_check()
    part_constructed_round_trips()
    print("keep1 equiv: all checks passed")
