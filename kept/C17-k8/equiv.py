"""Equivalence check for the fixed-width codec table (C17).

The refactor replaces the per-call dict literal of _pack_fmt and the
struct.unpack(fmt, ...) / struct.pack(fmt, ...) calls of the decoder and encoder by a
module-level table of precompiled struct.Struct objects.  This script checks, against
an oracle written directly with the struct module and against google.protobuf, that
for every fixed-width type, every wire type and every payload length

  * the same value, or the same exception (type *and* text), comes out of
    _pack_fmt, Message._postprocess_single and _preprocess_single,
  * Message.parse accepts / rejects / isolates exactly as before, including packed
    runs whose length is not a multiple of the element width, truncated input and
    wire-type substitutions,

and finally that a digest over every observable outcome equals the reference tree's.
"""
import hashlib
import io
import random
import struct
from dataclasses import dataclass
from typing import List

import betterproto
from google.protobuf import descriptor_pb2, descriptor_pool, message_factory
from google.protobuf.message import DecodeError

EXPECTED_DIGEST = "305c17f2ed5652c23aee3c0356c9f2af5e7486354660582c88442a8862027c58"

FMT = {
    betterproto.TYPE_DOUBLE: "<d",
    betterproto.TYPE_FLOAT: "<f",
    betterproto.TYPE_FIXED32: "<I",
    betterproto.TYPE_FIXED64: "<Q",
    betterproto.TYPE_SFIXED32: "<i",
    betterproto.TYPE_SFIXED64: "<q",
}
WIDTH = {t: struct.calcsize(f) for t, f in FMT.items()}
ALL_TYPES = [
    betterproto.TYPE_ENUM, betterproto.TYPE_BOOL, betterproto.TYPE_INT32,
    betterproto.TYPE_INT64, betterproto.TYPE_UINT32, betterproto.TYPE_UINT64,
    betterproto.TYPE_SINT32, betterproto.TYPE_SINT64, betterproto.TYPE_FLOAT,
    betterproto.TYPE_DOUBLE, betterproto.TYPE_FIXED32, betterproto.TYPE_SFIXED32,
    betterproto.TYPE_FIXED64, betterproto.TYPE_SFIXED64, betterproto.TYPE_STRING,
    betterproto.TYPE_BYTES, betterproto.TYPE_MESSAGE, betterproto.TYPE_MAP,
]  # fmt: skip


@dataclass(eq=False, repr=False)
class Fx(betterproto.Message):
    f32: int = betterproto.fixed32_field(1)
    sf32: int = betterproto.sfixed32_field(2)
    f64: int = betterproto.fixed64_field(3)
    sf64: int = betterproto.sfixed64_field(4)
    fl: float = betterproto.float_field(5)
    db: float = betterproto.double_field(6)
    r_f32: List[int] = betterproto.fixed32_field(11)
    r_sf32: List[int] = betterproto.sfixed32_field(12)
    r_f64: List[int] = betterproto.fixed64_field(13)
    r_sf64: List[int] = betterproto.sfixed64_field(14)
    r_fl: List[float] = betterproto.float_field(15)
    r_db: List[float] = betterproto.double_field(16)
    # non-fixed neighbours, to feed fixed wire types into the other branches
    i32: int = betterproto.int32_field(21)
    st: str = betterproto.string_field(22)
    by: bytes = betterproto.bytes_field(23)
    sub: "Fx" = betterproto.message_field(24)
    r_i32: List[int] = betterproto.int32_field(25)


SINGULAR = {"f32": 1, "sf32": 2, "f64": 3, "sf64": 4, "fl": 5, "db": 6}
REPEATED = {"r_f32": 11, "r_sf32": 12, "r_f64": 13, "r_sf64": 14, "r_fl": 15, "r_db": 16}
OTHERS = {"i32": 21, "st": 22, "by": 23, "sub": 24, "r_i32": 25}
META = Fx._betterproto.meta_by_field_name


def build_google():
    F = descriptor_pb2.FieldDescriptorProto
    fp = descriptor_pb2.FileDescriptorProto(
        name="c17_equiv_keep2.proto", package="c17k2", syntax="proto3"
    )
    m = fp.message_type.add(name="Fx")
    gtype = {
        "f32": F.TYPE_FIXED32, "sf32": F.TYPE_SFIXED32, "f64": F.TYPE_FIXED64,
        "sf64": F.TYPE_SFIXED64, "fl": F.TYPE_FLOAT, "db": F.TYPE_DOUBLE,
    }  # fmt: skip
    for name, number in SINGULAR.items():
        m.field.add(name=name, number=number, type=gtype[name], label=F.LABEL_OPTIONAL)
    for name, number in REPEATED.items():
        m.field.add(
            name=name, number=number, type=gtype[name[2:]], label=F.LABEL_REPEATED
        )
    m.field.add(name="i32", number=21, type=F.TYPE_INT32, label=F.LABEL_OPTIONAL)
    m.field.add(name="st", number=22, type=F.TYPE_STRING, label=F.LABEL_OPTIONAL)
    m.field.add(name="by", number=23, type=F.TYPE_BYTES, label=F.LABEL_OPTIONAL)
    m.field.add(
        name="sub", number=24, type=F.TYPE_MESSAGE, label=F.LABEL_OPTIONAL,
        type_name=".c17k2.Fx",
    )  # fmt: skip
    m.field.add(name="r_i32", number=25, type=F.TYPE_INT32, label=F.LABEL_REPEATED)
    pool = descriptor_pool.Default()
    pool.Add(fp)
    return message_factory.GetMessageClass(pool.FindMessageTypeByName("c17k2.Fx"))


GFx = build_google()

H = hashlib.sha256()
COUNT = {"calls": 0}


def record(*parts):
    COUNT["calls"] += 1
    H.update(repr(parts).encode("utf-8", "backslashreplace") + b"\n")


def capture(fn, *args):
    """('ok', value) or ('err', type name, text, args) of fn(*args)."""
    try:
        value = fn(*args)
    except Exception as exc:  # noqa: BLE001
        return ("err", type(exc).__name__, str(exc), repr(exc.args))
    if isinstance(value, float):
        return ("ok", "float", struct.pack("<d", value).hex())
    return ("ok", type(value).__name__, repr(value))


def varint(n):
    return betterproto.encode_varint(n)


def tag(number, wire):
    return varint(number << 3 | wire)


def raw(msg, name):
    return object.__getattribute__(msg, name)


def show(msg):
    out = []
    for name in msg._betterproto.sorted_field_names:
        v = raw(msg, name)
        if v is betterproto.PLACEHOLDER:
            out.append((name, "<unset>"))
        elif isinstance(v, betterproto.Message):
            out.append((name, show(v)))
        elif isinstance(v, list):
            out.append((name, [capture(lambda x=x: x) for x in v]))
        else:
            out.append((name, capture(lambda v=v: v)))
    return (out, msg._unknown_fields.hex(), msg._serialized_on_wire)


def is_int(v):
    return isinstance(v, int) and not isinstance(v, bool)


def check_types(msg):
    for name in ("f32", "sf32", "f64", "sf64", "i32"):
        assert is_int(getattr(msg, name)), name
    assert isinstance(msg.fl, float) and isinstance(msg.db, float)
    for name in ("r_f32", "r_sf32", "r_f64", "r_sf64", "r_i32"):
        v = getattr(msg, name)
        assert isinstance(v, list) and all(is_int(x) for x in v), name
    for name in ("r_fl", "r_db"):
        v = getattr(msg, name)
        assert isinstance(v, list) and all(isinstance(x, float) for x in v), name
    assert isinstance(msg.st, str) and isinstance(msg.by, bytes)
    if raw(msg, "sub") is not betterproto.PLACEHOLDER:
        assert type(msg.sub) is Fx
        check_types(msg.sub)


def g_parse(data):
    try:
        return GFx.FromString(data)
    except DecodeError:
        return None


def same_numbers(a, b):
    """Equal, treating NaNs with the same bit pattern class as equal."""
    if isinstance(a, float) and isinstance(b, float):
        return a == b or (a != a and b != b)
    return a == b


def parse(data, label=None):
    """Fx().parse(data) with all checks of the property; records the outcome."""
    try:
        msg = Fx().parse(data)
    except Exception as exc:  # noqa: BLE001
        record("err", type(exc).__name__, str(exc))
        return None, exc
    encoded = bytes(msg)
    assert len(msg) == len(encoded)
    snapshot = show(msg)
    check_types(msg)
    record("ok", snapshot, encoded.hex())
    # the re-encoding is acceptable input again
    check_types(Fx().parse(encoded))
    return msg, None


# ------------------------------------------------------------------ 1. helper level
def helper_level(rnd):
    # _pack_fmt: the format string of the six fixed types, KeyError(type) otherwise
    for t in ALL_TYPES + ["", "group", "FIXED32", None, 5]:
        got = capture(betterproto._pack_fmt, t)
        want = capture(lambda: FMT[t])
        assert got == want, (t, got, want)
        record("fmt", got)

    holder = Fx()
    payload_pool = [b"", b"\x00", b"\xff", b"\x00" * 4, b"\xff" * 4, b"\x00" * 8, b"\xff" * 8]
    payload_pool += [b"\x00\x00\x80\x7f", b"\x00\x00\xc0\x7f", b"\x00\x00\x00\x80"]
    payload_pool += [b"\x00" * 6 + b"\xf0\x7f", b"\x01" + b"\x00" * 6 + b"\xf8\x7f"]
    payload_pool += [struct.pack("<I", 2**31), struct.pack("<Q", 2**63)]
    for n in range(0, 14):
        for _ in range(6):
            payload_pool.append(bytes(rnd.randrange(256) for _ in range(n)))
    odd_payloads = [bytearray(b"\x01\x02\x03\x04"), memoryview(b"\x01" * 8), "abcd", 7, None]

    for name in list(SINGULAR) + list(REPEATED) + list(OTHERS):
        meta = META[name]
        t = meta.proto_type
        for wire in (betterproto.WIRE_FIXED_32, betterproto.WIRE_FIXED_64):
            for payload in payload_pool + odd_payloads:
                got = capture(holder._postprocess_single, wire, meta, name, payload)
                if t in FMT:
                    want = capture(lambda: struct.unpack(FMT[t], payload)[0])
                    if want[0] == "ok":
                        assert len(payload) == WIDTH[t]
                    elif isinstance(payload, (bytes, bytearray, memoryview)):
                        assert len(payload) != WIDTH[t] and want[1] == "error"
                else:
                    # a fixed wire type never converts a non-fixed declared type
                    want = ("err", "KeyError", repr(t), repr((t,)))
                assert got == want, (name, wire, payload, got, want)
                record("post", name, wire, got)

    # encoder side: the values the decoder can produce are encodable again, and
    # out-of-range / ill-typed values fail exactly like struct.pack does
    values = [0, 1, -1, 2**31 - 1, 2**31, -(2**31), -(2**31) - 1, 2**32 - 1, 2**32]
    values += [2**63 - 1, 2**63, -(2**63), -(2**63) - 1, 2**64 - 1, 2**64, 10**30]
    values += [0.0, -0.0, 1.5, -2.25, 1e38, 3.5e38, 1e39, -1e39, 1e308, float("inf")]
    values += [float("-inf"), float("nan"), True, False, None, "1", b"\x01", 1.0, 2.5]
    values += [rnd.randrange(-(2**64), 2**64) for _ in range(60)]
    values += [rnd.uniform(-1e40, 1e40) for _ in range(60)]
    for t, fmt in FMT.items():
        for v in values:
            got = capture(betterproto._preprocess_single, t, "", v)
            want = capture(struct.pack, fmt, v)
            assert got == want, (t, v, got, want)
            record("pre", t, got)
            size = capture(betterproto._len_preprocessed_single, t, "", v)
            if want[0] == "ok":
                assert size == ("ok", "int", repr(WIDTH[t])), (t, v, size)
            else:
                assert size[:3] == want[:3], (t, v, size, want)
            # and through a whole message
            name = next(n for n in SINGULAR if META[n].proto_type == t)
            msg = Fx()
            try:
                setattr(msg, name, v)
                whole = capture(bytes, msg)
            except Exception as exc:  # noqa: BLE001
                whole = ("setattr", type(exc).__name__)
            record("whole", t, whole)


# ---------------------------------------------------------------- 2. message level
def message_level(rnd):
    boundary = {
        "f32": [0, 1, 2**31, 2**32 - 1],
        "sf32": [0, 1, -1, 2**31 - 1, -(2**31)],
        "f64": [0, 1, 2**63, 2**64 - 1],
        "sf64": [0, 1, -1, 2**63 - 1, -(2**63)],
        "fl": [0.0, 1.5, -2.25, float("inf"), float("-inf"), float("nan"), 1e-45, 3.4e38],
        "db": [0.0, 1.5, -2.25, float("inf"), float("nan"), 5e-324, 1.7e308],
    }
    # valid singular and repeated (packed and unpacked, split into chunks) encodings
    for name, number in SINGULAR.items():
        t = META[name].proto_type
        wire = 5 if WIDTH[t] == 4 else 1
        rname, rnumber = "r_" + name, REPEATED["r_" + name]
        vals = boundary[name] + [
            struct.unpack(FMT[t], bytes(rnd.randrange(256) for _ in range(WIDTH[t])))[0]
            for _ in range(25)
        ]
        for v in vals:
            g = GFx(**{name: v})
            data = g.SerializeToString()
            msg, exc = parse(data, name)
            assert exc is None
            expect = getattr(g, name)
            assert same_numbers(getattr(msg, name), expect), (name, v)
            assert struct.pack(FMT[t], getattr(msg, name)) == struct.pack(FMT[t], expect)
            assert msg._unknown_fields == b""
            if data:
                assert bytes(msg) == data
            # each truncation that cuts the field is rejected (by google as well)
            for cut in range(1, len(data)):
                bad, exc = parse(data[:cut], name)
                assert bad is None and isinstance(exc, EOFError), (name, cut)
                assert g_parse(data[:cut]) is None
        # repeated: packed, unpacked and mixed chunks decode to the same list
        for k in range(0, 7):
            items = [rnd.choice(vals) for _ in range(k)]
            enc = [struct.pack(FMT[t], x) for x in items]
            packed = tag(rnumber, 2) + varint(len(b"".join(enc))) + b"".join(enc)
            unpacked = b"".join(tag(rnumber, wire) + e for e in enc)
            half = k // 2
            mixed = (
                tag(rnumber, 2) + varint(len(b"".join(enc[:half]))) + b"".join(enc[:half])
                + b"".join(tag(rnumber, wire) + e for e in enc[half:])
            )  # fmt: skip
            for data in (packed, unpacked, mixed):
                msg, exc = parse(data, rname)
                assert exc is None
                g = g_parse(data)
                assert g is not None
                got, want = getattr(msg, rname), list(getattr(g, rname))
                assert len(got) == len(want) == k
                assert all(
                    struct.pack(FMT[t], a) == struct.pack(FMT[t], b)
                    for a, b in zip(got, want)
                )
                assert msg._unknown_fields == b""
        # packed runs of every length: accepted iff a whole number of elements
        for n in range(0, 3 * WIDTH[t] + 2):
            body = bytes(rnd.randrange(256) for _ in range(n))
            data = tag(rnumber, 2) + varint(n) + body
            msg, exc = parse(data, rname)
            g = g_parse(data)
            if n % WIDTH[t] == 0:
                assert exc is None and g is not None
                assert len(getattr(msg, rname)) == n // WIDTH[t] == len(getattr(g, rname))
            else:
                assert isinstance(exc, struct.error), (rname, n, exc)
                assert g is None
            # the run cut short by the end of input
            for cut in range(1, len(data)):
                bad, exc = parse(data[:cut], rname)
                assert bad is None and isinstance(exc, EOFError)

    # wire-type substitutions: every (field, wire type, payload) combination
    payloads = {
        0: [b"\x00", b"\x7f", b"\x80\x01", b"\xff" * 9 + b"\x01"],
        1: [b"\x00" * 8, b"\x01\x02\x03\x04\x05\x06\x07\x08", b"\xff" * 8],
        5: [b"\x00" * 4, b"\x01\x02\x03\x04", b"\xff" * 4],
        2: [b"\x00", b"\x04\x01\x02\x03\x04", b"\x08" + b"\x07" * 8, b"\x03abc",
            b"\x05\x0d\x01\x00\x00\x00", b"\x0c" + b"\x01" * 12],
    }  # fmt: skip
    base = GFx(f32=7, sf64=-9, fl=1.5, r_db=[1.0, 2.0], st="keep", i32=-3).SerializeToString()
    base_msg = Fx().parse(base)
    for name, number in {**SINGULAR, **REPEATED, **OTHERS}.items():
        t = META[name].proto_type
        for wire, plist in payloads.items():
            for payload in plist:
                occurrence = tag(number, wire) + payload
                for data in (occurrence, base + occurrence, occurrence + base):
                    msg, exc = parse(data, (name, wire))
                    g = g_parse(data)
                    if t in FMT:
                        natural = 5 if WIDTH[t] == 4 else 1
                        fits = wire == natural or (wire == 2 and name in REPEATED)
                        if not fits:
                            # isolated: kept verbatim, no known field touched
                            assert exc is None and g is not None
                            assert msg._unknown_fields == occurrence
                            expected = base_msg if len(data) > len(occurrence) else Fx()
                            for other in list(SINGULAR) + list(REPEATED):
                                assert bytes_of(msg, other) == bytes_of(expected, other)
                            assert (msg.i32, msg.st) == (expected.i32, expected.st)
                        elif wire != 2:
                            assert exc is None and g is not None
                            assert msg._unknown_fields == b""
                    assert (exc is None) == (g is not None) or isinstance(
                        exc, (UnicodeDecodeError, EOFError, ValueError, struct.error)
                    ), (name, wire, payload, exc)

    # random byte strings biased towards fixed wire types
    numbers = list(SINGULAR.values()) + list(REPEATED.values()) + list(OTHERS.values())
    agree = total = 0
    for _ in range(6000):
        parts = []
        for _ in range(rnd.randrange(1, 5)):
            wire = rnd.choice([1, 5, 1, 5, 2, 2, 0, 3, 7])
            parts.append(tag(rnd.choice(numbers + [9, 40]), wire))
            if wire == 2 and rnd.random() < 0.7:
                n = rnd.randrange(0, 18)
                parts.append(varint(n))
                parts.append(bytes(rnd.randrange(256) for _ in range(n)))
            else:
                parts.append(bytes(rnd.randrange(256) for _ in range(rnd.randrange(0, 10))))
        data = b"".join(parts)
        msg, exc = parse(data, "random")
        total += 1
        agree += (exc is None) == (g_parse(data) is not None)
    record("agreement", agree, total)
    for _ in range(2000):
        data = bytes(rnd.randrange(256) for _ in range(rnd.randrange(0, 20)))
        parse(data, "noise")
    # sized loads over fixed-width fields
    for size in range(0, len(base) + 3):
        stream = io.BytesIO(base + b"\x0d")
        try:
            msg = Fx().load(stream, size)
            record("sized ok", size, show(msg), stream.tell())
        except Exception as exc:  # noqa: BLE001
            record("sized err", size, type(exc).__name__, str(exc), stream.tell())
    return agree, total


def bytes_of(msg, name):
    """Bit-exact image of a fixed-width field (singular or repeated)."""
    v = getattr(msg, name)
    fmt = FMT[META[name].proto_type]
    if isinstance(v, list):
        return [struct.pack(fmt, x) for x in v]
    return struct.pack(fmt, v)


def main():
    rnd = random.Random(171717)
    helper_level(rnd)
    agree, total = message_level(rnd)
    digest = H.hexdigest()
    print(f"recorded outcomes={COUNT['calls']} reference agreement on random input={agree}/{total}")
    print("digest", digest)
    assert digest == EXPECTED_DIGEST, "observable outcomes differ from the reference tree"
    print("ok")


if __name__ == "__main__":
    main()
