"""C04 / keep1: Message.to_dict for plain scalar fields (64-bit ints, bytes, floats and
the pass-through kinds), single / optional / repeated / oneof, both casings, with and
without include_default_values.

The emitted dict is compared with an independent model written here, with
google.protobuf's json_format, and the round trip of the property is checked too."""
import json
import math
import random
import struct
from base64 import b64encode
from dataclasses import dataclass
from typing import Dict, List, Optional

import betterproto
from betterproto import Casing
from google.protobuf import descriptor_pb2, descriptor_pool, json_format, message_factory

rnd = random.Random(20241)

INT64_KINDS = ["int64", "uint64", "sint64", "fixed64", "sfixed64"]
OTHER_KINDS = ["int32", "uint32", "sint32", "fixed32", "sfixed32", "bool", "string"]
FLOAT_KINDS = ["float", "double"]
KINDS = INT64_KINDS + FLOAT_KINDS + ["bytes"] + OTHER_KINDS
PYTYPE = {
    **{k: int for k in INT64_KINDS},
    **{k: float for k in FLOAT_KINDS},
    "bytes": bytes,
    "int32": int,
    "uint32": int,
    "sint32": int,
    "fixed32": int,
    "sfixed32": int,
    "bool": bool,
    "string": str,
}


class Shade(betterproto.Enum):
    SHADE_UNSPECIFIED = 0
    DARK = 1
    LIGHT = 2


def make_class():
    """One field of every scalar kind in every shape: s_<kind> single, o_<kind>
    proto3-optional, r_<kind> repeated, u_<kind> member of the oneof 'pick'."""
    annotations, namespace = {}, {}
    number = 1
    for kind in KINDS:
        factory = getattr(betterproto, f"{kind}_field")
        py = PYTYPE[kind]
        for prefix, hint, kwargs in (
            ("s", py, {}),
            ("o", Optional[py], {"optional": True}),
            ("r", List[py], {}),
            ("u", py, {"group": "pick"}),
        ):
            name = f"{prefix}_{kind}_value"
            annotations[name] = hint
            namespace[name] = factory(number, **kwargs)
            number += 1
    annotations["shade"] = Shade
    namespace["shade"] = betterproto.enum_field(number)
    annotations["shades"] = List[Shade]
    namespace["shades"] = betterproto.enum_field(number + 1)
    namespace["__annotations__"] = annotations
    cls = type("Scalars", (betterproto.Message,), namespace)
    return dataclass(eq=False, repr=False)(cls)


Scalars = make_class()
# the class must be resolvable through its module for get_type_hints
globals()["Scalars"] = Scalars


# ---------------------------------------------------------------- value pools
def f32(x):
    return struct.unpack("<f", struct.pack("<f", x))[0]


INF = float("inf")
POOL = {
    "int64": [0, 1, -1, 2**53, 2**53 + 1, -(2**53) - 1, 2**63 - 1, -(2**63), 1234567890123],
    "sint64": [0, 1, -1, 2**53 + 1, 2**63 - 1, -(2**63), -77],
    "sfixed64": [0, 1, -1, 2**53 + 1, 2**63 - 1, -(2**63), 99],
    "uint64": [0, 1, 2**53 + 1, 2**63, 2**64 - 1, 42],
    "fixed64": [0, 1, 2**53 + 1, 2**63, 2**64 - 1, 7],
    "double": [0.0, -0.0, 1.0, -1.5, 1e-7, 5e-324, 1.7976931348623157e308, 0.1, 1e22,
               INF, -INF, float("nan"), 123456789.125],
    "float": [0.0, -0.0, 1.0, -1.5, f32(0.1), f32(1e-7), f32(3.4028234663852886e38), 0.1,
              INF, -INF, float("nan"), 16777216.0, f32(1e-45)],
    "bytes": [b"", b"\x00", b"a", b"ab", b"abc", b"\xfb\xff\xfe", bytes(range(256)), b"??>>",
              b"\xff" * 7],
    "int32": [0, 1, -1, 2**31 - 1, -(2**31)],
    "sint32": [0, 1, -1, 2**31 - 1, -(2**31)],
    "sfixed32": [0, 1, -1, 2**31 - 1, -(2**31)],
    "uint32": [0, 1, 2**32 - 1],
    "fixed32": [0, 1, 2**32 - 1],
    "bool": [False, True],
    "string": ["", "a", "snow☃man", "quote\"back\\slash", "\u0000nul", "\U0001f600"],
}


# ------------------------------------------------------ independent JSON model
def model_scalar(kind, v):
    if kind in INT64_KINDS:
        return str(v)
    if kind == "bytes":
        return b64encode(v).decode("ascii")
    if kind in FLOAT_KINDS:
        if isinstance(v, float) and math.isnan(v):
            return "NaN"
        if v == INF:
            return "Infinity"
        if v == -INF:
            return "-Infinity"
        return v
    return v


def zero(kind):
    return PYTYPE[kind]()


def differs(kind, a, b):
    """`a != b` as Python sees it (0.0 == -0.0, nan != nan)."""
    return a != b


def model_key(name, casing):
    if casing is Casing.SNAKE:
        return name
    head, *rest = name.split("_")
    return head + "".join(w.capitalize() for w in rest)


def model_to_dict(values, picked, casing, idv):
    """values: field name -> value for every explicitly set field."""
    out = {}
    for kind in KINDS:
        for prefix in "soru":
            name = f"{prefix}_{kind}_value"
            key = model_key(name, casing)
            if prefix == "s":
                v = values.get(name, zero(kind))
                if differs(kind, v, zero(kind)) or idv:
                    out[key] = model_scalar(kind, v)
            elif prefix == "o":
                v = values.get(name)
                if v is not None:
                    out[key] = model_scalar(kind, v)
                elif idv:
                    out[key] = None
            elif prefix == "r":
                v = values.get(name, [])
                if v or idv:
                    out[key] = [model_scalar(kind, i) for i in v]
            else:
                if picked == name:
                    out[key] = model_scalar(kind, values[name])
                elif idv:
                    # an unset oneof member reads as its default
                    out[key] = model_scalar(kind, zero(kind))
    shade = values.get("shade", 0)
    if shade != 0 or idv:
        out["shade"] = Shade.try_value(shade).name or shade
    shades = values.get("shades", [])
    if shades or idv:
        out["shades"] = [Shade.try_value(s).name or s for s in shades]
    return out


def same_json(a, b):
    """Deep equality that also distinguishes 0.0 / -0.0, int / float / bool / str."""
    if type(a) is not type(b):
        return False
    if isinstance(a, dict):
        return list(a) == list(b) and all(same_json(a[k], b[k]) for k in a)
    if isinstance(a, list):
        return len(a) == len(b) and all(same_json(x, y) for x, y in zip(a, b))
    if isinstance(a, float):
        return struct.pack("<d", a) == struct.pack("<d", b)
    return a == b


def ordered(model, actual):
    """The model is built kind by kind like the class, so key order must match too."""
    return same_json(model, actual)


def has_nan_in_list(values):
    return any(
        isinstance(v, list) and any(isinstance(i, float) and i != i for i in v)
        for v in values.values()
    )


# ------------------------------------------------------------------ the checks
def check(values, picked):
    m = Scalars(**values)
    wire = bytes(m)
    for casing in (Casing.CAMEL, Casing.SNAKE):
        for idv in (False, True):
            d = m.to_dict(casing=casing, include_default_values=idv)
            expect = model_to_dict(values, picked, casing, idv)
            assert ordered(expect, d), (casing, idv, expect, d)
            text = json.dumps(d)
            assert text == m.to_json(casing=casing, include_default_values=idv)
        # the property itself (default flags)
        d = m.to_dict(casing=casing)
        js = m.to_json(casing=casing)
        for back in (Scalars.from_dict(d), Scalars().from_dict(d), Scalars().from_json(js)):
            if has_nan_in_list(values):
                # Message.__eq__ tolerates NaN only outside lists: compare the JSON form
                assert same_json(back.to_dict(casing=casing), d), (casing, d)
            else:
                assert back == m, (casing, d)
            assert bytes(back) == wire, (casing, d)
    return m


count = 0
# 1. every kind x every shape x every pool value, one field at a time
for kind in KINDS:
    for v in POOL[kind]:
        for prefix in "sou":
            name = f"{prefix}_{kind}_value"
            check({name: v}, name if prefix == "u" else None)
            count += 1
    pool = POOL[kind]
    for lst in ([], pool[:1], list(pool), list(reversed(pool)), pool[:2] * 3):
        check({f"r_{kind}_value": list(lst)}, None)
        count += 1

# 2. random mixtures of many fields
for _ in range(400):
    values, picked = {}, None
    for kind in KINDS:
        pool = POOL[kind]
        if rnd.random() < 0.4:
            values[f"s_{kind}_value"] = rnd.choice(pool)
        if rnd.random() < 0.4:
            values[f"o_{kind}_value"] = rnd.choice(pool)
        if rnd.random() < 0.4:
            values[f"r_{kind}_value"] = [rnd.choice(pool) for _ in range(rnd.randrange(4))]
    if rnd.random() < 0.7:
        kind = rnd.choice(KINDS)
        picked = f"u_{kind}_value"
        values[picked] = rnd.choice(POOL[kind])
    if rnd.random() < 0.5:
        values["shade"] = rnd.choice([0, 1, 2, 5])
    if rnd.random() < 0.5:
        values["shades"] = [rnd.choice([0, 1, 2, 9]) for _ in range(rnd.randrange(4))]
    check(values, picked)
    count += 1

# 3. a repeated pass-through field is emitted as the very list the message holds
m = Scalars(r_int32_value=[1, 2], r_string_value=["a"], r_bool_value=[True])
d = m.to_dict()
assert d["rInt32Value"] is m.r_int32_value
assert d["rStringValue"] is m.r_string_value
assert d["rBoolValue"] is m.r_bool_value
# ... while converted kinds get a fresh list
m = Scalars(r_int64_value=[1], r_bytes_value=[b"x"], r_double_value=[1.0])
d = m.to_dict()
assert d["rInt64Value"] == ["1"] and d["rBytesValue"] == ["eA=="] and d["rDoubleValue"] == [1.0]
assert d["rDoubleValue"] is not m.r_double_value

# 4. messages that came off the wire
for _ in range(100):
    values = {}
    for kind in KINDS:
        if rnd.random() < 0.5:
            values[f"s_{kind}_value"] = rnd.choice(POOL[kind])
        if rnd.random() < 0.5:
            values[f"r_{kind}_value"] = [rnd.choice(POOL[kind]) for _ in range(rnd.randrange(3))]
    parsed = Scalars().parse(bytes(Scalars(**values)))
    for casing in (Casing.CAMEL, Casing.SNAKE):
        d = parsed.to_dict(casing=casing)
        json.dumps(d)
        if has_nan_in_list(values):
            assert same_json(Scalars.from_dict(d).to_dict(casing=casing), d)
        else:
            assert Scalars.from_dict(d) == parsed
        assert bytes(Scalars().from_json(parsed.to_json(casing=casing))) == bytes(parsed)
    count += 1

# ------------------------------------------- 5. against google.protobuf json_format
T = descriptor_pb2.FieldDescriptorProto
GTYPE = {k: getattr(T, f"TYPE_{k.upper()}") for k in KINDS}
fdp = descriptor_pb2.FileDescriptorProto(name="c04_keep1.proto", package="c04k1", syntax="proto3")
msg = fdp.message_type.add(name="Scalars")
msg.oneof_decl.add(name="pick")
number = 1
synthetic = []
for kind in KINDS:
    for prefix in "soru":
        name = f"{prefix}_{kind}_value"
        f = msg.field.add(name=name, number=number, type=GTYPE[kind],
                          label=T.LABEL_REPEATED if prefix == "r" else T.LABEL_OPTIONAL)
        if prefix == "u":
            f.oneof_index = 0
        elif prefix == "o":
            synthetic.append(f)
        number += 1
for f in synthetic:
    f.proto3_optional = True
    f.oneof_index = len(msg.oneof_decl)
    msg.oneof_decl.add(name=f"_{f.name}")
pool_ = descriptor_pool.DescriptorPool()
pool_.Add(fdp)
GScalars = message_factory.GetMessageClass(pool_.FindMessageTypeByName("c04k1.Scalars"))


def google_compatible(kind, v):
    # google prints float32 fields with float32 precision; keep to values that are
    # float32-exact there, and skip -0.0 singles (emitted / dropped differently).
    if kind == "float" and isinstance(v, float) and math.isfinite(v):
        return f32(v) == v and float(repr(f32(v))) == v and len(repr(v)) < 9
    return True


gcount = 0
for _ in range(300):
    values = {}
    for kind in KINDS:
        pool = [v for v in POOL[kind] if google_compatible(kind, v)]
        if rnd.random() < 0.4:
            v = rnd.choice(pool)
            if not (isinstance(v, float) and v == 0 and math.copysign(1, v) < 0):
                values[f"s_{kind}_value"] = v
        if rnd.random() < 0.4:
            values[f"o_{kind}_value"] = rnd.choice(pool)
        if rnd.random() < 0.4:
            values[f"r_{kind}_value"] = [rnd.choice(pool) for _ in range(rnd.randrange(4))]
    if rnd.random() < 0.7:
        kind = rnd.choice(KINDS)
        values[f"u_{kind}_value"] = rnd.choice([v for v in POOL[kind] if google_compatible(kind, v)])
    m = Scalars(**values)
    g = GScalars()
    g.ParseFromString(bytes(m))
    for casing, preserve in ((Casing.CAMEL, False), (Casing.SNAKE, True)):
        ours = m.to_dict(casing=casing)
        theirs = json_format.MessageToDict(g, preserving_proto_field_name=preserve)
        # compare through JSON text so that 1 / 1.0 spelling differences vanish
        a = json.loads(json.dumps(ours))
        b = json.loads(json.dumps(theirs))
        assert set(a) == set(b), (set(a) ^ set(b))
        for k in a:
            x, y = a[k], b[k]
            if isinstance(x, list):
                assert len(x) == len(y) and all(p == q or (p != p and q != q) for p, q in zip(x, y)), (k, x, y)
            else:
                assert x == y, (k, x, y)
        # and google reads our JSON back to the same bytes
        g2 = json_format.Parse(m.to_json(casing=casing), GScalars())
        assert g2.SerializeToString(deterministic=True) == g.SerializeToString(deterministic=True)
    gcount += 1

print(f"OK ({count} betterproto cases, {gcount} cross-checks with google.protobuf)")
