"""C13 / keep2: the service-stub part of templates/template.py.j2 - rpc input and output types that
live in another package must resolve to (and be handed to grpclib as) exactly the generated class.

Exits 0 on the pristine tree and with the refactor applied.
"""
import ast
import asyncio
import contextlib
import hashlib
import importlib
import io
import itertools
import pathlib
import shutil
import sys
import tempfile
import typing
import warnings

import grpclib.const
from grpclib.testing import ChannelFor

import betterproto
from betterproto.lib.google.protobuf import (
    DescriptorProto,
    EnumDescriptorProto,
    EnumValueDescriptorProto,
    FieldDescriptorProto,
    FieldDescriptorProtoLabel as L,
    FieldDescriptorProtoType as T,
    FileDescriptorProto,
    MethodDescriptorProto,
    MethodOptions,
    ServiceDescriptorProto,
    SourceCodeInfo,
    SourceCodeInfoLocation,
)
from betterproto.lib.google.protobuf.compiler import CodeGeneratorRequest
from betterproto.plugin import compiler as plugin_compiler
from betterproto.plugin import models

plugin_compiler.subprocess.check_output = lambda cmd, input, encoding: input
from betterproto.plugin.parser import generate_code  # noqa: E402

models.monkey_patch_oneof_index()

CHECKS = 0


def ok(cond, *info):
    global CHECKS
    CHECKS += 1
    assert cond, info


def fq(pkg, name):
    return "." + (pkg + "." if pkg else "") + name


def enum(name):
    return EnumDescriptorProto(
        name=name,
        value=[EnumValueDescriptorProto(name="ZERO", number=0), EnumValueDescriptorProto(name="ONE", number=1)],
    )


def target_types():
    scalar = lambda n: FieldDescriptorProto(name=n, number=1, type=T.TYPE_INT32, label=L.LABEL_OPTIONAL)  # noqa: E731
    target = DescriptorProto(
        name="Target",
        field=[scalar("v")],
        nested_type=[DescriptorProto(name="Inner", field=[scalar("w")])],
        enum_type=[enum("Kind")],
    )
    return [target], [enum("Color")]


KINDS = ["Target", "Target.Inner"]
CARDINALITIES = list(itertools.product([False, True], repeat=2))  # (client_streaming, server_streaming)


def service_file(pkg, others, index, comments=False):
    """package pkg: Target/Inner/... and a service with, for every package in others, both message kinds as rpc input
    and as rpc output in all four cardinalities; returns the file and {method name: description}"""
    messages, enums = target_types()
    methods, described, locations = [], {}, []
    for oi, other in enumerate(others):
        for (cs, ss), (ki, kind) in itertools.product(CARDINALITIES, enumerate(KINDS)):
            tag = f"P{oi}K{ki}C{int(cs)}S{int(ss)}"
            deprecated = (oi + ki) % 2 == 1
            methods.append(
                MethodDescriptorProto(name="In" + tag, input_type=fq(other, kind), output_type=fq(pkg, "Target"),
                                      client_streaming=cs, server_streaming=ss)
            )
            described["In" + tag] = dict(inp=(other, kind), out=(pkg, "Target"), cs=cs, ss=ss, deprecated=False)
            methods.append(
                MethodDescriptorProto(name="Out" + tag, input_type=fq(pkg, "Target"), output_type=fq(other, kind),
                                      client_streaming=cs, server_streaming=ss, options=MethodOptions(deprecated=deprecated))
            )
            described["Out" + tag] = dict(inp=(pkg, "Target"), out=(other, kind), cs=cs, ss=ss, deprecated=deprecated)
    if comments:
        for j in range(0, len(methods), 3):
            text = f" method {j}\n second line with \"quotes\"" if j % 2 else " short"
            locations.append(SourceCodeInfoLocation(path=[6, 0, 2, j], leading_comments=text))
        locations.append(SourceCodeInfoLocation(path=[6, 0], leading_comments=" the service"))
    services = [ServiceDescriptorProto(name="Svc", method=methods), ServiceDescriptorProto(name="NoMethods")]
    return (
        FileDescriptorProto(name=f"svc{index}.proto", package=pkg, syntax="proto3", message_type=messages, enum_type=enums,
                            service=services, source_code_info=SourceCodeInfo(location=locations)),
        described,
    )


def run_plugin(files, parameter=""):
    request = CodeGeneratorRequest(parameter=parameter, proto_file=files, file_to_generate=[f.name for f in files])
    with contextlib.redirect_stderr(io.StringIO()):
        response = generate_code(request)
    return {f.name: f.content for f in response.file}


_counter = itertools.count()


def import_generated(out, packages):
    tmp = tempfile.mkdtemp(prefix="c13k2")
    top = f"c13k2gen{next(_counter)}"
    try:
        for name, content in out.items():
            path = pathlib.Path(tmp, top, name)
            path.parent.mkdir(parents=True, exist_ok=True)
            path.write_text(content)
        sys.path.insert(0, tmp)
        try:
            return top, {p: importlib.import_module(top + ("." + p if p else "")) for p in packages}
        finally:
            sys.path.remove(tmp)
    finally:
        shutil.rmtree(tmp, ignore_errors=True)


def module_path(pkg):
    return "/".join(pkg.split(".") + ["__init__.py"]) if pkg else "__init__.py"


def all_packages(alphabet, maxdepth):
    res = [""]
    for d in range(1, maxdepth + 1):
        res += [".".join(c) for c in itertools.product(alphabet, repeat=d)]
    return res


SENTINEL_TIMEOUT, SENTINEL_DEADLINE, SENTINEL_METADATA = 12.5, object(), {"k": "v"}


class Recorder:
    """stands in for the four ServiceStub._<x>_<y> coroutines / async generators"""

    def __init__(self, stub):
        self.calls = []
        for name in ("_unary_unary", "_stream_unary"):
            setattr(stub, name, self._coroutine(name))
        for name in ("_unary_stream", "_stream_stream"):
            setattr(stub, name, self._generator(name))

    def _coroutine(self, name):
        async def call(*args, **kwargs):
            self.calls.append((name, args, kwargs))
            return "the response"
        return call

    def _generator(self, name):
        async def call(*args, **kwargs):
            self.calls.append((name, args, kwargs))
            yield "response 1"
            yield "response 2"
        return call


async def drive(stub_method, request, desc):
    kwargs = dict(timeout=SENTINEL_TIMEOUT, deadline=SENTINEL_DEADLINE, metadata=SENTINEL_METADATA)
    with warnings.catch_warnings(record=True) as caught:
        warnings.simplefilter("always")
        if desc["ss"]:
            result = [r async for r in stub_method(request, **kwargs)]
        else:
            result = await stub_method(request, **kwargs)
    return result, [w for w in caught if issubclass(w.category, DeprecationWarning)]


def check_service(mods, pkg, described, loop):
    module = mods[pkg]
    stub = module.SvcStub(channel=None)
    recorder = Recorder(stub)
    mapping = module.SvcBase().__mapping__()
    ok(len(mapping) == len(described))
    ok(module.NoMethodsBase().__mapping__() == {} and module.NoMethodsStub(channel=None) is not None)
    for name, desc in described.items():
        want_in = getattr(mods[desc["inp"][0]], desc["inp"][1].replace(".", ""))
        want_out = getattr(mods[desc["out"][0]], desc["out"][1].replace(".", ""))
        route = f"/{pkg + '.' if pkg else ''}Svc/{name}"
        py_name = betterproto.casing.safe_snake_case(name)

        # server side: what is registered with grpclib
        handler = mapping[route]
        ok(handler.request_type is want_in, pkg, name, handler.request_type, want_in)
        ok(handler.reply_type is want_out, pkg, name, handler.reply_type, want_out)
        ok(handler.cardinality is {
            (False, False): grpclib.const.Cardinality.UNARY_UNARY, (False, True): grpclib.const.Cardinality.UNARY_STREAM,
            (True, False): grpclib.const.Cardinality.STREAM_UNARY, (True, True): grpclib.const.Cardinality.STREAM_STREAM,
        }[desc["cs"], desc["ss"]])

        # client side: what the stub method hands to ServiceStub
        request = [want_in(), want_in()] if desc["cs"] else want_in()
        del recorder.calls[:]
        result, deprecations = loop.run_until_complete(drive(getattr(stub, py_name), request, desc))
        ok(result == (["response 1", "response 2"] if desc["ss"] else "the response"), pkg, name, result)
        ok(len(recorder.calls) == 1, pkg, name, recorder.calls)
        called, args, kwargs = recorder.calls[0]
        ok(called == f"_{'stream' if desc['cs'] else 'unary'}_{'stream' if desc['ss'] else 'unary'}", pkg, name, called)
        ok(kwargs == dict(timeout=SENTINEL_TIMEOUT, deadline=SENTINEL_DEADLINE, metadata=SENTINEL_METADATA))
        ok(kwargs["deadline"] is SENTINEL_DEADLINE and kwargs["metadata"] is SENTINEL_METADATA)
        if desc["cs"]:
            ok(len(args) == 4 and args[0] == route and args[1] is request and args[2] is want_in and args[3] is want_out,
               pkg, name, args)
        else:
            ok(len(args) == 3 and args[0] == route and args[1] is request and args[2] is want_out, pkg, name, args)
        ok(len(deprecations) == (1 if desc["deprecated"] else 0), pkg, name, deprecations)
        if desc["deprecated"]:
            ok(str(deprecations[0].message) == f"Svc.{py_name} is deprecated")

        # the annotations of stub and base methods name the same classes
        ns = dict(vars(module), Deadline=object, MetadataLike=object)
        stub_hints = typing.get_type_hints(getattr(module.SvcStub, py_name), ns)
        base_hints = typing.get_type_hints(getattr(module.SvcBase, py_name), ns)
        for hints, kind in ((stub_hints, "stub"), (base_hints, "base")):
            ret = hints.pop("return")
            if desc["ss"]:
                ok(ret.__origin__ is typing.get_origin(typing.AsyncIterator[int]) and ret.__args__ == (want_out,), kind, ret)
            else:
                ok(ret is want_out, pkg, name, kind, ret)
            param = [v for k, v in hints.items() if k not in ("timeout", "deadline", "metadata")]
            ok(len(param) == 1)
            if not desc["cs"]:
                ok(param[0] is want_in, pkg, name, kind, param)
            elif kind == "base":
                ok(param[0].__args__ == (want_in,), kind, param)
            else:
                ok([a.__args__ for a in param[0].__args__] == [(want_in,), (want_in,)], kind, param)


loop = asyncio.new_event_loop()

# --------------------------------------------------------------------------------------
# 1. every pair of packages (both directions at once, i.e. circular) of depth 0..2 over {a,b} + some of depth 3
# --------------------------------------------------------------------------------------
PACKAGES = all_packages("ab", 2) + ["a.b.a", "a.a.a", "b.a.b", "a.b.c"]
for n, (P, Q) in enumerate(itertools.combinations(PACKAGES, 2)):
    fp, dp = service_file(P, [Q, P], 0, comments=bool(n % 2))
    fq_, dq = service_file(Q, [P, Q], 1, comments=not n % 2)
    out = run_plugin([fp, fq_], ["", "typing.root", "typing.310"][n % 3])
    top, mods = import_generated(out, [P, Q])
    check_service(mods, P, dp, loop)
    check_service(mods, Q, dq, loop)

# --------------------------------------------------------------------------------------
# 2. all at once: 15 packages, every service refers to all 15
# --------------------------------------------------------------------------------------
PACKAGES = all_packages("ab", 3)
files, descs = [], {}
for i, P in enumerate(PACKAGES):
    f, d = service_file(P, PACKAGES, i, comments=bool(i % 2))
    files.append(f)
    descs[P] = d
out = run_plugin(files)
top, mods = import_generated(out, PACKAGES)
for P, d in descs.items():
    check_service(mods, P, d, loop)

# --------------------------------------------------------------------------------------
# 3. well-known types as rpc types (never unwrapped)
# --------------------------------------------------------------------------------------
import betterproto.lib.google.protobuf as wkt  # noqa: E402

WKT_METHODS = [
    ("EmptyToInt", "Empty", "Int32Value", False, False),
    ("TsToStruct", "Timestamp", "Struct", True, True),
    ("DurToAny", "Duration", "Any", False, True),
    ("StrToBool", "StringValue", "BoolValue", True, False),
]


def wkt_file():
    messages, enums = target_types()
    return FileDescriptorProto(
        name="w.proto", package="w.k", syntax="proto3", message_type=messages, enum_type=enums,
        service=[ServiceDescriptorProto(name="Svc", method=[
            MethodDescriptorProto(name=n, input_type=".google.protobuf." + i, output_type=".google.protobuf." + o,
                                  client_streaming=cs, server_streaming=ss)
            for n, i, o, cs, ss in WKT_METHODS]), ServiceDescriptorProto(name="NoMethods")],
    )


out = run_plugin([wkt_file()])
top, mods = import_generated(out, ["w.k"])
mods["google.protobuf"] = wkt
check_service(mods, "w.k", {
    n: dict(inp=("google.protobuf", i), out=("google.protobuf", o), cs=cs, ss=ss, deprecated=False)
    for n, i, o, cs, ss in WKT_METHODS
}, loop)

# --------------------------------------------------------------------------------------
# 4. end to end through grpclib: cousin / ancestor / root / descendant types on the wire, all cardinalities
# --------------------------------------------------------------------------------------
e2e_packages = ["a.b", "a.c", "a", "", "a.b.d"]
files, descs = [], {}
for i, P in enumerate(e2e_packages):
    f, d = service_file(P, e2e_packages, i)
    files.append(f)
    descs[P] = d
out = run_plugin(files)
top, mods = import_generated(out, e2e_packages)


def make_service(module, described, mods):
    """SvcBase subclass whose methods answer with the number they received (+100 per message)"""
    namespace = {}
    for name, desc in described.items():
        want_in = getattr(mods[desc["inp"][0]], desc["inp"][1].replace(".", ""))
        want_out = getattr(mods[desc["out"][0]], desc["out"][1].replace(".", ""))
        py_name = betterproto.casing.safe_snake_case(name)

        def number(message):
            return message.w if hasattr(message, "w") else message.v

        def reply(cls, n):
            return cls(w=n) if "w" in cls.__dataclass_fields__ else cls(v=n)

        def build(desc=desc, want_in=want_in, want_out=want_out, number=number, reply=reply):
            async def collect(request):
                if desc["cs"]:
                    received = [m async for m in request]
                else:
                    received = [request]
                for m in received:
                    assert type(m) is want_in, (type(m), want_in)
                return [number(m) + 100 for m in received]

            if desc["ss"]:
                async def method(self, request):
                    for n in await collect(request):
                        yield reply(want_out, n)
                    yield reply(want_out, -1)
            else:
                async def method(self, request):
                    return reply(want_out, sum(await collect(request)))
            return method

        namespace[py_name] = build()
    return type("Impl", (module.SvcBase,), namespace)()


async def end_to_end():
    for P in e2e_packages:
        module = mods[P]
        async with ChannelFor([make_service(module, descs[P], mods)]) as channel:
            stub = module.SvcStub(channel)
            for name, desc in descs[P].items():
                want_in = getattr(mods[desc["inp"][0]], desc["inp"][1].replace(".", ""))
                want_out = getattr(mods[desc["out"][0]], desc["out"][1].replace(".", ""))
                field = "w" if "w" in want_in.__dataclass_fields__ else "v"
                out_field = "w" if "w" in want_out.__dataclass_fields__ else "v"
                requests = [want_in(**{field: 1}), want_in(**{field: 2})]
                method = getattr(stub, betterproto.casing.safe_snake_case(name))
                with warnings.catch_warnings():
                    warnings.simplefilter("ignore", DeprecationWarning)
                    if desc["ss"]:
                        got = [r async for r in method(requests if desc["cs"] else requests[0])]
                    else:
                        got = [await method(requests if desc["cs"] else requests[0])]
                ok(all(type(r) is want_out for r in got), P, name, got, want_out)
                numbers = [getattr(r, out_field) for r in got]
                expected = {
                    (False, False): [101], (False, True): [101, -1], (True, False): [203], (True, True): [101, 102, -1],
                }[desc["cs"], desc["ss"]]
                ok(numbers == expected, P, name, numbers, expected)


loop.run_until_complete(end_to_end())

# --------------------------------------------------------------------------------------
# 5. the generated code as a whole (all typing styles, pydantic, comments, deprecation): its syntax tree.
#    Blank lines and the (hash-order dependent) order of the import lines at the module end are no part of it.
# --------------------------------------------------------------------------------------
def normalised(code):
    run, result = [], []
    for node in ast.parse(code).body + [None]:
        if isinstance(node, (ast.Import, ast.ImportFrom)):
            run.append(ast.dump(node))
        else:
            result += sorted(run)
            run = []
            if node is not None:
                result.append(ast.dump(node))
    return result


digest = hashlib.sha256()
golden_packages = ["", "a", "a.b", "a.b.c", "a.c", "b.c.d"]
for parameter in ("", "typing.root", "typing.310", "pydantic_dataclasses"):
    files = [service_file(P, golden_packages, i, comments=bool(i % 2))[0] for i, P in enumerate(golden_packages)]
    files.append(wkt_file())
    out = run_plugin(files, parameter)
    for name in sorted(out):
        digest.update(repr((parameter, name, normalised(out[name]))).encode())
        if name == "a/b/__init__.py" and parameter == "":
            sample = out[name]
ok(digest.hexdigest() == "5426c962bd0750446c1c61c85b0f0e8ded9a6b1b4fe5d0f16be06eeaddb8fb16", digest.hexdigest())

# a few spot checks of the emitted text itself
flat = " ".join(sample.split())
ok('return await self._unary_unary( "/a.b.Svc/InP4K0C0S0", c_target, _c__.Target, timeout=timeout, '
   'deadline=deadline, metadata=metadata, )' not in flat)  # input is a.c.Target, output own Target
ok('return await self._unary_unary( "/a.b.Svc/InP4K0C0S0", c_target, Target, timeout=timeout, deadline=deadline, '
   'metadata=metadata, )' in flat, flat[:200])
ok('async for response in self._stream_stream( "/a.b.Svc/OutP4K1C1S1", target_iterator, Target, _c__.TargetInner, '
   'timeout=timeout, deadline=deadline, metadata=metadata, ): yield response' in flat)
ok('async for response in self._unary_stream( "/a.b.Svc/OutP0K0C0S1", target, __Target__, timeout=timeout, '
   'deadline=deadline, metadata=metadata, ): yield response' in flat)
ok('return await self._stream_unary( "/a.b.Svc/InP1K1C1S0", a_target_inner_iterator, __a__.TargetInner, Target, '
   'timeout=timeout, deadline=deadline, metadata=metadata, )' in flat)
for imp in ("from ... import a as __a__", "from .. import c as _c__", "from ... import Target as __Target__",
            "from ...b.c import d as __b_c_d__", "from . import c"):
    ok(imp in sample.splitlines(), imp)
# the imports come after the stubs (which mention the types first) and before the server base classes
ok(sample.index("class SvcStub") < sample.index("from .. import c as _c__") < sample.index("class SvcBase"))

print(f"ok ({CHECKS} checks)")
