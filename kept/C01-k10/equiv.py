"""C01 keep2: the buffer based readers decode_varint / parse_fields.

decode_varint reads every element of a packed repeated varint field in
Message.load; parse_fields is the public buffer splitter built on it.

Checks
 1. decode_varint against a literal copy of its historical body (BytesIO +
    load_varint) on every offset of many buffers: values, new positions and the
    exceptions (type + text) for truncated / over-long varints;
 2. parse_fields against a literal copy of its historical body and against
    load_fields, on valid messages, on every prefix of them and on random bytes;
 3. packed repeated fields: bytes against google.protobuf, decoding of what
    google.protobuf produced, binary round trips at the 32/64-bit boundaries.
"""
import random
from dataclasses import dataclass
from io import BytesIO
from typing import Any, Dict, List

import betterproto
from betterproto import (
    WIRE_FIXED_32,
    WIRE_FIXED_64,
    WIRE_LEN_DELIM,
    WIRE_VARINT,
    ParsedField,
    decode_varint,
    encode_varint,
    load_fields,
    load_varint,
    parse_fields,
)

rnd = random.Random(802)


# --------------------------------------------------------------------------- refs
def REF_decode_varint(buffer, pos):
    with BytesIO(buffer) as stream:
        stream.seek(pos)
        value, raw = load_varint(stream)
    return value, pos + len(raw)


def REF_parse_fields(value):
    i = 0
    while i < len(value):
        start = i
        num_wire, i = REF_decode_varint(value, i)
        number = num_wire >> 3
        wire_type = num_wire & 0x7
        if number == 0:
            raise ValueError("Invalid field number 0.")

        decoded: Any = None
        if wire_type == WIRE_VARINT:
            decoded, i = REF_decode_varint(value, i)
        elif wire_type == WIRE_FIXED_64:
            decoded, i = value[i : i + 8], i + 8
        elif wire_type == WIRE_LEN_DELIM:
            length, i = REF_decode_varint(value, i)
            decoded = value[i : i + length]
            i += length
        elif wire_type == WIRE_FIXED_32:
            decoded, i = value[i : i + 4], i + 4
        else:
            raise ValueError(f"Unsupported wire type {wire_type} in field {number}.")

        if i > len(value):
            raise EOFError("Buffer ended unexpectedly in the middle of a field.")

        yield ParsedField(
            number=number, wire_type=wire_type, value=decoded, raw=value[start:i]
        )


def outcome(fn, *args):
    try:
        return ("ok", fn(*args))
    except Exception as e:  # noqa: BLE001 - the kind and text of the error are compared
        return ("err", type(e), str(e))


def drain(gen_fn, data):
    """All fields produced before the generator ends or fails, and how it ended."""
    out = []
    try:
        for f in gen_fn(data):
            out.append(f)
    except Exception as e:  # noqa: BLE001
        return out, ("err", type(e), str(e))
    return out, ("end",)


# --------------------------------------------------------------------------- 1
VALUES = sorted(
    {0, 1, 127, 128, 255, 256, 300, 16383, 16384, 2**21 - 1, 2**21, 2**28 - 1, 2**28,
     2**31 - 1, 2**31, 2**32 - 1, 2**32, 2**35 - 1, 2**35, 2**42, 2**49, 2**56 - 1, 2**56,
     2**62, 2**63 - 1, 2**63, 2**63 + 1, 2**64 - 1}
    | {2**k - 1 for k in range(1, 65)}
    | {2**k for k in range(0, 64)}
    | {rnd.getrandbits(rnd.randint(1, 64)) for _ in range(500)}
)
n1 = 0
for v in VALUES:
    enc = encode_varint(v)
    for prefix in (b"", b"\x00", b"\xff\x01", b"\x80" * 3):
        for suffix in (b"", b"\x00", b"\x80", b"\xff" * 12):
            buf = prefix + enc + suffix
            got = outcome(decode_varint, buf, len(prefix))
            assert got == ("ok", (v, len(prefix) + len(enc))), (v, buf, got)
            assert got == outcome(REF_decode_varint, buf, len(prefix))
            n1 += 1
    # truncated anywhere inside
    for cut in range(len(enc)):
        got = outcome(decode_varint, enc[:cut], 0)
        assert got == outcome(REF_decode_varint, enc[:cut], 0)
        assert got[0] == "err" and got[1] is EOFError, got
    # negative numbers as the writer emits them (ten bytes)
    neg = encode_varint(-v) if 0 < v <= 2**63 else None
    if neg is not None:
        assert len(neg) == 10
        assert decode_varint(neg, 0) == REF_decode_varint(neg, 0) == (2**64 - v, 10)

# non-canonical / over-long / garbage buffers, every start offset incl. past the end
WEIRD = [
    b"",
    b"\x80",
    b"\x80\x00",
    b"\x80\x80\x00",
    b"\xff" * 9,
    b"\xff" * 9 + b"\x01",
    b"\xff" * 9 + b"\x7f",  # bits beyond 64 in the tenth byte
    b"\xff" * 10,  # eleventh byte missing: too long wins over EOF
    b"\xff" * 10 + b"\x01",
    b"\xff" * 11,
    b"\x80" * 9 + b"\x01",
    b"\x80" * 10 + b"\x01",
    b"\x80" * 10,
    b"\x80" * 30,
    b"\x81\x80\x80\x80\x80\x80\x80\x80\x80\x00",
    bytes(range(256)),
    bytes(range(255, -1, -1)),
] + [bytes(rnd.getrandbits(8) | (0x80 if rnd.random() < 0.6 else 0) for _ in range(rnd.randint(1, 40))) for _ in range(400)]
for buf in WEIRD:
    for kind in (bytes, bytearray, memoryview):
        b = kind(buf)
        for pos in range(0, len(buf) + 3):
            got = outcome(decode_varint, b, pos)
            ref = outcome(REF_decode_varint, b, pos)
            assert got == ref, (buf, kind, pos, got, ref)
            n1 += 1
assert outcome(decode_varint, b"\xff" * 10, 0) == ("err", ValueError, "Too many bytes when decoding varint.")
assert outcome(decode_varint, b"\xff" * 9, 0)[1] is EOFError
assert decode_varint(b"\xff" * 9 + b"\x01", 0) == (2**64 - 1, 10)


# --------------------------------------------------------------------------- 2
def key(number, wt):
    return encode_varint((number << 3) | wt)


def rand_field():
    number = rnd.choice([1, 2, 15, 16, 17, 2047, 2048, 2**29 - 1, rnd.randint(1, 2**29 - 1)])
    wt = rnd.choice([WIRE_VARINT, WIRE_FIXED_64, WIRE_LEN_DELIM, WIRE_FIXED_32])
    if wt == WIRE_VARINT:
        body = encode_varint(rnd.choice(VALUES))
    elif wt == WIRE_FIXED_64:
        body = bytes(rnd.getrandbits(8) for _ in range(8))
    elif wt == WIRE_FIXED_32:
        body = bytes(rnd.getrandbits(8) for _ in range(4))
    else:
        n = rnd.choice([0, 0, 1, 2, 5, 127, 128, 129, 300])
        body = encode_varint(n) + bytes(rnd.getrandbits(8) for _ in range(n))
    return key(number, wt) + body


def same_fields(a, b):
    return len(a) == len(b) and all(
        (x.number, x.wire_type, x.value, x.raw) == (y.number, y.wire_type, y.value, y.raw)
        and type(x.value) is type(y.value) and type(x.raw) is type(y.raw)
        for x, y in zip(a, b)
    )


def via_load_fields(data):
    return load_fields(BytesIO(data))


n2 = 0
messages = [b""] + [b"".join(rand_field() for _ in range(rnd.randint(1, 6))) for _ in range(300)]
for data in messages:
    got, end = drain(parse_fields, data)
    ref, ref_end = drain(REF_parse_fields, data)
    assert end == ref_end == ("end",), (data, end, ref_end)
    assert same_fields(got, ref), data
    assert b"".join(f.raw for f in got) == data
    # the stream reader splits the same input in the same way
    sf, s_end = drain(via_load_fields, data)
    assert s_end == ("end",) and same_fields(got, sf), data
    # every proper prefix: same fields before the failure, same failure
    for cut in range(len(data)):
        g, e = drain(parse_fields, data[:cut])
        r, re_ = drain(REF_parse_fields, data[:cut])
        assert e == re_ and same_fields(g, r), (data, cut, e, re_)
        n2 += 1
    for kind in (bytearray, memoryview):
        g, e = drain(parse_fields, kind(data))
        r, re_ = drain(REF_parse_fields, kind(data))
        assert e == re_ and len(g) == len(r)
        assert all((x.number, x.wire_type, bytes(x.raw)) == (y.number, y.wire_type, bytes(y.raw)) for x, y in zip(g, r))

BAD = [
    b"\x00",  # field number 0
    b"\x00\x00",
    b"\x07\x00",  # field 0, wire type 7
    b"\x0b",  # group start (3)
    b"\x0c",  # group end (4)
    b"\x0e\x01",  # wire type 6
    b"\x0f",  # wire type 7
    b"\x08",  # varint body missing
    b"\x08\x80",
    b"\x08" + b"\xff" * 10,
    b"\x08" + b"\xff" * 10 + b"\x01",
    b"\x09\x01\x02",  # fixed64 truncated
    b"\x0d\x01",  # fixed32 truncated
    b"\x0a",  # length missing
    b"\x0a\x05ab",  # payload truncated
    b"\x0a\xff\xff\xff\xff\xff\xff\xff\xff\xff\x01",  # absurd length
    b"\x0a\x80",
    b"\xff" * 10,  # key too long
    b"\x80" * 10 + b"\x01",
    b"\x08\x01\x00\x01",  # good field then field 0
    b"\x08\x01\x0b",
]
for data in BAD + [bytes(rnd.getrandbits(8) for _ in range(rnd.randint(1, 30))) for _ in range(3000)]:
    g, e = drain(parse_fields, data)
    r, re_ = drain(REF_parse_fields, data)
    assert e == re_ and same_fields(g, r), (data, e, re_)
    n2 += 1
for data in BAD:
    assert drain(parse_fields, data)[1][0] == "err", data
# lazy like before: nothing is decoded until the generator is advanced
gen = parse_fields(b"\x08\x01\x00")
assert next(gen).value == 1
try:
    next(gen)
    raise AssertionError("field number 0 accepted")
except ValueError as e:
    assert str(e) == "Invalid field number 0."


# --------------------------------------------------------------------------- 3
class Colour(betterproto.Enum):
    NEG = -5
    ZERO = 0
    ONE = 1
    BIG = 2**31 - 1
    MIN = -(2**31)


@dataclass(eq=False, repr=False)
class Packed(betterproto.Message):
    i32: List[int] = betterproto.int32_field(1)
    i64: List[int] = betterproto.int64_field(2)
    u32: List[int] = betterproto.uint32_field(3)
    u64: List[int] = betterproto.uint64_field(4)
    s32: List[int] = betterproto.sint32_field(5)
    s64: List[int] = betterproto.sint64_field(6)
    b: List[bool] = betterproto.bool_field(7)
    e: List[Colour] = betterproto.enum_field(8)
    f32: List[int] = betterproto.fixed32_field(9)
    sf64: List[int] = betterproto.sfixed64_field(10)
    d: List[float] = betterproto.double_field(11)
    fl: List[float] = betterproto.float_field(12)
    tail: str = betterproto.string_field(16)
    m: Dict[int, int] = betterproto.map_field(17, betterproto.TYPE_INT64, betterproto.TYPE_UINT64)


from google.protobuf import descriptor_pb2, descriptor_pool, message_factory  # noqa: E402

F = descriptor_pb2.FieldDescriptorProto
fd = descriptor_pb2.FileDescriptorProto(name="c01_keep2.proto", package="c01k2", syntax="proto3")
en = fd.enum_type.add(name="Colour")
for name, num in (("ZERO", 0), ("NEG", -5), ("ONE", 1), ("BIG", 2**31 - 1), ("MIN", -(2**31))):
    en.value.add(name=name, number=num)
pm = fd.message_type.add(name="Packed")
for num, (name, t) in enumerate(
    [("i32", F.TYPE_INT32), ("i64", F.TYPE_INT64), ("u32", F.TYPE_UINT32), ("u64", F.TYPE_UINT64),
     ("s32", F.TYPE_SINT32), ("s64", F.TYPE_SINT64), ("b", F.TYPE_BOOL), ("e", F.TYPE_ENUM),
     ("f32", F.TYPE_FIXED32), ("sf64", F.TYPE_SFIXED64), ("d", F.TYPE_DOUBLE), ("fl", F.TYPE_FLOAT)], 1
):
    f = pm.field.add(name=name, number=num, type=t, label=F.LABEL_REPEATED)
    if t == F.TYPE_ENUM:
        f.type_name = ".c01k2.Colour"
pm.field.add(name="tail", number=16, type=F.TYPE_STRING, label=F.LABEL_OPTIONAL)
pool = descriptor_pool.Default()
pool.Add(fd)
PbPacked = message_factory.GetMessageClass(pool.FindMessageTypeByName("c01k2.Packed"))

I32 = [0, 1, -1, 127, 128, -128, -129, 2**31 - 1, -(2**31), 2**14, -(2**14) - 1]
I64 = I32 + [2**31, -(2**31) - 1, 2**63 - 1, -(2**63), 2**56, -(2**56)]
U32 = [0, 1, 127, 128, 2**31, 2**32 - 1]
U64 = U32 + [2**32, 2**63 - 1, 2**63, 2**64 - 1]
ENUMS = [Colour.ZERO, Colour.NEG, Colour.ONE, Colour.BIG, Colour.MIN, Colour.try_value(77), Colour.try_value(-77)]
DOM = {
    "i32": I32, "i64": I64, "u32": U32, "u64": U64, "s32": I32, "s64": I64, "b": [True, False],
    "e": ENUMS, "f32": U32, "sf64": I64, "d": [0.0, -0.0, 1.5, float("inf"), -1e300, 5e-324],
    "fl": [0.0, -0.0, 1.5, float("-inf"), 2.0**-149],
}


def check(kw):
    m = Packed(**kw)
    data = bytes(m)
    pb = PbPacked()
    for k, v in kw.items():
        if k == "tail":
            pb.tail = v
        elif k != "m":
            getattr(pb, k).extend([int(x) if k == "e" else x for x in v])
    if "m" not in kw:
        assert data == pb.SerializeToString(deterministic=True), kw
        back_pb = Packed().parse(pb.SerializeToString())
        assert back_pb == m
    assert len(m) == len(data)
    back = Packed().parse(data)
    assert back == m, (kw, back)
    assert bytes(back) == data
    for k, v in kw.items():
        got = getattr(back, k)
        assert got == v and type(got) is type(v), (k, v, got)
        if isinstance(v, list):
            assert [type(x) for x in got] == [type(x) for x in v], (k, v, got)
            assert [repr(x) for x in got] == [repr(x) for x in v], (k, v, got)
    # every packed run is framed so that the buffer splitter sees one field per list
    fields = list(parse_fields(data))
    assert len(fields) == sum(1 for k in kw if k != "m") + len(kw.get("m", ())), kw
    assert b"".join(f.raw for f in fields) == data


n3 = 0
for k, dom in DOM.items():
    for v in dom:
        check({k: [v]})
        check({k: [v, dom[0], v], "tail": "t"})
        n3 += 2
    check({k: list(dom)})
    check({k: list(dom) * 20, "tail": "\U0001f600"})  # payload longer than 127 bytes
for _ in range(300):
    kw = {k: [rnd.choice(dom) for _ in range(rnd.randint(1, 6))] for k, dom in DOM.items() if rnd.random() < 0.5}
    if rnd.random() < 0.5:
        kw["tail"] = rnd.choice(["x", "€", "y" * 200])
    if rnd.random() < 0.3:
        kw["m"] = {rnd.choice(I64): rnd.choice(U64) for _ in range(rnd.randint(1, 4))}
    if kw:
        check(kw)
        n3 += 1

# a repeated field sent in several packed chunks, or unpacked, still concatenates
chunks = b"\x0a\x02\x01\x02" + b"\x08\x03" + b"\x0a\x0b" + encode_varint(-1) + b"\x04"
assert Packed().parse(chunks).i32 == [1, 2, 3, -1, 4]
# truncated / over-long varints inside a packed run are rejected as before
for payload, exc in (
    (b"\x80", EOFError),
    (b"\x01\x80", EOFError),
    (b"\xff" * 9, EOFError),
    (b"\xff" * 10, ValueError),
    (b"\xff" * 10 + b"\x01", ValueError),
):
    data = b"\x22" + encode_varint(len(payload)) + payload
    got = outcome(Packed().parse, data)
    ref_msg = outcome(REF_decode_varint, payload, 1 if payload[:1] == b"\x01" else 0)
    assert got[0] == "err" and got[1] is exc and got[1:] == ref_msg[1:], (payload, got, ref_msg)
assert Packed().parse(b"\x22\x0a" + b"\xff" * 9 + b"\x01").u64 == [2**64 - 1]

print("ok", n1, n2, n3)
