"""Reader side of C10: Message.load with SIZE_DELIMITED / explicit / no size on intact,
cut, over- and under-declared and corrupted streams, compared field by field, byte
position by byte position and error text by error text with an independent model of the
wire reader working on byte offsets, and with google.protobuf on intact streams."""
import io
import random
from dataclasses import dataclass
from typing import List

import betterproto
from betterproto import SIZE_DELIMITED
from google.protobuf import descriptor_pb2, descriptor_pool, message_factory
from google.protobuf import proto as gproto

VARINT, FIXED64, LEN, FIXED32 = 0, 1, 2, 5


@dataclass(eq=False, repr=False)
class Note(betterproto.Message):
    text: str = betterproto.string_field(1)
    n: int = betterproto.int32_field(2)


@dataclass(eq=False, repr=False)
class Blob(betterproto.Message):
    data: bytes = betterproto.bytes_field(1)
    xs: List[int] = betterproto.int32_field(2)
    note: Note = betterproto.message_field(3)
    fx: int = betterproto.fixed32_field(4)
    dbl: float = betterproto.double_field(5)
    tail: str = betterproto.string_field(20)


@dataclass(eq=False, repr=False)
class OldBlob(betterproto.Message):
    xs: List[int] = betterproto.int32_field(2)


@dataclass(eq=False, repr=False)
class Empty(betterproto.Message):
    pass


# number -> wire types the reader decodes; everything else is kept as unknown bytes
KNOWN = {
    Note: {1: {LEN}, 2: {VARINT}},
    Blob: {1: {LEN}, 2: {VARINT, LEN}, 3: {LEN}, 4: {FIXED32}, 5: {FIXED64}, 20: {LEN}},
    OldBlob: {2: {VARINT, LEN}},
    Empty: {},
}


# ------------------------------------------------------------------ model of the reader
class Model:
    """Reads from bytes by offset; mirrors what a correct stream reader must do."""

    def __init__(self, data, pos=0):
        self.data, self.pos = data, pos

    def varint(self, raw):
        result = 0
        for shift in range(0, 71, 7):
            if shift >= 64:
                raise ValueError("Too many bytes when decoding varint.")
            if self.pos >= len(self.data):
                raise EOFError(
                    "Stream ended unexpectedly while attempting to load varint."
                )
            b = self.data[self.pos]
            self.pos += 1
            raw.append(b)
            result |= (b & 0x7F) << shift
            if not b & 0x80:
                return result

    def exact(self, size, raw):
        chunk = self.data[self.pos : self.pos + size]
        self.pos += len(chunk)
        if len(chunk) != size:
            raise EOFError(
                f"Stream ended unexpectedly: expected {size} bytes but got {len(chunk)}."
            )
        raw += chunk

    def field(self):
        if self.pos >= len(self.data):
            return None
        raw = bytearray()
        tag = self.varint(raw)
        number, wire = tag >> 3, tag & 7
        if number == 0:
            raise ValueError("Invalid field number 0.")
        if wire == VARINT:
            self.varint(raw)
        elif wire == FIXED64:
            self.exact(8, raw)
        elif wire == LEN:
            self.exact(self.varint(raw), raw)
        elif wire == FIXED32:
            self.exact(4, raw)
        else:
            raise ValueError(f"Unsupported wire type {wire} in field {number}.")
        return number, wire, bytes(raw)

    def load(self, size):
        if size == SIZE_DELIMITED:
            size = self.varint(bytearray())
        read = 0
        fields = []
        while size is None or read < size:
            f = self.field()
            if f is None:
                break
            read += len(f[2])
            if size is not None and read > size:
                raise ValueError(
                    f"Expected message of size {size}, can only read "
                    f"either {read - len(f[2])} or {read} bytes - there is no "
                    "message of the expected size in the stream."
                )
            fields.append(f)
        if size is not None and read < size:
            raise ValueError(
                f"Expected message of size {size}, but was only able to "
                f"read {read} bytes - the stream may have ended too soon,"
                " or the expected size may have been incorrect."
            )
        return fields


def outcome_model(data, pos, size):
    m = Model(data, pos)
    try:
        fields = m.load(size)
    except (EOFError, ValueError) as e:
        return ("err", type(e), str(e), m.pos), None
    return ("ok", m.pos), fields


def compare(cls, data, pos, size):
    """Run the library and the model on the same input; returns the loaded message."""
    expected, fields = outcome_model(data, pos, size)
    stream = io.BytesIO(data)
    stream.seek(pos)
    msg = cls()
    try:
        ret = msg.load(stream, size)
    except Exception as e:
        got = ("err", type(e), str(e), stream.tell())
        assert got == expected, (cls.__name__, data, pos, size, got, expected)
        return None
    got = ("ok", stream.tell())
    assert ret is msg
    assert got == expected, (cls.__name__, data, pos, size, got, expected)
    known = KNOWN[cls]
    unknown = b"".join(r for n, w, r in fields if w not in known.get(n, ()))
    assert msg._unknown_fields == unknown, (cls.__name__, data, pos, size)
    body = b"".join(r for _, _, r in fields)
    twin = cls().parse(body)
    assert msg == twin and bytes(msg) == bytes(twin)
    assert betterproto.serialized_on_wire(msg)
    return msg


# ------------------------------------------------------------------ google twins
def build_google():
    F = descriptor_pb2.FieldDescriptorProto
    fp = descriptor_pb2.FileDescriptorProto(
        name="c10_keep2.proto", package="c10k2", syntax="proto3"
    )
    note = fp.message_type.add(name="Note")
    note.field.add(name="text", number=1, type=F.TYPE_STRING, label=F.LABEL_OPTIONAL)
    note.field.add(name="n", number=2, type=F.TYPE_INT32, label=F.LABEL_OPTIONAL)
    blob = fp.message_type.add(name="Blob")
    blob.field.add(name="data", number=1, type=F.TYPE_BYTES, label=F.LABEL_OPTIONAL)
    blob.field.add(name="xs", number=2, type=F.TYPE_INT32, label=F.LABEL_REPEATED)
    blob.field.add(name="note", number=3, type=F.TYPE_MESSAGE, type_name=".c10k2.Note",
                   label=F.LABEL_OPTIONAL)
    blob.field.add(name="fx", number=4, type=F.TYPE_FIXED32, label=F.LABEL_OPTIONAL)
    blob.field.add(name="dbl", number=5, type=F.TYPE_DOUBLE, label=F.LABEL_OPTIONAL)
    blob.field.add(name="tail", number=20, type=F.TYPE_STRING, label=F.LABEL_OPTIONAL)
    fp.message_type.add(name="Empty")
    pool = descriptor_pool.DescriptorPool()
    pool.Add(fp)
    get = lambda n: message_factory.GetMessageClass(pool.FindMessageTypeByName(n))
    return {Note: get("c10k2.Note"), Blob: get("c10k2.Blob"), Empty: get("c10k2.Empty")}


G = build_google()


def to_google(m):
    g = G[type(m)]()
    g.ParseFromString(bytes(m))
    return g


# ------------------------------------------------------------------ inputs
def rand_msg(rng):
    c = rng.randrange(6)
    k = rng.choice([0, 1, 2, 5, 126, 127, 128, 129, rng.randrange(0, 260)])
    if c == 0:
        return Note(text="x" * k, n=rng.choice([0, 1, -1, 127, 128, 2**31 - 1]))
    if c == 1:
        return Empty()
    if c == 2:
        return Blob(data=bytes(k), xs=[rng.randrange(-2, 300) for _ in range(k % 9)])
    if c == 3:
        return Blob(note=Note(text="q" * k), tail="w" * (k // 2), fx=k, dbl=k / 4)
    if c == 4:
        return Blob(note=Note(), fx=1)  # present but empty sub-message
    return OldBlob().parse(bytes(Blob(data=b"d" * k, xs=[k, -k], note=Note(n=k), tail="é")))


def write_all(msgs):
    stream = io.BytesIO()
    ends = []
    for m in msgs:
        m.dump(stream, SIZE_DELIMITED)
        ends.append(stream.tell())
    return stream.getvalue(), ends


def test_sequences(rng):
    for round_ in range(70):
        msgs = [rand_msg(rng) for _ in range(rng.randrange(1, 6))]
        data, ends = write_all(msgs)
        # intact
        stream = io.BytesIO(data)
        for m, end in zip(msgs, ends):
            got = type(m)().load(stream, SIZE_DELIMITED)
            assert stream.tell() == end and got == m and bytes(got) == bytes(m)
        try:
            Empty().load(stream, SIZE_DELIMITED)
            raise AssertionError("load on an exhausted stream must raise")
        except EOFError as e:
            assert str(e) == "Stream ended unexpectedly while attempting to load varint."
        # google reads the same frames
        g_ok = [m for m in msgs if type(m) in G]
        if len(g_ok) == len(msgs):
            stream = io.BytesIO(data)
            for m in msgs:
                assert gproto.parse_length_prefixed(G[type(m)], stream) == to_google(m)
            ref = io.BytesIO()
            for m in msgs:
                gproto.serialize_length_prefixed(to_google(m), ref)
            ref.seek(0)
            for m in msgs:
                back = type(m)().load(ref, SIZE_DELIMITED)
                assert back == m
        # every cut point, every frame start, own type and foreign reader types
        starts = [0] + ends[:-1]
        for cut in range(len(data) + 1):
            part = data[:cut]
            for m, start, end in zip(msgs, starts, ends):
                if start > cut:
                    break
                got = compare(type(m), part, start, SIZE_DELIMITED)
                if end <= cut:
                    assert got is not None and got == m and bytes(got) == bytes(m)
                else:
                    assert got is None, ("message returned from a cut frame", cut)
            if cut % 5 == 0:
                for cls in (Empty, Note, OldBlob):
                    for start in starts:
                        if start <= cut:
                            compare(cls, part, start, SIZE_DELIMITED)


def test_explicit_sizes(rng):
    bodies = [
        b"",
        bytes(Note(text="hello", n=7)),
        bytes(Blob(data=b"abc", xs=[1, 2, 300], note=Note(text="n"), fx=9, dbl=1.5, tail="t")),
        # unknown numbers and foreign wire types everywhere, incl. multi-byte tags
        b"\x08\x01" + b"\xa2\x06\x03xyz" + b"\x15\x01\x02\x03\x04" + b"\x12\x00"
        + b"\x19" + bytes(8) + b"\xf8\xff\xff\xff\x0f\x05" + b"\x0a\x00",
        bytes(Blob(data=bytes(130), tail="z" * 200)),
    ]
    for body in bodies:
        bounds = {0}
        m = Model(body)
        while m.field() is not None:
            bounds.add(m.pos)
        follow = b"\x0a\x01Z\x10\x05"
        for data in (body, body + follow):
            for size in [None] + list(range(-4, len(body) + 4)) + [len(data), len(data) + 1, 10**6]:
                for cls in (Empty, Note, Blob, OldBlob):
                    got = compare(cls, data, 0, size)
                    if size is not None and size != SIZE_DELIMITED and data is body:
                        if size <= 0 or size in bounds:
                            assert got is not None
                        else:
                            assert got is None
    # size 0 / negative sizes consume nothing, even from a non-empty stream
    for size in (0, -2, -100):
        s = io.BytesIO(b"\x08\x01")
        msg = Note().load(s, size)
        assert s.tell() == 0 and bytes(msg) == b"" and betterproto.serialized_on_wire(msg)
    # exact texts of the three size errors
    s = io.BytesIO(b"\x08\x01\x10\x02")
    try:
        Empty().load(s, 3)
        raise AssertionError
    except ValueError as e:
        assert str(e) == (
            "Expected message of size 3, can only read either 2 or 4 bytes - there is "
            "no message of the expected size in the stream."
        ) and s.tell() == 4
    s = io.BytesIO(b"\x08\x01\x10\x02")
    try:
        Empty().load(s, 9)
        raise AssertionError
    except ValueError as e:
        assert str(e) == (
            "Expected message of size 9, but was only able to read 4 bytes - the stream "
            "may have ended too soon, or the expected size may have been incorrect."
        ) and s.tell() == 4
    s = io.BytesIO(b"\x05\x08\x01\x10")
    try:
        Empty().load(s, SIZE_DELIMITED)
        raise AssertionError
    except EOFError as e:
        assert str(e) == "Stream ended unexpectedly while attempting to load varint."


def test_errors_while_storing():
    # the field was read and accounted for before decoding it fails
    bad = b"\x0a\x02\xff\xfe" + b"\x10\x01"
    for size, pos in ((None, 4), (6, 4), (4, 4), (SIZE_DELIMITED, None)):
        data = (b"\x06" + bad) if size == SIZE_DELIMITED else bad
        s = io.BytesIO(data)
        msg = Note()
        try:
            msg.load(s, size)
            raise AssertionError
        except UnicodeDecodeError:
            assert s.tell() == (5 if pos is None else pos)
            assert betterproto.serialized_on_wire(msg)
    # a known field that follows unknown ones in a sized frame; state after an overrun
    data = b"\x18\x01" + b"\x10\x07" + b"\x0a\x03abc" + b"\x10\x08"
    s = io.BytesIO(data)
    msg = Note()
    try:
        msg.load(s, 8)
        raise AssertionError
    except ValueError:
        assert s.tell() == 9
        assert msg.n == 7 and msg.text == "" and msg._unknown_fields == b"\x18\x01"
    s = io.BytesIO(data)
    msg = Note().load(s, 9)
    assert (msg.n, msg.text, msg._unknown_fields, s.tell()) == (7, "abc", b"\x18\x01", 9)
    # one instance loaded twice keeps merging (repeated appended, scalars replaced)
    s = io.BytesIO(b"\x02\x10\x01\x04\x10\x02\x10\x03")
    old = OldBlob()
    old.load(s, SIZE_DELIMITED)
    assert old.xs == [1] and s.tell() == 3
    old.load(s, SIZE_DELIMITED)
    assert old.xs == [1, 2, 3] and s.tell() == 8


def test_fuzz(rng):
    seeds = []
    for _ in range(40):
        msgs = [rand_msg(rng) for _ in range(rng.randrange(1, 4))]
        seeds.append(write_all(msgs)[0])
    for _ in range(6000):
        data = bytearray(rng.choice(seeds))
        if len(data) > 300:
            data = data[: rng.randrange(1, 300)]
        for _ in range(rng.randrange(1, 4)):
            op = rng.randrange(4)
            if not data:
                break
            i = rng.randrange(len(data))
            if op == 0:
                data[i] = rng.randrange(256)
            elif op == 1:
                data[i] ^= 1 << rng.randrange(8)
            elif op == 2:
                del data[i]
            else:
                data.insert(i, rng.choice([0, 0x80, 0xFF, 0x0B, 0x0C, rng.randrange(256)]))
        data = bytes(data)
        size = rng.choice([SIZE_DELIMITED, SIZE_DELIMITED, None, rng.randrange(0, 40)])
        pos = rng.choice([0, 0, rng.randrange(0, len(data) + 1)])
        # Empty never decodes a payload, so the model predicts every outcome exactly
        compare(Empty, data, pos, size)
    # varints that are too long / cut, in the prefix and in the frame
    for data in (
        b"\x80" * 10 + b"\x01",
        b"\x80" * 9 + b"\x01" + b"\x08\x01",
        b"\x80",
        b"\x03\x08\x80",
        b"\x0c\x08" + b"\xff" * 10 + b"\x01",
        b"\x02\x00\x00",
        b"\x02\x0b\x00",
        b"\x03\x0d\x00\x00",
        b"\x02\x0a\x05",
    ):
        for cls in (Empty, Note):
            compare(cls, data, 0, SIZE_DELIMITED)
            compare(cls, data, 0, None)
            compare(cls, data, 1, 3)


def main():
    rng = random.Random(1010)
    test_sequences(rng)
    test_explicit_sizes(rng)
    test_errors_while_storing()
    test_fuzz(rng)
    print("C10 keep2 equiv: ok")


if __name__ == "__main__":
    main()
