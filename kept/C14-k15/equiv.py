"""Equivalence check for the value preprocessing under bytes()/len()/pickle:
betterproto._preprocess_single and betterproto._len_preprocessed_single.

Every (proto_type, wraps, value) is compared with an oracle written out here
(explicit if/elif rules + google.protobuf's own encoders), including the exception
types for unusable values; then whole messages are encoded, sized, compared with
google.protobuf's wire output, copied and pickled.

Run as:  PYTHONPATH=/tmp/wt/R11C14/src /venv/bin/python equiv.py
"""
import copy
import math
import pickle
import random
import struct
from dataclasses import dataclass
from datetime import datetime, timedelta, timezone
from typing import Dict, List, Optional

from google.protobuf import duration_pb2, timestamp_pb2, wrappers_pb2
from google.protobuf.internal import encoder as pb_encoder, wire_format

import betterproto
from betterproto import (
    TYPE_BOOL,
    TYPE_BYTES,
    TYPE_DOUBLE,
    TYPE_ENUM,
    TYPE_FIXED32,
    TYPE_FIXED64,
    TYPE_FLOAT,
    TYPE_INT32,
    TYPE_INT64,
    TYPE_MAP,
    TYPE_MESSAGE,
    TYPE_SFIXED32,
    TYPE_SFIXED64,
    TYPE_SINT32,
    TYPE_SINT64,
    TYPE_STRING,
    TYPE_UINT32,
    TYPE_UINT64,
    _len_preprocessed_single,
    _preprocess_single,
)

rnd = random.Random(1414)
CHECKS = 0


# --------------------------------------------------------------------------- oracle
def ref_varint(value):
    if value < -(1 << 63):
        raise ValueError("too small")
    if value < 0:
        value += 1 << 64
    out = bytearray()
    while True:
        low = value & 0x7F
        value >>= 7
        if value:
            out.append(low | 0x80)
        else:
            out.append(low)
            return bytes(out)


FMT = {
    TYPE_DOUBLE: "<d",
    TYPE_FLOAT: "<f",
    TYPE_FIXED32: "<I",
    TYPE_FIXED64: "<Q",
    TYPE_SFIXED32: "<i",
    TYPE_SFIXED64: "<q",
}
PLAIN_VARINT = (TYPE_ENUM, TYPE_BOOL, TYPE_INT32, TYPE_INT64, TYPE_UINT32, TYPE_UINT64)


def ref_preprocess(proto_type, wraps, value):
    """What the adjusted value must be, rule by rule."""
    if proto_type in PLAIN_VARINT:
        return ref_varint(value)
    if proto_type in (TYPE_SINT32, TYPE_SINT64):
        return ref_varint(value << 1 if value >= 0 else (value << 1) ^ (~0))
    if proto_type in FMT:
        return struct.pack(FMT[proto_type], value)
    if proto_type == TYPE_STRING:
        return value.encode("utf-8")
    if proto_type == TYPE_MESSAGE:
        if isinstance(value, datetime):
            off = value - datetime(1970, 1, 1, tzinfo=timezone.utc)
            us = (off.days * 86400 + off.seconds) * 10**6 + off.microseconds
            sec, us = divmod(us, 10**6)
            return bytes(betterproto._Timestamp(sec, us * 1000))
        if isinstance(value, timedelta):
            total = value // timedelta(microseconds=1)
            sec, us = divmod(abs(total), 10**6)
            if total < 0:
                sec, us = -sec, -us
            return bytes(betterproto._Duration(sec, us * 1000))
        if wraps:
            if value is None:
                return b""
            return bytes(betterproto._get_wrapper(wraps)(value=value))
        return bytes(value)
    return value


def outcome(fn, *args):
    try:
        return ("ok", fn(*args))
    except Exception as e:  # noqa: BLE001
        return ("raise", type(e))


def check(proto_type, wraps, value):
    global CHECKS
    CHECKS += 1
    want = outcome(ref_preprocess, proto_type, wraps, value)
    got = outcome(_preprocess_single, proto_type, wraps, value)
    assert got == want, (proto_type, wraps, value, got, want)
    got_len = outcome(_len_preprocessed_single, proto_type, wraps, value)
    if want[0] == "ok":
        if isinstance(want[1], (bytes, bytearray)):
            assert type(got[1]) is type(want[1]), (proto_type, value, got)
        assert got_len == ("ok", len(want[1])), (proto_type, wraps, value, got_len)
    else:
        assert got_len[0] == "raise", (proto_type, wraps, value, got_len)
    return got


# ------------------------------------------------------------------ scalar values
INT_EDGES = sorted(
    {
        s * (2**k + d)
        for k in (0, 1, 6, 7, 8, 13, 14, 15, 16, 20, 21, 27, 28, 31, 32, 34, 35, 42,
                  49, 55, 56, 62, 63, 64, 65, 70)
        for d in (-2, -1, 0, 1, 2)
        for s in (1, -1)
    }
    | {0}
)


def test_varints():
    values = INT_EDGES + [rnd.randrange(-(2**63), 2**64) for _ in range(3000)]
    for proto_type in PLAIN_VARINT:
        for v in values:
            got = check(proto_type, "", v)
            if got[0] == "ok" and -(2**63) <= v < 2**64:
                # google.protobuf agrees (it takes the two's complement as unsigned)
                assert got[1] == pb_encoder._VarintBytes(v % 2**64), (proto_type, v)
        for v in (True, False):
            check(proto_type, "", v)
    # values below -2**63 cannot be encoded: ValueError from encoder and sizer alike
    # (zig-zag turns every negative number into a positive one: no such limit there)
    for proto_type in PLAIN_VARINT:
        for v in (-(2**63) - 1, -(2**64), -(2**70)):
            assert outcome(_preprocess_single, proto_type, "", v) == ("raise", ValueError)
            assert outcome(_len_preprocessed_single, proto_type, "", v) == (
                "raise",
                ValueError,
            )
    # enum members are ints

    class E(betterproto.Enum):
        A = 0
        B = 1
        NEG = -1

    for v in (E.A, E.B, E.NEG, E.try_value(77), E.try_value(-5)):
        got = check(TYPE_ENUM, "", v)
        assert got[1] == pb_encoder._VarintBytes(int(v) % 2**64)


def test_zigzag():
    values = [v for v in INT_EDGES if -(2**63) <= v < 2**63]
    values += [rnd.randrange(-(2**63), 2**63) for _ in range(3000)]
    values += [rnd.randrange(-(2**31), 2**31) for _ in range(1000)]
    for proto_type in (TYPE_SINT32, TYPE_SINT64):
        for v in values:
            got = check(proto_type, "", v)
            assert got == ("ok", pb_encoder._VarintBytes(wire_format.ZigZagEncode(v))), (
                proto_type,
                v,
            )
        # out of the 64-bit range: still the same bytes / the same error as before
        for v in (2**63, 2**63 + 5, 2**64, 2**70, -(2**63) - 1, -(2**64), True, False):
            check(proto_type, "", v)


def test_fixed():
    floats = [0.0, -0.0, 1.0, -1.5, 0.1, 1e-45, 3.4028234e38, 3.5e38, 1e39, -1e39,
              float("inf"), float("-inf"), float("nan"), 1e308, 5e-324, 7, -3, True]
    floats += [rnd.uniform(-1e6, 1e6) for _ in range(500)]
    for proto_type in (TYPE_FLOAT, TYPE_DOUBLE):
        for v in floats:
            check(proto_type, "", v)
    ints = INT_EDGES + [rnd.randrange(-(2**63), 2**64) for _ in range(1000)]
    for proto_type in (TYPE_FIXED32, TYPE_FIXED64, TYPE_SFIXED32, TYPE_SFIXED64):
        for v in ints:
            check(proto_type, "", v)  # out-of-range ones must raise struct.error
    assert outcome(_preprocess_single, TYPE_FIXED32, "", 2**32) == ("raise", struct.error)
    assert outcome(_preprocess_single, TYPE_SFIXED32, "", -(2**31) - 1) == (
        "raise",
        struct.error,
    )
    assert outcome(_len_preprocessed_single, TYPE_FIXED64, "", -1) == (
        "raise",
        struct.error,
    )
    assert outcome(_preprocess_single, TYPE_FLOAT, "", 1e39) == ("raise", OverflowError)
    assert outcome(_len_preprocessed_single, TYPE_FLOAT, "", 1e39) == (
        "raise",
        OverflowError,
    )
    # unusable python types
    for proto_type in FMT:
        for v in ("x", None, b"1", [1]):
            check(proto_type, "", v)


def test_strings_bytes_maps():
    texts = ["", "a", "héllo", "日本語", "\x00", "x" * 127, "y" * 128, "z" * 20000,
             "\U0001f600" * 3, "\ud800"]  # the lone surrogate cannot be encoded
    for t in texts:
        check(TYPE_STRING, "", t)
    assert outcome(_preprocess_single, TYPE_STRING, "", "\ud800") == (
        "raise",
        UnicodeEncodeError,
    )
    for bad in (5, None, b"bytes"):
        check(TYPE_STRING, "", bad)
    # bytes, pre-encoded map entries and packed runs go through untouched: the very
    # same object comes back
    for proto_type in (TYPE_BYTES, TYPE_MAP, "no-such-type"):
        for v in (b"", b"\x00\x01", bytearray(b"abc"), b"q" * 300):
            got = check(proto_type, "", v)
            assert got[1] is v
    assert outcome(_len_preprocessed_single, TYPE_BYTES, "", 5) == ("raise", TypeError)


# ---------------------------------------------------------- message-typed values
@dataclass(eq=False, repr=False)
class Leaf(betterproto.Message):
    n: int = betterproto.sint64_field(1)
    s: str = betterproto.string_field(2)


def test_message_values():
    utc = timezone.utc
    stamps = [
        datetime(1970, 1, 1, tzinfo=utc),
        datetime(1969, 12, 31, 23, 59, 59, 999999, tzinfo=utc),
        datetime(1, 1, 1, tzinfo=utc),
        datetime(9999, 12, 31, 23, 59, 59, 999999, tzinfo=utc),
        datetime(2242, 12, 31, 23, 0, 0, 1, tzinfo=utc),
        datetime(2024, 2, 29, 12, 0, 0, 500000, tzinfo=timezone(timedelta(hours=5, minutes=30))),
    ]
    stamps += [
        datetime(1970, 1, 1, tzinfo=utc)
        + timedelta(microseconds=rnd.randrange(-(10**16), 10**17))
        for _ in range(500)
    ]
    for dt in stamps:
        for wraps in ("", TYPE_INT32):  # a datetime wins over a wraps hint
            got = check(TYPE_MESSAGE, wraps, dt)
            pb = timestamp_pb2.Timestamp()
            pb.FromDatetime(dt)
            assert got[1] == pb.SerializeToString(), dt
    assert outcome(_preprocess_single, TYPE_MESSAGE, "", datetime(2020, 1, 1)) == (
        "raise",
        TypeError,
    )  # naive datetimes are refused, as before
    assert outcome(_len_preprocessed_single, TYPE_MESSAGE, "", datetime(2020, 1, 1)) == (
        "raise",
        TypeError,
    )

    deltas = [timedelta(0), timedelta(microseconds=1), timedelta(microseconds=-1),
              timedelta(seconds=-1, microseconds=500000), timedelta(days=3650000),
              timedelta(days=-3650000), timedelta.max, timedelta.min]
    deltas += [timedelta(microseconds=rnd.randrange(-(10**17), 10**17)) for _ in range(500)]
    for td in deltas:
        got = check(TYPE_MESSAGE, "", td)
        pb = duration_pb2.Duration()
        try:
            pb.FromTimedelta(td)
        except Exception:  # noqa: BLE001  (google refuses > 10000 years)
            continue
        assert got[1] == pb.SerializeToString(), td

    wrapped = {
        TYPE_BOOL: ([True, False], wrappers_pb2.BoolValue),
        TYPE_INT32: ([0, 1, -1, 2**31 - 1, -(2**31)], wrappers_pb2.Int32Value),
        TYPE_INT64: ([0, 2**63 - 1, -(2**63)], wrappers_pb2.Int64Value),
        TYPE_UINT32: ([0, 2**32 - 1], wrappers_pb2.UInt32Value),
        TYPE_UINT64: ([0, 2**64 - 1], wrappers_pb2.UInt64Value),
        TYPE_FLOAT: ([0.0, 1.5, -2.25], wrappers_pb2.FloatValue),
        TYPE_DOUBLE: ([0.0, 0.1, -1e300], wrappers_pb2.DoubleValue),
        TYPE_STRING: (["", "x", "héllo"], wrappers_pb2.StringValue),
        TYPE_BYTES: ([b"", b"\x00\xff"], wrappers_pb2.BytesValue),
    }
    for wraps, (values, pb_cls) in wrapped.items():
        for v in values:
            got = check(TYPE_MESSAGE, wraps, v)
            assert got[1] == pb_cls(value=v).SerializeToString(), (wraps, v)
        # an absent wrapper contributes nothing
        assert check(TYPE_MESSAGE, wraps, None) == ("ok", b"")
        assert _len_preprocessed_single(TYPE_MESSAGE, wraps, None) == 0
    assert outcome(_preprocess_single, TYPE_MESSAGE, "nope", 1) == ("raise", KeyError)
    assert outcome(_len_preprocessed_single, TYPE_MESSAGE, "nope", 1) == ("raise", KeyError)

    # plain sub-messages, including ones with unknown fields and an unusable None
    for child in (Leaf(), Leaf(n=-5, s="x"), Leaf().parse(b"\x08\x03\x98\x06\x01")):
        got = check(TYPE_MESSAGE, "", child)
        assert got[1] == bytes(child)
    assert outcome(_preprocess_single, TYPE_MESSAGE, "", None) == ("raise", TypeError)
    assert outcome(_len_preprocessed_single, TYPE_MESSAGE, "", None) == ("raise", TypeError)


# ------------------------------------------------------------------ whole messages
class Kind(betterproto.Enum):
    ZERO = 0
    ONE = 1
    NEG = -1


@dataclass(eq=False, repr=False)
class Everything(betterproto.Message):
    i32: int = betterproto.int32_field(1)
    i64: int = betterproto.int64_field(2)
    u32: int = betterproto.uint32_field(3)
    u64: int = betterproto.uint64_field(4)
    s32: int = betterproto.sint32_field(5)
    s64: int = betterproto.sint64_field(6)
    f32: int = betterproto.fixed32_field(7)
    f64: int = betterproto.fixed64_field(8)
    sf32: int = betterproto.sfixed32_field(9)
    sf64: int = betterproto.sfixed64_field(10)
    flt: float = betterproto.float_field(11)
    dbl: float = betterproto.double_field(12)
    flag: bool = betterproto.bool_field(13)
    text: str = betterproto.string_field(14)
    blob: bytes = betterproto.bytes_field(15)
    kind: "Kind" = betterproto.enum_field(16)
    leaf: "Leaf" = betterproto.message_field(17)
    when: datetime = betterproto.message_field(18)
    span: timedelta = betterproto.message_field(19)
    maybe: Optional[int] = betterproto.message_field(20, wraps=betterproto.TYPE_INT64)
    name: Optional[str] = betterproto.message_field(21, wraps=betterproto.TYPE_STRING)
    r_s64: List[int] = betterproto.sint64_field(22)
    r_dbl: List[float] = betterproto.double_field(23)
    r_sf32: List[int] = betterproto.sfixed32_field(24)
    r_text: List[str] = betterproto.string_field(25)
    r_leaf: List["Leaf"] = betterproto.message_field(26)
    r_when: List[datetime] = betterproto.message_field(27)
    r_kind: List["Kind"] = betterproto.enum_field(28)
    m_si: Dict[str, int] = betterproto.map_field(29, TYPE_STRING, TYPE_SINT32)
    m_il: Dict[int, "Leaf"] = betterproto.map_field(30, TYPE_INT64, TYPE_MESSAGE)
    m_bd: Dict[bool, float] = betterproto.map_field(31, TYPE_BOOL, TYPE_DOUBLE)
    o_s: int = betterproto.sint32_field(32, group="pick")
    o_t: str = betterproto.string_field(33, group="pick")
    o_f: int = betterproto.sfixed64_field(34, group="pick")
    opt: Optional[int] = betterproto.sint64_field(35, optional=True)


def rand_int(bits, signed):
    if signed:
        return rnd.choice(
            [0, 1, -1, 2 ** (bits - 1) - 1, -(2 ** (bits - 1)), rnd.randrange(-(2 ** (bits - 1)), 2 ** (bits - 1))]
        )
    return rnd.choice([0, 1, 2**bits - 1, rnd.randrange(0, 2**bits)])


def rand_leaf():
    return Leaf(n=rand_int(64, True), s=rnd.choice(["", "a", "héllo"]))


def rand_message():
    utc = timezone.utc
    kw = {}

    def maybe(name, make):
        if rnd.random() < 0.5:
            kw[name] = make()

    maybe("i32", lambda: rand_int(32, True))
    maybe("i64", lambda: rand_int(64, True))
    maybe("u32", lambda: rand_int(32, False))
    maybe("u64", lambda: rand_int(64, False))
    maybe("s32", lambda: rand_int(32, True))
    maybe("s64", lambda: rand_int(64, True))
    maybe("f32", lambda: rand_int(32, False))
    maybe("f64", lambda: rand_int(64, False))
    maybe("sf32", lambda: rand_int(32, True))
    maybe("sf64", lambda: rand_int(64, True))
    maybe("flt", lambda: rnd.choice([0.0, 1.5, -2.25, 1024.0]))
    maybe("dbl", lambda: rnd.choice([0.0, 0.1, -1e300, rnd.random()]))
    maybe("flag", lambda: rnd.random() < 0.5)
    maybe("text", lambda: rnd.choice(["", "t", "日本語"]))
    maybe("blob", lambda: rnd.choice([b"", b"\x00\x01"]))
    maybe("kind", lambda: rnd.choice([Kind.ZERO, Kind.ONE, Kind.NEG, Kind.try_value(9)]))
    maybe("leaf", rand_leaf)
    maybe(
        "when",
        lambda: datetime(1970, 1, 1, tzinfo=utc)
        + timedelta(microseconds=rnd.randrange(-(10**15), 10**16)),
    )
    maybe("span", lambda: timedelta(microseconds=rnd.randrange(-(10**14), 10**14)))
    maybe("maybe", lambda: rnd.choice([None, 0, -7, 2**40]))
    maybe("name", lambda: rnd.choice([None, "", "nm"]))
    maybe("r_s64", lambda: [rand_int(64, True) for _ in range(rnd.randrange(4))])
    maybe("r_dbl", lambda: [rnd.random() for _ in range(rnd.randrange(4))])
    maybe("r_sf32", lambda: [rand_int(32, True) for _ in range(rnd.randrange(4))])
    maybe("r_text", lambda: [rnd.choice(["", "x"]) for _ in range(rnd.randrange(4))])
    maybe("r_leaf", lambda: [rand_leaf() for _ in range(rnd.randrange(3))])
    maybe(
        "r_when",
        lambda: [
            datetime(2000, 1, 1, tzinfo=utc) + timedelta(seconds=rnd.randrange(10**8))
            for _ in range(rnd.randrange(3))
        ],
    )
    maybe("r_kind", lambda: [rnd.choice([Kind.ZERO, Kind.ONE, Kind.NEG]) for _ in range(rnd.randrange(4))])
    maybe("m_si", lambda: {rnd.choice(["", "k", "kk"]): rand_int(32, True) for _ in range(rnd.randrange(3))})
    maybe("m_il", lambda: {rand_int(64, True): rand_leaf() for _ in range(rnd.randrange(3))})
    maybe("m_bd", lambda: {rnd.random() < 0.5: rnd.random() for _ in range(rnd.randrange(3))})
    pick = rnd.choice([None, "o_s", "o_t", "o_f"])
    if pick == "o_s":
        kw["o_s"] = rnd.choice([0, -1, 5])
    elif pick == "o_t":
        kw["o_t"] = rnd.choice(["", "t"])
    elif pick == "o_f":
        kw["o_f"] = rnd.choice([0, -(2**63)])
    maybe("opt", lambda: rnd.choice([None, 0, -3]))
    return Everything(**kw)


def manual_encode(m):
    """bytes(m) rebuilt from the single-value helper under test (numbers ascending)."""
    out = b""
    meta_by = m._betterproto.meta_by_field_name  # noqa: SLF001
    for name, meta in meta_by.items():
        try:
            value = getattr(m, name)
        except AttributeError:
            continue
        if value is None:
            continue
        key_ld = betterproto.encode_varint((meta.number << 3) | 2)
        if isinstance(value, list):
            if not value:
                continue
            if meta.proto_type in betterproto.PACKED_TYPES:
                body = b"".join(_preprocess_single(meta.proto_type, "", i) for i in value)
                out += key_ld + betterproto.encode_varint(len(body)) + body
            else:
                for i in value:
                    body = _preprocess_single(meta.proto_type, meta.wraps or "", i)
                    out += key_ld + betterproto.encode_varint(len(body)) + body
        elif isinstance(value, dict):
            for k, v in value.items():
                out += betterproto._serialize_single(
                    meta.number,
                    TYPE_MAP,
                    betterproto._serialize_single(1, meta.map_types[0], k)
                    + betterproto._serialize_single(2, meta.map_types[1], v),
                    serialize_empty=True,
                )
        else:
            forced = bool(meta.group) or meta.optional
            child_present = isinstance(value, betterproto.Message) and value._serialized_on_wire
            if value == m._get_field_default(name) and not (forced or child_present):
                continue
            out += betterproto._serialize_single(
                meta.number,
                meta.proto_type,
                value,
                serialize_empty=forced or child_present,
                wraps=meta.wraps or "",
            )
    return out


def test_whole_messages():
    global CHECKS
    for _ in range(600):
        m = rand_message()
        data = bytes(m)
        CHECKS += 1
        assert len(m) == len(data)
        assert manual_encode(m) == data
        again = Everything().parse(data)
        assert again == m, (again, m)
        assert bytes(again) == data
        for c in (copy.copy(m), copy.deepcopy(m), pickle.loads(pickle.dumps(m))):
            assert c == m
            assert bytes(c) == data
            assert len(c) == len(data)
        # observers leave it alone
        m.to_dict(), m.to_json(), repr(m), bool(m)
        assert bytes(m) == data and len(m) == len(data)
    # delimited dump uses the sizer for the prefix
    import io

    m = rand_message()
    buf = io.BytesIO()
    m.dump(buf, betterproto.SIZE_DELIMITED)
    assert buf.getvalue() == betterproto.encode_varint(len(bytes(m))) + bytes(m)


def test_against_google_descriptor_pool():
    """Encode a message of scalars with google.protobuf built from a descriptor."""
    from google.protobuf import descriptor_pb2, descriptor_pool, message_factory

    T = descriptor_pb2.FieldDescriptorProto
    spec = [
        ("i32", 1, T.TYPE_INT32), ("i64", 2, T.TYPE_INT64), ("u32", 3, T.TYPE_UINT32),
        ("u64", 4, T.TYPE_UINT64), ("s32", 5, T.TYPE_SINT32), ("s64", 6, T.TYPE_SINT64),
        ("f32", 7, T.TYPE_FIXED32), ("f64", 8, T.TYPE_FIXED64), ("sf32", 9, T.TYPE_SFIXED32),
        ("sf64", 10, T.TYPE_SFIXED64), ("flt", 11, T.TYPE_FLOAT), ("dbl", 12, T.TYPE_DOUBLE),
        ("flag", 13, T.TYPE_BOOL), ("text", 14, T.TYPE_STRING), ("blob", 15, T.TYPE_BYTES),
    ]
    fdp = descriptor_pb2.FileDescriptorProto(name="c14_keep1.proto", package="c14k1", syntax="proto3")
    msg = fdp.message_type.add(name="Scalars")
    for name, number, typ in spec:
        msg.field.add(name=name, number=number, type=typ, label=T.LABEL_OPTIONAL)
    rep = msg.field.add(name="r_s64", number=22, type=T.TYPE_SINT64, label=T.LABEL_REPEATED)
    rep = msg.field.add(name="r_dbl", number=23, type=T.TYPE_DOUBLE, label=T.LABEL_REPEATED)
    rep = msg.field.add(name="r_sf32", number=24, type=T.TYPE_SFIXED32, label=T.LABEL_REPEATED)
    rep = msg.field.add(name="r_text", number=25, type=T.TYPE_STRING, label=T.LABEL_REPEATED)
    pool = descriptor_pool.DescriptorPool()
    pool.Add(fdp)
    cls = message_factory.GetMessageClass(pool.FindMessageTypeByName("c14k1.Scalars"))
    names = [s[0] for s in spec] + ["r_s64", "r_dbl", "r_sf32", "r_text"]
    global CHECKS
    for _ in range(400):
        m = rand_message()
        kw = {}
        for n in names:
            raw = m.__dict__.get(n, betterproto.PLACEHOLDER)
            if raw is not betterproto.PLACEHOLDER:
                kw[n] = raw
        ours = Everything(**kw)
        theirs = cls(**kw)
        CHECKS += 1
        assert bytes(ours) == theirs.SerializeToString(deterministic=True), kw
        assert len(ours) == theirs.ByteSize()


def main():
    test_varints()
    test_zigzag()
    test_fixed()
    test_strings_bytes_maps()
    test_message_values()
    test_whole_messages()
    test_against_google_descriptor_pool()
    assert not math.isnan(CHECKS)
    print(f"keep1 equiv: OK ({CHECKS} checks)")


if __name__ == "__main__":
    main()
