"""C13 / keep1: is_map() and MapEntryCompiler (plugin/models.py) - map fields whose value
refers to a type of another package must keep resolving to the right class.

Exits 0 on the pristine tree and with the refactor applied.
"""
import contextlib
import importlib
import io
import itertools
import pathlib
import re
import shutil
import sys
import tempfile
import typing

import betterproto
from betterproto.compile.importing import get_type_reference
from betterproto.lib.google.protobuf import (
    DescriptorProto,
    EnumDescriptorProto,
    EnumValueDescriptorProto,
    FieldDescriptorProto,
    FieldDescriptorProtoLabel as L,
    FieldDescriptorProtoType as T,
    FileDescriptorProto,
    MessageOptions,
)
from betterproto.lib.google.protobuf.compiler import CodeGeneratorRequest
from betterproto.plugin import compiler as plugin_compiler
from betterproto.plugin import models
from betterproto.plugin.typing_compiler import DirectImportTypingCompiler

plugin_compiler.subprocess.check_output = lambda cmd, input, encoding: input
from betterproto.plugin.parser import generate_code  # noqa: E402

models.monkey_patch_oneof_index()

CHECKS = 0


def ok(cond, *info):
    global CHECKS
    CHECKS += 1
    assert cond, info


# --------------------------------------------------------------------------------------
# 1. is_map() against an independent statement of its contract
# --------------------------------------------------------------------------------------
def spec_is_map(field, parent):
    if field.type != T.TYPE_MESSAGE:
        return False
    if not hasattr(parent, "nested_type"):
        return False
    wanted = field.name.replace("_", "").lower() + "entry"
    if field.type_name.split(".")[-1].lower() != wanted:
        return False
    for nested in parent.nested_type:
        if nested.name.replace("_", "").lower() == wanted and nested.options.map_entry:
            return True
    return False


class NoNestedTypes:
    """stands for a MessageCompiler: FieldCompiler.repeated passes one as parent"""


FIELD_NAMES = ["foo", "foo_bar", "fooBar", "foobar", "FOO", "foo__bar", "f1", "_x", "entry", ""]
TYPE_LEAVES = ["FooEntry", "FooBarEntry", "FoobarEntry", "Foo_Bar_Entry", "fooentry", "FOOENTRY", "F1Entry",
               "XEntry", "EntryEntry", "Entry", "Other", ""]
NESTED_SETS = [
    [],
    [("FooEntry", True)],
    [("FooEntry", False)],
    [("FooBarEntry", True)],
    [("FoobarEntry", True), ("FooBarEntry", False)],
    [("FooBarEntry", False), ("Foo_bar_entry", True)],
    [("Other", True)],
    [("Other", True), ("FooEntry", False), ("FooEntry", True)],
    [("F1Entry", True), ("XEntry", True), ("EntryEntry", True), ("Entry", True)],
    [("fooentry", True)],
]
for fname, leaf, nested_set in itertools.product(FIELD_NAMES, TYPE_LEAVES, NESTED_SETS):
    for prefix in ("", ".pkg.Msg.", "Msg.", ".a.b.c.Outer.Inner."):
        for ftype in (T.TYPE_MESSAGE, T.TYPE_ENUM, T.TYPE_STRING, T.TYPE_INT32, T.TYPE_GROUP):
            for label in (L.LABEL_REPEATED, L.LABEL_OPTIONAL):
                field = FieldDescriptorProto(name=fname, number=1, type=ftype, type_name=prefix + leaf, label=label)
                parent = DescriptorProto(
                    name="Msg",
                    nested_type=[
                        DescriptorProto(name=n, options=MessageOptions(map_entry=True)) if flag else DescriptorProto(name=n)
                        for n, flag in nested_set
                    ],
                )
                ok(models.is_map(field, parent) is spec_is_map(field, parent), fname, leaf, nested_set, prefix, ftype)
                ok(models.is_map(field, NoNestedTypes()) is False)
assert CHECKS > 20000, CHECKS


# --------------------------------------------------------------------------------------
# helpers to run the plugin and import what it generated
# --------------------------------------------------------------------------------------
def fq(pkg, name):
    return "." + (pkg + "." if pkg else "") + name


def enum(name):
    return EnumDescriptorProto(
        name=name,
        value=[EnumValueDescriptorProto(name="ZERO", number=0), EnumValueDescriptorProto(name="ONE", number=1)],
    )


def scalar(name, number, ftype=T.TYPE_INT32):
    return FieldDescriptorProto(name=name, number=number, type=ftype, label=L.LABEL_OPTIONAL)


def target_types():
    """Target (with nested Inner and Kind) and the enum Color"""
    target = DescriptorProto(
        name="Target",
        field=[scalar("v", 1)],
        nested_type=[DescriptorProto(name="Inner", field=[scalar("w", 1)])],
        enum_type=[enum("Kind")],
    )
    return [target], [enum("Color")]


def camel(name):
    return "".join(part[:1].upper() + part[1:] for part in name.split("_"))


def map_field(owner_fq, name, number, key_type, value_type, value_type_name=""):
    """(field, entry message) the way protoc describes ``map<K, V> name = number``"""
    entry_name = camel(name) + "Entry"
    entry = DescriptorProto(
        name=entry_name,
        options=MessageOptions(map_entry=True),
        field=[
            FieldDescriptorProto(name="key", number=1, type=key_type, label=L.LABEL_OPTIONAL),
            FieldDescriptorProto(name="value", number=2, type=value_type, type_name=value_type_name, label=L.LABEL_OPTIONAL),
        ],
    )
    field = FieldDescriptorProto(
        name=name, number=number, type=T.TYPE_MESSAGE, type_name=f"{owner_fq}.{entry_name}", label=L.LABEL_REPEATED
    )
    return field, entry


def run_plugin(files, parameter=""):
    request = CodeGeneratorRequest(parameter=parameter, proto_file=files, file_to_generate=[f.name for f in files])
    with contextlib.redirect_stderr(io.StringIO()):
        response = generate_code(request)
    return {f.name: f.content for f in response.file}


_counter = itertools.count()


def import_generated(out, packages):
    tmp = tempfile.mkdtemp(prefix="c13k1")
    top = f"c13k1gen{next(_counter)}"
    try:
        for name, content in out.items():
            path = pathlib.Path(tmp, top, name)
            path.parent.mkdir(parents=True, exist_ok=True)
            path.write_text(content)
        sys.path.insert(0, tmp)
        try:
            return top, {p: importlib.import_module(top + ("." + p if p else "")) for p in packages}
        finally:
            sys.path.remove(tmp)
    finally:
        shutil.rmtree(tmp, ignore_errors=True)


def module_path(pkg):
    return "/".join(pkg.split(".") + ["__init__.py"]) if pkg else "__init__.py"


def field_line(code, class_name, field_name):
    body = code.split(f"class {class_name}(betterproto.Message):", 1)[1]
    match = re.search(rf"^    {re.escape(field_name)}: (.*)$", body, re.M)
    assert match, (class_name, field_name)
    return match.group(1)


KINDS = [("Target", T.TYPE_MESSAGE), ("Target.Inner", T.TYPE_MESSAGE), ("Color", T.TYPE_ENUM), ("Target.Kind", T.TYPE_ENUM)]
KEY_TYPES = [
    (T.TYPE_STRING, "str"), (T.TYPE_INT32, "int"), (T.TYPE_INT64, "int"), (T.TYPE_UINT32, "int"), (T.TYPE_UINT64, "int"),
    (T.TYPE_SINT32, "int"), (T.TYPE_SINT64, "int"), (T.TYPE_FIXED32, "int"), (T.TYPE_FIXED64, "int"),
    (T.TYPE_SFIXED32, "int"), (T.TYPE_SFIXED64, "int"), (T.TYPE_BOOL, "bool"),
]


def all_packages(alphabet, maxdepth):
    res = [""]
    for d in range(1, maxdepth + 1):
        res += [".".join(c) for c in itertools.product(alphabet, repeat=d)]
    return res


def holder_file(pkg, others, index, in_nested=False):
    """package pkg: Target/Inner/Kind/Color + a Holder whose maps refer to the 4 kinds of every package in others.
    With in_nested the maps live in Holder.Deep (a nested message) instead."""
    messages, enums = target_types()
    owner = "Holder.Deep" if in_nested else "Holder"
    fields, entries, expected = [], [], {}
    number = 1
    for oi, other in enumerate(others):
        for ki, (kind, ktype) in enumerate(KINDS):
            key_type, key_py = KEY_TYPES[(oi + ki + index) % len(KEY_TYPES)]
            name = f"m_{'abcdefghijklmnopqrstuvwxyz'[oi]}_{'wxyz'[ki]}"
            f, e = map_field(fq(pkg, owner), name, number, key_type, ktype, fq(other, kind))
            number += 1
            fields.append(f)
            entries.append(e)
            expected[name] = (other, kind, ktype, key_type, key_py)
    holder = DescriptorProto(name=owner.split(".")[-1], field=fields, nested_type=entries)
    if in_nested:
        holder = DescriptorProto(name="Holder", nested_type=[holder], field=[scalar("unused", 1)])
    return (
        FileDescriptorProto(
            name=f"file{index}.proto", package=pkg, syntax="proto3", message_type=messages + [holder], enum_type=enums
        ),
        expected,
    )


def check_holder(code, mods, pkg, expected, in_nested=False):
    class_name = "HolderDeep" if in_nested else "Holder"
    cls = getattr(mods[pkg], class_name)
    hints = typing.get_type_hints(cls)
    meta = cls._betterproto
    for name, (other, kind, ktype, key_type, key_py) in expected.items():
        want = getattr(mods[other], kind.replace(".", ""))
        # the emitted text: same reference string as get_type_reference gives for (pkg, type), right key type
        imports = set()
        ref = get_type_reference(
            package=pkg, imports=imports, source_type=fq(other, kind), typing_compiler=DirectImportTypingCompiler()
        )
        line = field_line(code, class_name, name)
        number = meta.meta_by_field_name[name].number
        ok(
            line == f"Dict[{key_py}, {ref}] = betterproto.map_field({number}, betterproto.{key_type.name}, betterproto.{ktype.name})",
            pkg, name, line,
        )
        for imp in imports:
            ok(re.search(rf"^{re.escape(imp)}$", code, re.M), pkg, imp)
        # what the names denote once imported
        ok(hints[name].__origin__ is dict)
        ok(hints[name].__args__[0] is {"str": str, "int": int, "bool": bool}[key_py])
        ok(hints[name].__args__[1] is want, pkg, name, hints[name], want)
        ok(meta.cls_by_field[name + ".value"] is want, pkg, name)
        ok(meta.meta_by_field_name[name].map_types == (getattr(betterproto, key_type.name), getattr(betterproto, ktype.name)))
        # through the field
        key = {"str": "k", "int": 7, "bool": True}[key_py]
        value = want(v=5) if kind == "Target" else want(w=6) if kind == "Target.Inner" else want.ONE
        msg = cls(**{name: {key: value}})
        back = cls().parse(bytes(msg))
        got = getattr(back, name)
        ok(list(got) == [key] and type(got[key]) is want and got[key] == value, pkg, name, got)
        ok(back == msg)
        ok(type(getattr(cls().from_dict(msg.to_dict()), name)[key]) is want)


# --------------------------------------------------------------------------------------
# 2. every ordered pair of packages (depth 0..2 over {a,b} plus some of depth 3), pairwise
#    (both directions at once = circular), map value of all 4 kinds
# --------------------------------------------------------------------------------------
PACKAGES = all_packages("ab", 2) + ["a.b.a", "a.a.a", "b.a.b", "a.b.c"]
for P, Q in itertools.combinations(PACKAGES, 2):
    fp, ep = holder_file(P, [Q, P], 0)
    fq_, eq = holder_file(Q, [P, Q], 1, in_nested=True)
    out = run_plugin([fp, fq_])
    top, mods = import_generated(out, [P, Q])
    check_holder(out[module_path(P)], mods, P, ep)
    check_holder(out[module_path(Q)], mods, Q, eq, in_nested=True)

# --------------------------------------------------------------------------------------
# 3. all at once: 15 packages, each with maps to the 4 kinds of all 15
# --------------------------------------------------------------------------------------
PACKAGES = all_packages("ab", 3)
files, exps = [], {}
for i, P in enumerate(PACKAGES):
    f, e = holder_file(P, PACKAGES, i, in_nested=bool(i % 2))
    files.append(f)
    exps[P] = (e, bool(i % 2))
out = run_plugin(files)
ok(sorted(out) == sorted(module_path(p) for p in PACKAGES), sorted(out))
top, mods = import_generated(out, PACKAGES)
for P, (e, nested_flag) in exps.items():
    check_holder(out[module_path(P)], mods, P, e, in_nested=nested_flag)

# --------------------------------------------------------------------------------------
# 4. values that are scalars, well-known types and wrappers; look-alikes that are no maps;
#    two maps whose entry names collide after normalisation
# --------------------------------------------------------------------------------------
owner = ".m.Holder"
specs = [
    # name, key type, value type, value type name, expected annotation (typing 'direct')
    ("s_int", T.TYPE_STRING, T.TYPE_INT32, "", "Dict[str, int]"),
    ("s_str", T.TYPE_INT64, T.TYPE_STRING, "", "Dict[int, str]"),
    ("s_bytes", T.TYPE_BOOL, T.TYPE_BYTES, "", "Dict[bool, bytes]"),
    ("s_double", T.TYPE_STRING, T.TYPE_DOUBLE, "", "Dict[str, float]"),
    ("s_bool", T.TYPE_UINT32, T.TYPE_BOOL, "", "Dict[int, bool]"),
    ("w_struct", T.TYPE_STRING, T.TYPE_MESSAGE, ".google.protobuf.Struct", 'Dict[str, "betterproto_lib_google_protobuf.Struct"]'),
    ("w_any", T.TYPE_STRING, T.TYPE_MESSAGE, ".google.protobuf.Any", 'Dict[str, "betterproto_lib_google_protobuf.Any"]'),
    ("w_empty", T.TYPE_INT32, T.TYPE_MESSAGE, ".google.protobuf.Empty", 'Dict[int, "betterproto_lib_google_protobuf.Empty"]'),
    ("w_ts", T.TYPE_STRING, T.TYPE_MESSAGE, ".google.protobuf.Timestamp", "Dict[str, datetime]"),
    ("w_dur", T.TYPE_STRING, T.TYPE_MESSAGE, ".google.protobuf.Duration", "Dict[str, timedelta]"),
    ("w_i32", T.TYPE_STRING, T.TYPE_MESSAGE, ".google.protobuf.Int32Value", 'Dict[str, "betterproto_lib_google_protobuf.Int32Value"]'),
    ("w_strv", T.TYPE_STRING, T.TYPE_MESSAGE, ".google.protobuf.StringValue", 'Dict[str, "betterproto_lib_google_protobuf.StringValue"]'),
    ("w_boolv", T.TYPE_STRING, T.TYPE_MESSAGE, ".google.protobuf.BoolValue", 'Dict[str, "betterproto_lib_google_protobuf.BoolValue"]'),
    ("w_nullv", T.TYPE_STRING, T.TYPE_ENUM, ".google.protobuf.NullValue", 'Dict[str, "betterproto_lib_google_protobuf.NullValue"]'),
    ("own", T.TYPE_STRING, T.TYPE_MESSAGE, ".m.Target", 'Dict[str, "Target"]'),
    ("rec", T.TYPE_STRING, T.TYPE_MESSAGE, ".m.Holder", 'Dict[str, "Holder"]'),
    ("child", T.TYPE_STRING, T.TYPE_MESSAGE, ".m.n.Target.Inner", 'Dict[str, "n.TargetInner"]'),
    ("rootk", T.TYPE_STRING, T.TYPE_ENUM, ".Target.Kind", 'Dict[str, "_TargetKind__"]'),
    ("camelCase", T.TYPE_STRING, T.TYPE_MESSAGE, ".o.Target", 'Dict[str, "_o__.Target"]'),
    ("with_2_digits", T.TYPE_STRING, T.TYPE_ENUM, ".o.Color", 'Dict[str, "_o__.Color"]'),
]
fields, entries = [], []
for number, (name, kt, vt, vtn, _) in enumerate(specs, start=1):
    f, e = map_field(owner, name, number, kt, vt, vtn)
    if name == "camelCase":
        e.name = "CamelCaseEntry"
        f.type_name = owner + ".CamelCaseEntry"
    fields.append(f)
    entries.append(e)
# look-alikes: a repeated message field that is called like a map entry but whose entry type is no map_entry
fake_entry = DescriptorProto(name="FakeEntry", field=[scalar("key", 1, T.TYPE_STRING), scalar("value", 2)])
fields.append(FieldDescriptorProto(name="fake", number=50, type=T.TYPE_MESSAGE, type_name=owner + ".FakeEntry", label=L.LABEL_REPEATED))
# ... and a repeated field of a map-entry-named type of ANOTHER field's map
fields.append(FieldDescriptorProto(name="other", number=51, type=T.TYPE_MESSAGE, type_name=".o.Target", label=L.LABEL_REPEATED))
# colliding entry names: foo_bar -> FooBarEntry and foobar -> FoobarEntry normalise to the same key; both
# entries match either field and the one declared last determines the types of both fields
f1, e1 = map_field(owner, "foo_bar", 60, T.TYPE_STRING, T.TYPE_MESSAGE, ".o.Target")
f2, e2 = map_field(owner, "foobar", 61, T.TYPE_INT32, T.TYPE_ENUM, ".m.n.Color")
fields += [f1, f2]
entries += [e1, e2]
holder = DescriptorProto(name="Holder", field=fields, nested_type=entries + [fake_entry])
tm, te = target_types()
m_file = FileDescriptorProto(name="m.proto", package="m", syntax="proto3", message_type=tm + [holder], enum_type=te)
others = []
for i, pkg in enumerate(["m.n", "o", ""]):
    tm, te = target_types()
    others.append(FileDescriptorProto(name=f"o{i}.proto", package=pkg, syntax="proto3", message_type=tm, enum_type=te))
out = run_plugin([m_file] + others)
code = out["m/__init__.py"]
for name, kt, vt, vtn, annotation in specs:
    py_name = betterproto.casing.safe_snake_case(name)
    line = field_line(code, "Holder", py_name)
    ok(line.startswith(annotation + " = betterproto.map_field("), name, line)
    ok(line.endswith(f", betterproto.{kt.name}, betterproto.{vt.name})"), name, line)
ok(field_line(code, "Holder", "fake").startswith('List["HolderFakeEntry"] = betterproto.message_field(50'), field_line(code, "Holder", "fake"))
ok(field_line(code, "Holder", "other").startswith('List["_o__.Target"] = betterproto.message_field(51'))
ok(field_line(code, "Holder", "foo_bar") == 'Dict[int, "n.Color"] = betterproto.map_field(60, betterproto.TYPE_INT32, betterproto.TYPE_ENUM)', field_line(code, "Holder", "foo_bar"))
ok(field_line(code, "Holder", "foobar") == 'Dict[int, "n.Color"] = betterproto.map_field(61, betterproto.TYPE_INT32, betterproto.TYPE_ENUM)')
ok("class HolderFakeEntry(betterproto.Message):" in code)
ok("class HolderSIntEntry" not in code and "Entry(betterproto.Message)" in code and code.count("Entry(betterproto.Message)") == 1)
for imp in (
    "import betterproto.lib.google.protobuf as betterproto_lib_google_protobuf",
    "from . import n",
    "from .. import o as _o__",
    "from .. import TargetKind as _TargetKind__",
    "from datetime import datetime, timedelta",
):
    ok(re.search(rf"^{re.escape(imp)}\s*$", code, re.M), imp)

top, mods = import_generated(out, ["m", "m.n", "o", ""])
import betterproto.lib.google.protobuf as wkt  # noqa: E402
from datetime import datetime, timedelta, timezone  # noqa: E402

Holder = mods["m"].Holder
by_field = Holder._betterproto.cls_by_field
hints = typing.get_type_hints(Holder)
want_values = {
    "w_struct": wkt.Struct, "w_any": wkt.Any, "w_empty": wkt.Empty, "w_ts": datetime, "w_dur": timedelta,
    "w_i32": wkt.Int32Value, "w_strv": wkt.StringValue, "w_boolv": wkt.BoolValue, "w_nullv": wkt.NullValue,
    "own": mods["m"].Target, "rec": Holder, "child": mods["m.n"].TargetInner, "rootk": mods[""].TargetKind,
    "camel_case": mods["o"].Target, "with_2_digits": mods["o"].Color,
    "s_int": int, "s_str": str, "s_bytes": bytes, "s_double": float, "s_bool": bool,
    "foo_bar": mods["m.n"].Color, "foobar": mods["m.n"].Color,
}
for name, want in want_values.items():
    ok(by_field[name + ".value"] is want, name, by_field[name + ".value"], want)
    ok(hints[name].__args__[1] is want, name)
ok(hints["fake"].__args__[0] is mods["m"].HolderFakeEntry)
ok(hints["other"].__args__[0] is mods["o"].Target)

msg = Holder(
    s_int={"a": 1}, s_str={2: "b"}, s_bytes={True: b"x"}, s_double={"d": 1.5}, s_bool={3: True},
    w_struct={"s": wkt.Struct(fields={"x": wkt.Value(number_value=1.0)})},
    w_empty={1: wkt.Empty()},
    w_ts={"t": datetime(2020, 1, 2, 3, 4, 5, tzinfo=timezone.utc)},
    w_dur={"d": timedelta(seconds=3, microseconds=5)},
    w_i32={"i": wkt.Int32Value(value=7)}, w_strv={"s": wkt.StringValue(value="v")},
    own={"o": mods["m"].Target(v=1)}, rec={"r": Holder(s_int={"z": 9})},
    child={"c": mods["m.n"].TargetInner(w=2)}, rootk={"k": mods[""].TargetKind.ONE},
    camel_case={"cc": mods["o"].Target(v=3)}, with_2_digits={"e": mods["o"].Color.ONE},
    fake=[mods["m"].HolderFakeEntry(key="k", value=1)], other=[mods["o"].Target(v=4)],
    foo_bar={5: mods["m.n"].Color.ONE},
)
back = Holder().parse(bytes(msg))
ok(back == msg)
ok(bytes(back) == bytes(msg))
ok(type(back.camel_case["cc"]) is mods["o"].Target and type(back.child["c"]) is mods["m.n"].TargetInner)
ok(type(back.rec["r"]) is Holder and back.rec["r"].s_int == {"z": 9})
ok(type(back.w_i32["i"]) is wkt.Int32Value and back.w_ts["t"] == datetime(2020, 1, 2, 3, 4, 5, tzinfo=timezone.utc))
msg.w_struct = {}  # (Struct has a JSON form of its own; not the subject here)
ok(Holder().from_dict(msg.to_dict()) == msg)
ok(Holder().from_json(msg.to_json()) == msg)

# --------------------------------------------------------------------------------------
# 5. the same messages as google.protobuf sees them: wire compatibility of the map fields
# --------------------------------------------------------------------------------------
from google.protobuf import descriptor_pb2, descriptor_pool, message_factory  # noqa: E402


def fresh_files():
    files = []
    for i, pkg in enumerate(["o", "m.n", "m"]):
        tm, te = target_types()
        files.append(FileDescriptorProto(name=f"g{i}.proto", package=pkg, syntax="proto3", message_type=tm, enum_type=te))
    fields, entries = [], []
    g_specs = [
        ("cousin", T.TYPE_STRING, T.TYPE_MESSAGE, ".o.Target"),
        ("cousin_inner", T.TYPE_INT32, T.TYPE_MESSAGE, ".o.Target.Inner"),
        ("cousin_color", T.TYPE_STRING, T.TYPE_ENUM, ".o.Color"),
        ("child_kind", T.TYPE_BOOL, T.TYPE_ENUM, ".m.n.Target.Kind"),
        ("child", T.TYPE_SINT64, T.TYPE_MESSAGE, ".m.n.Target"),
        ("own", T.TYPE_FIXED32, T.TYPE_MESSAGE, ".m.Target"),
        ("plain", T.TYPE_STRING, T.TYPE_SINT32, ""),
    ]
    for number, (name, kt, vt, vtn) in enumerate(g_specs, start=1):
        f, e = map_field(".m.Holder", name, number, kt, vt, vtn)
        fields.append(f)
        entries.append(e)
    files[2].message_type.append(DescriptorProto(name="Holder", field=fields, nested_type=entries))
    files[2].dependency = ["g0.proto", "g1.proto"]
    return files


pool = descriptor_pool.DescriptorPool()
for f in fresh_files():
    pool.Add(descriptor_pb2.FileDescriptorProto.FromString(bytes(f)))
GHolder = message_factory.GetMessageClass(pool.FindMessageTypeByName("m.Holder"))

out = run_plugin(fresh_files())
top, mods = import_generated(out, ["o", "m.n", "m"])
BHolder = mods["m"].Holder
b = BHolder(
    cousin={"x": mods["o"].Target(v=11), "": mods["o"].Target()},
    cousin_inner={0: mods["o"].TargetInner(w=12), -4: mods["o"].TargetInner()},
    cousin_color={"c": mods["o"].Color.ONE, "z": mods["o"].Color.ZERO},
    child_kind={True: mods["m.n"].TargetKind.ONE},
    child={-9: mods["m.n"].Target(v=13)},
    own={4000000000: mods["m"].Target(v=-1)},
    plain={"p": -3, "": 0},
)
g = GHolder.FromString(bytes(b))
ok(g.cousin["x"].v == 11 and g.cousin[""].v == 0 and len(g.cousin) == 2)
ok(g.cousin_inner[0].w == 12 and g.cousin_inner[-4].w == 0 and len(g.cousin_inner) == 2)
ok(dict(g.cousin_color) == {"c": 1, "z": 0})
ok(dict(g.child_kind) == {True: 1})
ok(g.child[-9].v == 13 and g.own[4000000000].v == -1)
ok(dict(g.plain) == {"p": -3, "": 0})
ok(g.cousin["x"].DESCRIPTOR.full_name == "o.Target" and g.child[-9].DESCRIPTOR.full_name == "m.n.Target")
back = BHolder().parse(g.SerializeToString())
ok(back == b, back, b)
ok(type(back.cousin["x"]) is mods["o"].Target and type(back.child[-9]) is mods["m.n"].Target)
ok(type(back.cousin_inner[0]) is mods["o"].TargetInner and type(back.own[4000000000]) is mods["m"].Target)
ok(back.child_kind[True] is mods["m.n"].TargetKind.ONE and back.cousin_color["c"] is mods["o"].Color.ONE)

print(f"ok ({CHECKS} checks)")
