"""C03 keep1 equivalence: plugin option handling / package grouping in generate_code.

Runs the real plugin (ruff stubbed) over a 4-package, 5-file schema for many plugin option strings,
checks the translation-validity property on every output, the option-specific shape of the rendered
modules, the error path (several typing.* options) and golden digests of every rendered file.
"""
import dataclasses
import importlib
import os
import shutil
import sys
import tempfile
import typing
from datetime import datetime, timedelta

import grpc_tools
from google.protobuf import descriptor_pb2
from grpc_tools import protoc

import betterproto
from betterproto.lib.google.protobuf import FileDescriptorSet
from betterproto.lib.google.protobuf.compiler import CodeGeneratorRequest
from betterproto.plugin import compiler as plugin_compiler
from betterproto.plugin.models import monkey_patch_oneof_index
from betterproto.plugin.parser import generate_code

# ruff is not installed: the two formatting passes become the identity
plugin_compiler.subprocess.check_output = lambda cmd, input, encoding: input
monkey_patch_oneof_index()

WKT = os.path.join(os.path.dirname(grpc_tools.__file__), "_proto")
WORK = tempfile.mkdtemp(prefix="c03_")
sys.path.insert(0, WORK)
_counter = [0]
FD = descriptor_pb2.FieldDescriptorProto
SCALAR = {
    FD.TYPE_DOUBLE: ("double", float), FD.TYPE_FLOAT: ("float", float),
    FD.TYPE_INT64: ("int64", int), FD.TYPE_UINT64: ("uint64", int),
    FD.TYPE_INT32: ("int32", int), FD.TYPE_FIXED64: ("fixed64", int),
    FD.TYPE_FIXED32: ("fixed32", int), FD.TYPE_BOOL: ("bool", bool),
    FD.TYPE_STRING: ("string", str), FD.TYPE_BYTES: ("bytes", bytes),
    FD.TYPE_UINT32: ("uint32", int), FD.TYPE_SFIXED32: ("sfixed32", int),
    FD.TYPE_SFIXED64: ("sfixed64", int), FD.TYPE_SINT32: ("sint32", int),
    FD.TYPE_SINT64: ("sint64", int), FD.TYPE_MESSAGE: ("message", None),
    FD.TYPE_ENUM: ("enum", None),
}
WRAPPERS = {
    ".google.protobuf.DoubleValue": ("double", float), ".google.protobuf.FloatValue": ("float", float),
    ".google.protobuf.Int32Value": ("int32", int), ".google.protobuf.Int64Value": ("int64", int),
    ".google.protobuf.UInt32Value": ("uint32", int), ".google.protobuf.UInt64Value": ("uint64", int),
    ".google.protobuf.BoolValue": ("bool", bool), ".google.protobuf.StringValue": ("string", str),
    ".google.protobuf.BytesValue": ("bytes", bytes),
}


def run_plugin(files, parameter=""):
    """protoc (descriptor set) -> CodeGeneratorRequest -> generate_code -> files on disk.
    Returns (root package name, google.protobuf FileDescriptorSet)."""
    src = tempfile.mkdtemp(dir=WORK, prefix="src")
    for name, text in files.items():
        path = os.path.join(src, name)
        os.makedirs(os.path.dirname(path), exist_ok=True)
        with open(path, "w") as fh:
            fh.write(text)
    out = os.path.join(src, "fds.bin")
    rc = protoc.main(["protoc", f"-I{src}", f"-I{WKT}", "--include_imports",
                      "--include_source_info", f"--descriptor_set_out={out}", *files])
    assert rc == 0, "protoc rejected the schema (test bug)"
    raw = open(out, "rb").read()
    request = CodeGeneratorRequest(
        file_to_generate=list(files), parameter=parameter,
        proto_file=FileDescriptorSet().parse(raw).file,
    )
    # exercise the real wire path of the plugin as well
    request = CodeGeneratorRequest().parse(bytes(request))
    stderr, sys.stderr = sys.stderr, open(os.devnull, "w")
    try:
        response = generate_code(request)
    finally:
        sys.stderr = stderr
    _counter[0] += 1
    root = f"gen{_counter[0]}"
    names = [f.name for f in response.file]
    assert len(names) == len(set(names)), f"duplicate output files {names}"
    for f in response.file:
        path = os.path.join(WORK, root, f.name)
        os.makedirs(os.path.dirname(path), exist_ok=True)
        with open(path, "w") as fh:
            fh.write(f.content)
    return root, descriptor_pb2.FileDescriptorSet.FromString(raw)


def _norm(name):
    return name.replace("_", "").replace(".", "").lower()


def _walk(prefix, messages, enums, out_m, out_e):
    for e in enums:
        out_e.append((prefix + [e.name], e))
    for m in messages:
        if m.options.map_entry:
            continue
        out_m.append((prefix + [m.name], m))
        _walk(prefix + [m.name], m.nested_type, m.enum_type, out_m, out_e)


def check(files, parameter=""):
    """The property: output imports; one class per message/enum; one faithful field per field."""
    root, fds = run_plugin(files, parameter)
    importlib.invalidate_caches()
    by_pkg = {}
    for fd in fds.file:
        if fd.package == "google.protobuf":
            continue
        by_pkg.setdefault(fd.package, []).append(fd)
    n_fields = 0
    for pkg, fdescs in by_pkg.items():
        mod = importlib.import_module(root + ("." + pkg if pkg else ""))
        msgs, enums = [], []
        for fd in fdescs:
            _walk([], fd.message_type, fd.enum_type, msgs, enums)
        classes = [v for v in vars(mod).values()
                   if isinstance(v, type) and v.__module__ == mod.__name__]
        msg_classes = [c for c in classes if issubclass(c, betterproto.Message)]
        enum_classes = [c for c in classes if issubclass(c, betterproto.Enum)]
        assert len(msg_classes) == len(msgs), (pkg, msg_classes, [p for p, _ in msgs])
        assert len(enum_classes) == len(enums), (pkg, enum_classes)
        for path, e in enums:
            found = [c for c in enum_classes if _norm(c.__name__) == _norm("".join(path))]
            assert len(found) == 1, (path, enum_classes)
            members = found[0].__members__
            assert len(members) == len(e.value), (path, list(members), len(e.value))
            assert sorted(int(m) for m in members.values()) == sorted(v.number for v in e.value), path
        for path, m in msgs:
            found = [c for c in msg_classes if _norm(c.__name__) == _norm("".join(path))]
            assert len(found) == 1, (path, msg_classes)
            cls = found[0]
            hints = typing.get_type_hints(cls, vars(mod))
            fields = {f.metadata["betterproto"].number: f for f in dataclasses.fields(cls)}
            assert len(fields) == len(dataclasses.fields(cls)) == len(m.field), (path, fields)
            entries = {n.name: n for n in m.nested_type if n.options.map_entry}
            for f in m.field:
                n_fields += 1
                assert f.number in fields, (path, f.name)
                meta = fields[f.number].metadata["betterproto"]
                hint = hints[fields[f.number].name]
                where = (".".join(path), f.name, meta, hint)
                entry = entries.get(f.type_name.split(".")[-1]) if f.type == FD.TYPE_MESSAGE and f.label == FD.LABEL_REPEATED else None
                real_oneof = f.HasField("oneof_index") and not f.proto3_optional
                assert meta.group == (m.oneof_decl[f.oneof_index].name if real_oneof else None), where
                if "pydantic_dataclasses" not in parameter:
                    assert bool(meta.optional) == bool(f.proto3_optional), where
                if entry is not None:
                    k, v = entry.field[0], entry.field[1]
                    assert meta.proto_type == "map", where
                    assert tuple(meta.map_types) == (SCALAR[k.type][0], SCALAR[v.type][0]), where
                    assert typing.get_origin(hint) is dict, where
                    assert typing.get_args(hint)[0] is SCALAR[k.type][1], where
                    if SCALAR[v.type][1] is not None:
                        assert typing.get_args(hint)[1] is SCALAR[v.type][1], where
                    continue
                assert meta.proto_type == SCALAR[f.type][0], where
                assert meta.map_types is None, where
                inner = hint
                if f.label == FD.LABEL_REPEATED:
                    assert typing.get_origin(hint) is list, where
                    inner = typing.get_args(hint)[0]
                else:
                    assert typing.get_origin(hint) not in (list, dict), where
                if f.type_name in WRAPPERS:
                    assert meta.wraps == WRAPPERS[f.type_name][0], where
                    assert WRAPPERS[f.type_name][1] in typing.get_args(inner), where
                else:
                    assert meta.wraps is None, where
                    args = typing.get_args(inner) or (inner,)
                    if f.type_name == ".google.protobuf.Timestamp":
                        assert datetime in args, where
                    elif f.type_name == ".google.protobuf.Duration":
                        assert timedelta in args, where
                    elif SCALAR[f.type][1] is not None:
                        assert SCALAR[f.type][1] in args, where
                    else:
                        target = [a for a in args if a is not type(None)]
                        assert len(target) == 1 and isinstance(target[0], type), where
                        assert _norm(target[0].__name__) == _norm(f.type_name.split(".", 1)[1])[-len(_norm(target[0].__name__)):], where
    return n_fields


def cleanup():
    shutil.rmtree(WORK, ignore_errors=True)


import hashlib

LAST = {}
_orig_run_plugin = run_plugin


def run_plugin(files, parameter=""):  # keep the rendered files of the last run
    root, fds = _orig_run_plugin(files, parameter)
    LAST.clear()
    for dirpath, _, names in os.walk(os.path.join(WORK, root)):
        for n in names:
            full = os.path.join(dirpath, n)
            LAST[os.path.relpath(full, os.path.join(WORK, root))] = open(full).read()
    LAST["__root__"] = root
    return root, fds


def digest(text):
    # imports_end is rendered in set order (hash-seed dependent): compare as a bag of lines
    return hashlib.sha256("\n".join(sorted(text.splitlines())).encode()).hexdigest()[:16]


HEAD = 'syntax = "proto3";\n'
SCHEMA = {
    "root.proto": HEAD + '''
import "foo/one.proto";
import "foo/bar/deep.proto";
message RootMsg { repeated foo.One ones = 1; optional string s = 2; map<int32, foo.bar.Deep> deep = 3; }
''',
    "foo/one.proto": HEAD + '''
package foo;
import "foo/bar/deep.proto";
import "foo/two.proto";
import "google/protobuf/timestamp.proto";
import "google/protobuf/wrappers.proto";
// first file of package foo
message One {
  repeated int32 xs = 1;
  foo.bar.Deep deep = 2;
  google.protobuf.Timestamp at = 3;
  google.protobuf.Int64Value big = 4;
  oneof pick { string a = 5; Two two = 6; }
}
''',
    "foo/two.proto": HEAD + '''
package foo;
import "google/protobuf/duration.proto";
// second file of the same package
message Two {
  optional bool flag = 1;
  map<string, google.protobuf.Duration> waits = 2;
  enum Kind { KIND_UNKNOWN = 0; KIND_NEG = -3; }
  Kind kind = 3;
}
service Svc {
  rpc Get (Two) returns (Two);
  rpc Watch (Two) returns (stream Two);
  rpc Push (stream Two) returns (Two);
}
''',
    "foo/bar/deep.proto": HEAD + '''
package foo.bar;
message Deep { Deep next = 1; repeated Deep kids = 2; bytes payload = 3; }
''',
    "other/cousin.proto": HEAD + '''
package other;
import "foo/two.proto";
message Cousin { foo.Two two = 1; repeated foo.Two.Kind kinds = 2; optional foo.Two maybe = 3; }
''',
}
USER_FILES = {"__init__.py", "foo/__init__.py", "foo/bar/__init__.py", "other/__init__.py"}
GOOGLE_FILES = {"google/__init__.py", "google/protobuf/__init__.py"}

# parameter -> (typing flavour, pydantic, include google)
OPTIONS = {
    "": ("direct", False, False),
    "typing.direct": ("direct", False, False),
    "typing.root": ("root", False, False),
    "typing.310": ("310", False, False),
    "typing.bogus": ("direct", False, False),  # unknown flavour: the default compiler stays
    "typing.": ("direct", False, False),
    "typing": ("direct", False, False),  # not a typing.* option at all
    "unknown_option,another": ("direct", False, False),
    "include_google": ("direct", False, False),  # option names are case sensitive
    "pydantic_dataclasses": ("direct", True, False),
    "typing.310,pydantic_dataclasses": ("310", True, False),
    "pydantic_dataclasses,typing.root": ("root", True, False),
    "INCLUDE_GOOGLE": ("direct", False, True),
    "INCLUDE_GOOGLE,typing.root": ("root", False, True),
    "typing.310,INCLUDE_GOOGLE,pydantic_dataclasses": ("310", True, True),
}
BAD_OPTIONS = ["typing.root,typing.310", "typing.direct,typing.direct", "typing.310,INCLUDE_GOOGLE,typing.bogus", "typing.,typing."]

GOLDEN = {'': {'__init__.py': '5edcb2c2bd5ed068',
      'foo/__init__.py': '4cadc601a23d89ee',
      'foo/bar/__init__.py': '5a39b934aa5d94a8',
      'other/__init__.py': '63fcb2d9f956a066'},
 'INCLUDE_GOOGLE': {'__init__.py': '5edcb2c2bd5ed068',
                    'foo/__init__.py': '4cadc601a23d89ee',
                    'foo/bar/__init__.py': '5a39b934aa5d94a8',
                    'google/__init__.py': 'e3b0c44298fc1c14',
                    'google/protobuf/__init__.py': '891bf408d0e23ed7',
                    'other/__init__.py': '63fcb2d9f956a066'},
 'INCLUDE_GOOGLE,typing.root': {'__init__.py': 'be887b1570a8b29c',
                                'foo/__init__.py': 'dc660deb792f627a',
                                'foo/bar/__init__.py': 'b92e4e9587ab0f9f',
                                'google/__init__.py': 'e3b0c44298fc1c14',
                                'google/protobuf/__init__.py': '891bf408d0e23ed7',
                                'other/__init__.py': 'c9b38591e54c21e3'},
 'include_google': {'__init__.py': '5edcb2c2bd5ed068',
                    'foo/__init__.py': '4cadc601a23d89ee',
                    'foo/bar/__init__.py': '5a39b934aa5d94a8',
                    'other/__init__.py': '63fcb2d9f956a066'},
 'pydantic_dataclasses': {'__init__.py': '848bf3509666ecd2',
                          'foo/__init__.py': 'f6fe4265768047c2',
                          'foo/bar/__init__.py': '9f0674b5479d2544',
                          'other/__init__.py': 'bce74c51d9f2b385'},
 'pydantic_dataclasses,typing.root': {'__init__.py': '2fe1b4ee569f229e',
                                      'foo/__init__.py': 'ef6c3411523a34a5',
                                      'foo/bar/__init__.py': '38693cdfccf5ef8e',
                                      'other/__init__.py': 'bed916c03680c1a2'},
 'typing': {'__init__.py': '5edcb2c2bd5ed068',
            'foo/__init__.py': '4cadc601a23d89ee',
            'foo/bar/__init__.py': '5a39b934aa5d94a8',
            'other/__init__.py': '63fcb2d9f956a066'},
 'typing.': {'__init__.py': '5edcb2c2bd5ed068',
             'foo/__init__.py': '4cadc601a23d89ee',
             'foo/bar/__init__.py': '5a39b934aa5d94a8',
             'other/__init__.py': '63fcb2d9f956a066'},
 'typing.310': {'__init__.py': 'cf5f612af1d0d852',
                'foo/__init__.py': '0c1e2b96c8d8396d',
                'foo/bar/__init__.py': 'a1caadca5b2bb89d',
                'other/__init__.py': 'a2ccae985185886d'},
 'typing.310,INCLUDE_GOOGLE,pydantic_dataclasses': {'__init__.py': '3d9f4c1b437c1fea',
                                                    'foo/__init__.py': '4ee3ce54bc5fd531',
                                                    'foo/bar/__init__.py': '32deb898d6bbc941',
                                                    'google/__init__.py': 'e3b0c44298fc1c14',
                                                    'google/protobuf/__init__.py': '1f0fc63cf4f4311e',
                                                    'other/__init__.py': '2edc279adae13bfb'},
 'typing.310,pydantic_dataclasses': {'__init__.py': '3d9f4c1b437c1fea',
                                     'foo/__init__.py': '4ee3ce54bc5fd531',
                                     'foo/bar/__init__.py': '32deb898d6bbc941',
                                     'other/__init__.py': '2edc279adae13bfb'},
 'typing.bogus': {'__init__.py': '5edcb2c2bd5ed068',
                  'foo/__init__.py': '4cadc601a23d89ee',
                  'foo/bar/__init__.py': '5a39b934aa5d94a8',
                  'other/__init__.py': '63fcb2d9f956a066'},
 'typing.direct': {'__init__.py': '5edcb2c2bd5ed068',
                   'foo/__init__.py': '4cadc601a23d89ee',
                   'foo/bar/__init__.py': '5a39b934aa5d94a8',
                   'other/__init__.py': '63fcb2d9f956a066'},
 'typing.root': {'__init__.py': 'be887b1570a8b29c',
                 'foo/__init__.py': 'dc660deb792f627a',
                 'foo/bar/__init__.py': 'b92e4e9587ab0f9f',
                 'other/__init__.py': 'c9b38591e54c21e3'},
 'unknown_option,another': {'__init__.py': '5edcb2c2bd5ed068',
                            'foo/__init__.py': '4cadc601a23d89ee',
                            'foo/bar/__init__.py': '5a39b934aa5d94a8',
                            'other/__init__.py': '63fcb2d9f956a066'}}

seen = {}
for parameter, (flavour, pydantic, google) in OPTIONS.items():
    n = check(SCHEMA, parameter)
    assert n == 18, n
    files = {k: v for k, v in LAST.items() if k != "__root__" and not k.startswith("src")}
    assert set(files) == USER_FILES | (GOOGLE_FILES if google else set()), (parameter, sorted(files))
    assert files["foo/__init__.py"].startswith("# Generated by the protocol buffer compiler.")
    assert "# sources: foo/one.proto, foo/two.proto" in files["foo/__init__.py"]
    for name in USER_FILES:
        text = files[name]
        if name == "__init__.py":
            assert "class RootMsg(betterproto.Message)" in text
        if pydantic:
            assert "from pydantic.dataclasses import dataclass" in text and "from dataclasses import dataclass" not in text
            assert '@dataclass(eq=False, repr=False, config={"extra": "forbid"})' in text
        else:
            assert "from dataclasses import dataclass" in text and "pydantic" not in text
        if flavour == "direct":
            assert "from typing import (" in text and "import typing\n" not in text
            assert "typing." not in text.replace("from typing import", "")
        elif flavour == "root":
            assert "import typing\n" in text and "from typing import (" not in text
        else:
            assert "List[" not in text and "Dict[" not in text and "Optional[" not in text
    foo = files["foo/__init__.py"]
    spell = {"direct": ("List[int]", "Optional[bool]", 'Dict[str, timedelta]', "Optional[int]"),
             "root": ("typing.List[int]", "typing.Optional[bool]", 'typing.Dict[str, timedelta]', "typing.Optional[int]"),
             "310": ('"list[int]"', '"bool | None"', '"dict[str, timedelta]"', '"int | None"')}[flavour]
    for s in spell:
        assert s in foo, (parameter, s)
    if flavour == "root":
        assert "typing.Union[typing.AsyncIterable[" in foo
    elif flavour == "direct":
        assert "Union[AsyncIterable[" in foo
    if pydantic:
        assert "model_validator" in foo and "check_oneof" in foo
        mod = importlib.import_module(LAST["__root__"] + ".foo")
        # the forced optional=True of oneof members under pydantic
        assert all(f.metadata["betterproto"].optional for f in dataclasses.fields(mod.One) if f.metadata["betterproto"].group)
    got = {name: digest(text) for name, text in sorted(files.items())}
    seen[parameter] = got
    if GOLDEN is not None:
        assert got == GOLDEN[parameter], (parameter, got, GOLDEN[parameter])

# equal configurations render equal output
for a, b in [("", "typing.direct"), ("", "typing.bogus"), ("", "typing."), ("", "typing"), ("", "unknown_option,another"), ("", "include_google")]:
    assert seen[a] == seen[b], (a, b)
assert seen[""] != seen["typing.root"] != seen["typing.310"]

for parameter in BAD_OPTIONS:
    try:
        run_plugin(SCHEMA, parameter)
    except ValueError as exc:
        assert str(exc) == "Multiple typing options provided", exc
    else:
        raise AssertionError(f"{parameter!r} accepted")

# an empty request is answered without looking at the options at all
from betterproto.lib.google.protobuf.compiler import CodeGeneratorResponseFeature
for parameter in ["", "typing.root", "typing.root,typing.310"]:
    stderr, sys.stderr = sys.stderr, open(os.devnull, "w")
    try:
        resp = generate_code(CodeGeneratorRequest(parameter=parameter))
    finally:
        sys.stderr = stderr
    assert resp.file == [] and resp.supported_features == CodeGeneratorResponseFeature.FEATURE_PROTO3_OPTIONAL

# every package of a request gets a typing compiler of its own (imports are per module)
check({"a.proto": HEAD + "package pa; message A { repeated int32 xs = 1; }",
       "b.proto": HEAD + "package pb; message B { optional int32 x = 1; }",
       "c.proto": HEAD + "package pc; message C { int32 x = 1; }"})
assert "List" in LAST["pa/__init__.py"] and "Optional" not in LAST["pa/__init__.py"]
assert "Optional" in LAST["pb/__init__.py"] and "List" not in LAST["pb/__init__.py"]
assert "typing" not in LAST["pc/__init__.py"]

if GOLDEN is None:
    import pprint
    pprint.pprint(seen)
cleanup()
print(f"C03 keep1 equiv: {len(OPTIONS)} option sets x {len(SCHEMA)} files verified, {len(BAD_OPTIONS)} rejected")
