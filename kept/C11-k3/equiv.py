"""C11 equivalence check for the plugin side of generated services.

Generates Stub/Base pairs with the real plugin code (parser + models + templates) for
services without a package, in nested packages, with request/response types that are
siblings, nested messages, ancestors, descendants, cousins and google.protobuf well-known
types, with method/service names needing re-casing, all four cardinalities and the
typing.* / pydantic generator options.  It then checks

* the routes in Base.__mapping__ against "/" + <service full name> + "/" + <method name>
  as computed by google.protobuf's descriptor pool from the very same descriptors,
* the request/reply classes and cardinalities registered in __mapping__,
* every call through the Stub over a grpclib ChannelFor channel: right handler, once,
  request(s) intact, response(s) intact and in order; UNIMPLEMENTED for a bare Base.
"""
import asyncio
import importlib
import itertools
import os
import sys
import tempfile

import grpclib
from google.protobuf import (
    descriptor_pb2,
    descriptor_pool,
    duration_pb2,
    empty_pb2,
    timestamp_pb2,
    wrappers_pb2,
)
from grpclib.const import Cardinality, Status
from grpclib.testing import ChannelFor

import betterproto
from betterproto.lib.google.protobuf import (
    DescriptorProto,
    FieldDescriptorProto,
    FieldDescriptorProtoLabel,
    FieldDescriptorProtoType,
    FileDescriptorProto,
    MethodDescriptorProto,
    ServiceDescriptorProto,
)
from betterproto.lib.google.protobuf.compiler import CodeGeneratorRequest
from betterproto.plugin import compiler as plugin_compiler

plugin_compiler.subprocess.check_output = lambda cmd, input, encoding: input
from betterproto.plugin.parser import generate_code  # noqa: E402

T = FieldDescriptorProtoType
_counter = itertools.count()


# --------------------------------------------------------------------------- descriptors
def field(name, number, type_, type_name=""):
    return FieldDescriptorProto(
        name=name,
        number=number,
        type=type_,
        type_name=type_name,
        label=FieldDescriptorProtoLabel.LABEL_OPTIONAL,
        json_name=name,
    )


def simple_message(name, nested=()):
    return DescriptorProto(
        name=name,
        field=[field("x", 1, T.TYPE_INT32), field("s", 2, T.TYPE_STRING)],
        nested_type=list(nested),
    )


def rpc(name, inp, out, client_streaming, server_streaming):
    return MethodDescriptorProto(
        name=name,
        input_type=inp,
        output_type=out,
        client_streaming=client_streaming,
        server_streaming=server_streaming,
    )


WKT_FILES = [
    "google/protobuf/empty.proto",
    "google/protobuf/wrappers.proto",
    "google/protobuf/timestamp.proto",
    "google/protobuf/duration.proto",
]


def scenario_no_package():
    """Everything in a file without a package; names that need re-casing."""
    f = FileDescriptorProto(
        name="nopkg.proto",
        package="",
        syntax="proto3",
        message_type=[simple_message("Req"), simple_message("Rep")],
        service=[
            ServiceDescriptorProto(
                name="my_service_v2",
                method=[
                    rpc("GetHTTPResponse", ".Req", ".Rep", False, False),
                    rpc("do_it", ".Req", ".Rep", False, True),
                    rpc("Class", ".Req", ".Rep", True, False),
                    rpc("XMLHttpRequest", ".Req", ".Rep", True, True),
                ],
            ),
            ServiceDescriptorProto(
                name="Second",
                method=[rpc("Only", ".Rep", ".Req", False, False)],
            ),
        ],
    )
    names = {
        "GetHTTPResponse": "get_http_response",
        "do_it": "do_it",
        "Class": "class_",
        "XMLHttpRequest": "xml_http_request",
        "Only": "only",
    }
    classes = {"my_service_v2": "MyServiceV2", "Second": "Second"}
    return [f], "", names, classes


def scenario_packages():
    """Nested package; request/response types from everywhere."""
    main = FileDescriptorProto(
        name="acme/api/v1/main.proto",
        package="acme.api.v1",
        syntax="proto3",
        dependency=[
            "acme/api/v1/sibling.proto",
            "acme/base.proto",
            "acme/api/v1/inner/deep.proto",
            "acme/other/cousin.proto",
        ]
        + WKT_FILES,
        message_type=[
            simple_message("Req"),
            simple_message("Rep"),
            simple_message("Outer", nested=[simple_message("Inner")]),
        ],
        service=[
            ServiceDescriptorProto(
                name="Gateway",
                method=[
                    rpc("Local", ".acme.api.v1.Req", ".acme.api.v1.Rep", False, False),
                    rpc(
                        "NestedType",
                        ".acme.api.v1.Outer.Inner",
                        ".acme.api.v1.Outer",
                        False,
                        True,
                    ),
                    rpc("FromSibling", ".acme.api.v1.Sib", ".acme.api.v1.Rep", True, False),
                    rpc("FromAncestor", ".acme.Base", ".acme.Base", True, True),
                    rpc(
                        "FromDescendant",
                        ".acme.api.v1.inner.Deep",
                        ".acme.api.v1.Req",
                        False,
                        True,
                    ),
                    rpc("FromCousin", ".acme.api.v1.Req", ".acme.other.Cousin", True, False),
                    rpc(
                        "EmptyToWrapper",
                        ".google.protobuf.Empty",
                        ".google.protobuf.StringValue",
                        False,
                        False,
                    ),
                    rpc(
                        "WrapperStream",
                        ".google.protobuf.Int64Value",
                        ".google.protobuf.BoolValue",
                        True,
                        True,
                    ),
                    rpc(
                        "TimeAndSpan",
                        ".google.protobuf.Timestamp",
                        ".google.protobuf.Duration",
                        False,
                        True,
                    ),
                    rpc(
                        "SpanToTime",
                        ".google.protobuf.Duration",
                        ".google.protobuf.Timestamp",
                        True,
                        False,
                    ),
                ],
            ),
            ServiceDescriptorProto(
                name="HTTPBridge",
                method=[rpc("Local", ".acme.api.v1.Rep", ".acme.api.v1.Req", False, False)],
            ),
        ],
    )
    sibling = FileDescriptorProto(
        name="acme/api/v1/sibling.proto",
        package="acme.api.v1",
        syntax="proto3",
        message_type=[simple_message("Sib")],
    )
    base = FileDescriptorProto(
        name="acme/base.proto",
        package="acme",
        syntax="proto3",
        message_type=[simple_message("Base")],
    )
    deep = FileDescriptorProto(
        name="acme/api/v1/inner/deep.proto",
        package="acme.api.v1.inner",
        syntax="proto3",
        message_type=[simple_message("Deep")],
    )
    cousin = FileDescriptorProto(
        name="acme/other/cousin.proto",
        package="acme.other",
        syntax="proto3",
        message_type=[simple_message("Cousin")],
    )
    names = {
        "Local": "local",
        "NestedType": "nested_type",
        "FromSibling": "from_sibling",
        "FromAncestor": "from_ancestor",
        "FromDescendant": "from_descendant",
        "FromCousin": "from_cousin",
        "EmptyToWrapper": "empty_to_wrapper",
        "WrapperStream": "wrapper_stream",
        "TimeAndSpan": "time_and_span",
        "SpanToTime": "span_to_time",
    }
    classes = {"Gateway": "Gateway", "HTTPBridge": "HttpBridge"}
    # dependencies first
    return [sibling, base, deep, cousin, main], "acme.api.v1", names, classes


# ------------------------------------------------------------------------------ generate
def generate(files, parameter):
    request = CodeGeneratorRequest(
        file_to_generate=[f.name for f in files],
        parameter=parameter,
        # the plugin flattens nested type names in place: hand it private copies
        proto_file=[FileDescriptorProto().parse(bytes(f)) for f in files],
    )
    response = generate_code(request)
    root = tempfile.mkdtemp(prefix="c11keep1")
    top_name = f"c11k1_gen{next(_counter)}"
    top = os.path.join(root, top_name)
    os.makedirs(top)
    for f in response.file:
        path = os.path.join(top, f.name)
        os.makedirs(os.path.dirname(path), exist_ok=True)
        with open(path, "w") as fh:
            fh.write(f.content or "")
    if not os.path.exists(os.path.join(top, "__init__.py")):
        open(os.path.join(top, "__init__.py"), "w").close()
    sys.path.insert(0, root)
    return top_name


def reference_routes(files):
    """{(service, method): '/full.Service/Method'} according to google.protobuf."""
    pool = descriptor_pool.DescriptorPool()
    for pb2 in (empty_pb2, wrappers_pb2, timestamp_pb2, duration_pb2):
        pool.AddSerializedFile(pb2.DESCRIPTOR.serialized_pb)
    routes = {}
    for f in files:
        fdp = descriptor_pb2.FileDescriptorProto.FromString(bytes(f))
        pool.Add(fdp) if hasattr(pool, "Add") else pool.AddSerializedFile(bytes(f))
        fd = pool.FindFileByName(f.name)
        for service in fd.services_by_name.values():
            for m in service.methods:
                routes[(service.name, m.name)] = f"/{service.full_name}/{m.name}"
    return routes


def resolve_class(top_name, type_name, pydantic):
    """Python class a fully qualified proto type name has to map to."""
    assert type_name.startswith(".")
    parts = type_name[1:].split(".")
    pkg = [p for p in parts if p[:1].islower()]
    cls = "".join(p for p in parts if not p[:1].islower())  # Outer.Inner -> OuterInner
    if pkg == ["google", "protobuf"]:
        modname = (
            "betterproto.lib.pydantic.google.protobuf"
            if pydantic
            else "betterproto.lib.google.protobuf"
        )
    else:
        modname = ".".join([top_name] + pkg)
    return getattr(importlib.import_module(modname), cls)


def samples(cls, n):
    """n distinct instances of a message class; the first one is all-default."""
    name = cls.__name__
    out = []
    for i in range(n):
        if name == "Empty":
            out.append(cls())
        elif name == "StringValue":
            out.append(cls(value="" if i == 0 else f"v{i}"))
        elif name == "Int64Value":
            out.append(cls(value=0 if i == 0 else -(2**62) + i))
        elif name == "BoolValue":
            out.append(cls(value=bool(i % 2)))
        elif name in ("Timestamp", "Duration"):
            out.append(cls(seconds=i * 1000, nanos=i))
        else:
            out.append(cls(x=i * 7, s="" if i == 0 else f"{name}-{i}"))
    return out


# --------------------------------------------------------------------------------- check
async def check_service(top_name, package, service, names, classes, routes, pydantic):
    mod = importlib.import_module(".".join(filter(None, [top_name, package])))
    cls_name = classes[service.name]
    Stub = getattr(mod, cls_name + "Stub")
    Base = getattr(mod, cls_name + "Base")
    assert cls_name + "Stub" in mod.__all__ and cls_name + "Base" in mod.__all__

    methods = list(service.method)
    expected_routes = {routes[(service.name, m.name)] for m in methods}

    calls = []  # (method proto name, requests received)
    plan = {}

    def make_handler(m, req_cls, rep_cls):
        def current_replies():
            return plan[m.name]["replies"]

        if not m.client_streaming and not m.server_streaming:

            async def handler(self, request):
                calls.append((m.name, [request]))
                return current_replies()[0]

        elif not m.client_streaming and m.server_streaming:

            async def handler(self, request):
                calls.append((m.name, [request]))
                for r in current_replies():
                    yield r

        elif m.client_streaming and not m.server_streaming:

            async def handler(self, request_iterator):
                calls.append((m.name, [r async for r in request_iterator]))
                return current_replies()[0]

        else:

            async def handler(self, request_iterator):
                calls.append((m.name, [r async for r in request_iterator]))
                for r in current_replies():
                    yield r

        return handler

    namespace = {}
    types = {}
    for m in methods:
        req_cls = resolve_class(top_name, m.input_type, pydantic)
        rep_cls = resolve_class(top_name, m.output_type, pydantic)
        types[m.name] = (req_cls, rep_cls)
        plan[m.name] = {"replies": None}
        namespace[names[m.name]] = make_handler(m, req_cls, rep_cls)
    Impl = type("Impl", (Base,), namespace)
    impl = Impl()

    # -- the registered mapping
    mapping = impl.__mapping__()
    assert set(mapping) == expected_routes, (set(mapping), expected_routes)
    for m in methods:
        h = mapping[routes[(service.name, m.name)]]
        req_cls, rep_cls = types[m.name]
        assert h.request_type is req_cls, (m.name, h.request_type, req_cls)
        assert h.reply_type is rep_cls, (m.name, h.reply_type, rep_cls)
        assert issubclass(req_cls, betterproto.Message)
        assert issubclass(rep_cls, betterproto.Message)
        assert h.cardinality is {
            (False, False): Cardinality.UNARY_UNARY,
            (False, True): Cardinality.UNARY_STREAM,
            (True, False): Cardinality.STREAM_UNARY,
            (True, True): Cardinality.STREAM_STREAM,
        }[(bool(m.client_streaming), bool(m.server_streaming))]

    n_calls = 0
    async with ChannelFor([impl]) as channel:
        stub = Stub(channel)
        for m in methods:
            req_cls, rep_cls = types[m.name]
            stub_method = getattr(stub, names[m.name])
            req_lengths = (0, 1, 3) if m.client_streaming else (1,)
            rep_lengths = (0, 1, 4) if m.server_streaming else (1,)
            for nreq in req_lengths:
                for nrep in rep_lengths:
                    requests = samples(req_cls, nreq)
                    replies = samples(rep_cls, nrep)
                    plan[m.name]["replies"] = replies
                    calls.clear()
                    arg = requests if m.client_streaming else requests[0]
                    if m.server_streaming:
                        got = [r async for r in stub_method(arg)]
                    else:
                        got = [await stub_method(arg)]
                    assert len(calls) == 1, (m.name, calls)
                    assert calls[0][0] == m.name, (m.name, calls)
                    assert calls[0][1] == requests, (m.name, calls[0][1], requests)
                    assert all(type(r) is req_cls for r in calls[0][1])
                    assert got == replies, (m.name, got, replies)
                    assert all(type(r) is rep_cls for r in got)
                    n_calls += 1

    # -- nothing overridden: UNIMPLEMENTED for every method
    async with ChannelFor([Base()]) as channel:
        stub = Stub(channel)
        for m in methods:
            req_cls, _ = types[m.name]
            arg = samples(req_cls, 2) if m.client_streaming else samples(req_cls, 2)[1]
            stub_method = getattr(stub, names[m.name])
            try:
                if m.server_streaming:
                    [r async for r in stub_method(arg)]
                else:
                    await stub_method(arg)
            except grpclib.GRPCError as e:
                assert e.status is Status.UNIMPLEMENTED, (m.name, e.status)
            else:
                raise AssertionError(f"{m.name}: expected UNIMPLEMENTED")
            n_calls += 1
    return n_calls


async def main():
    total = 0
    for scenario in (scenario_no_package, scenario_packages):
        for parameter in ("", "typing.direct", "typing.root", "typing.310", "pydantic_dataclasses"):
            files, package, names, classes = scenario()
            routes = reference_routes(files)
            # independent spelling of the expected route as well
            for f in files:
                for s in f.service:
                    for m in s.method:
                        prefix = f.package + "." if f.package else ""
                        assert routes[(s.name, m.name)] == f"/{prefix}{s.name}/{m.name}"
            top_name = generate(files, parameter)
            pydantic = parameter == "pydantic_dataclasses"
            for f in files:
                for service in f.service:
                    total += await check_service(
                        top_name, package, service, names, classes, routes, pydantic
                    )
    assert total > 300, total
    print(f"C11 keep1 equiv OK ({total} calls)")


asyncio.run(main())
