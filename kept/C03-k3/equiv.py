"""Equivalence script for the refactoring of betterproto.plugin.parser.traverse
(recursive nested generator -> explicit stack).

Part 1 drives traverse() directly on several hundred random FileDescriptorProto
trees (built with google.protobuf, parsed with betterproto) and compares
  * the sequence of yielded objects (identity with the objects of the tree),
  * the flattened names they carry,
  * the source-info paths,
  * the *laziness* contract the plugin depends on: when an item is yielded its own
    name is already flattened but its children and later siblings are untouched
    (read_protobuf_type()/is_map() look at the un-renamed nested map entries),
against an independent oracle written on top of descriptor_pb2.

Part 2 runs the whole plugin (ruff stubbed out) on random nested proto3 schemas
compiled by grpc_tools.protoc and checks, without assuming any naming convention,
that every (nested) message/enum has exactly one class, every field number / map /
enum number arrives, and that every comment ends up on the element it was written
for (comments are looked up through the paths traverse() yields).
"""
import dataclasses
import importlib
import os
import random
import re
import sys
import tempfile
import typing

from google.protobuf import descriptor_pb2
from google.protobuf.compiler import plugin_pb2
from grpc_tools import protoc as grpc_protoc

import betterproto
import betterproto.plugin.compiler as plugin_compiler
from betterproto.lib.google.protobuf import (
    DescriptorProto,
    EnumDescriptorProto,
    FileDescriptorProto,
)
from betterproto.lib.google.protobuf.compiler import CodeGeneratorRequest
from betterproto.plugin.models import monkey_patch_oneof_index
from betterproto.plugin.parser import generate_code, traverse

plugin_compiler.subprocess.check_output = lambda cmd, input, encoding: input
monkey_patch_oneof_index()

FDP = descriptor_pb2.FieldDescriptorProto

# --------------------------------------------------------------------------- part 1
NAMES = ["A", "B", "Inner", "inner", "snake_case", "HTTP", "V2", "X_", "_lead", "Foo1", "fooBar", "E"]


def random_enum(rng, into):
    e = into.add()
    e.name = rng.choice(NAMES)
    for k in range(rng.randint(0, 3)):
        v = e.value.add()
        v.name = f"V{k}"
        v.number = k


def random_message(rng, into, depth):
    m = into.add()
    m.name = rng.choice(NAMES)
    for k in range(rng.randint(0, 2)):
        f = m.field.add()
        f.name = f"f{k}"
        f.number = k + 1
        f.type = FDP.TYPE_INT32
        f.label = FDP.LABEL_OPTIONAL
    if depth > 0:
        for _ in range(rng.choice([0, 0, 1, 2, 3])):
            random_enum(rng, m.enum_type)
        for _ in range(rng.choice([0, 0, 1, 1, 2, 3])):
            random_message(rng, m.nested_type, depth - 1)


def random_file(rng):
    fd = descriptor_pb2.FileDescriptorProto(name="r.proto", package="p", syntax="proto3")
    shape = rng.randrange(6)
    n_enum = 0 if shape == 0 else rng.randint(0, 3)
    n_msg = 0 if shape == 1 else rng.randint(0, 4)
    if shape == 2:
        n_enum = n_msg = 0
    for _ in range(n_enum):
        random_enum(rng, fd.enum_type)
    for _ in range(n_msg):
        random_message(rng, fd.message_type, rng.randint(0, 5))
    return fd


def chain_file(depth):
    """one message nested `depth` levels deep, an enum at every level"""
    fd = descriptor_pb2.FileDescriptorProto(name="c.proto", package="p", syntax="proto3")
    cur = fd.message_type
    for d in range(depth):
        m = cur.add()
        m.name = f"L{d}"
        m.enum_type.add().name = f"E{d}"
        cur = m.nested_type
    return fd


def oracle(fd):
    """expected [(kind, flattened name, path)] in the order the plugin reads them"""
    out = []

    def walk(items, kind, path, prefix):
        for i, item in enumerate(items):
            name = f"{prefix}_{item.name}"
            out.append((kind, name, path + [i]))
            if kind == "message":
                walk(item.enum_type, "enum", path + [i, 4], name)
                walk(item.nested_type, "message", path + [i, 3], name)

    walk(fd.enum_type, "enum", [5], "")
    walk(fd.message_type, "message", [4], "")
    return out


def all_nodes(bp_file):
    """every enum / message object of a betterproto FileDescriptorProto (any order)"""
    nodes = []

    def walk(msg):
        nodes.append(msg)
        nodes.extend(msg.enum_type)
        for n in msg.nested_type:
            walk(n)

    nodes.extend(bp_file.enum_type)
    for m in bp_file.message_type:
        walk(m)
    return nodes


def check_traverse(fd):
    expected = oracle(fd)
    bp_file = FileDescriptorProto().parse(fd.SerializeToString())
    nodes = all_nodes(bp_file)
    original = {id(n): n.name for n in nodes}
    assert len(nodes) == len(expected)

    seen = []
    gen = traverse(bp_file)
    assert iter(gen) is gen  # a lazy generator, nothing has been renamed yet
    assert all(n.name == original[id(n)] for n in nodes)
    for step, (item, path) in enumerate(gen):
        kind, name, want_path = expected[step]
        assert isinstance(item, DescriptorProto if kind == "message" else EnumDescriptorProto)
        assert any(item is n for n in nodes), "yielded object is not part of the tree"
        assert not any(item is s for s in seen), "yielded twice"
        assert item.name == name, (item.name, name)
        assert type(path) is list and path == want_path, (path, want_path)
        seen.append(item)
        # laziness: exactly the items yielded so far have been renamed
        for n in nodes:
            if any(n is s for s in seen):
                assert n.name != original[id(n)] and n.name.endswith("_" + original[id(n)])
            else:
                assert n.name == original[id(n)], (n.name, original[id(n)])
        if kind == "message":
            # in particular the direct children still carry their schema names
            assert [c.name for c in item.nested_type] == [original[id(c)] for c in item.nested_type]
            assert [c.name for c in item.enum_type] == [original[id(c)] for c in item.enum_type]
        # the consumer owns the path: scribbling on it must not disturb later results
        path.append(99)
        path[0] = -1
    assert len(seen) == len(expected)
    return len(expected)


rng = random.Random(20240503)
total = 0
for _ in range(400):
    total += check_traverse(random_file(rng))
for depth in (0, 1, 2, 7, 31, 60):
    total += check_traverse(chain_file(depth))
# two independent traversals of two files may be interleaved
fa, fb = chain_file(3), chain_file(4)
ba, bb = (FileDescriptorProto().parse(f.SerializeToString()) for f in (fa, fb))
ga, gb = traverse(ba), traverse(bb)
inter_a, inter_b = [], []
for _ in range(10):
    for g, acc in ((ga, inter_a), (gb, inter_b)):
        for item, path in g:
            acc.append((item.name, path))
            break
assert inter_a == [(n, p) for _, n, p in oracle(fa)]
assert inter_b == [(n, p) for _, n, p in oracle(fb)]
print(f"part 1 OK: {total} nodes traversed")


# --------------------------------------------------------------------------- part 2
SCALARS = ["double", "float", "int32", "int64", "uint32", "uint64", "sint32", "sint64",
           "fixed32", "fixed64", "sfixed32", "sfixed64", "bool", "string", "bytes"]
MAP_KEYS = ["int32", "int64", "uint32", "uint64", "sint32", "sint64", "fixed32",
            "fixed64", "sfixed32", "sfixed64", "bool", "string"]


class SchemaGen:
    def __init__(self, rng, package):
        self.rng = rng
        self.package = package
        self.counter = 0
        self.types = []  # (full name, kind), filled in a first pass
        self.lines = []

    def fresh(self, styles):
        self.counter += 1
        return self.rng.choice(styles).format(n=self.counter)

    # first pass: decide the tree of type names
    def plan_message(self, scope, depth, top=False):
        # (betterproto finds the package of a type reference by looking for the first
        # capital letter, so top-level names are capitalised; nested ones need not be)
        styles = ["M{n}", "Msg{n}", "HTTP{n}", "X{n}Y", "Snake_Msg_{n}"]
        name = self.fresh(styles if top else styles + ["inner{n}", "snake_msg_{n}"])
        full = f"{scope}.{name}"
        node = {"kind": "message", "name": name, "full": full, "children": []}
        self.types.append((full, "message"))
        if depth > 0:
            for _ in range(self.rng.choice([0, 1, 1, 2])):
                node["children"].append(self.plan_enum(full))
            for _ in range(self.rng.choice([0, 1, 1, 2, 3])):
                node["children"].append(self.plan_message(full, depth - 1))
        return node

    def plan_enum(self, scope, top=False):
        styles = ["E{n}", "Kind{n}", "HTTPCode{n}"]
        name = self.fresh(styles if top else styles + ["state{n}", "enum_{n}"])
        full = f"{scope}.{name}"
        self.types.append((full, "enum"))
        return {"kind": "enum", "name": name, "full": full}

    # second pass: emit text
    def emit(self, node, indent):
        pad = "  " * indent
        if node["kind"] == "enum":
            self.lines.append(f"{pad}// DOC {node['full']}")
            self.lines.append(f"{pad}enum {node['name']} {{")
            values = [0] + self.rng.sample(range(-50, 50), self.rng.randint(0, 3))
            values = list(dict.fromkeys(values))
            for v in values:
                self.counter += 1
                self.lines.append(f"{pad}  // EV {node['full']} {v}")
                self.lines.append(f"{pad}  VAL_{self.counter} = {v};")
            self.lines.append(f"{pad}}}")
            return
        self.lines.append(f"{pad}// DOC {node['full']}")
        self.lines.append(f"{pad}message {node['name']} {{")
        for child in node["children"]:
            self.emit(child, indent + 1)
        for _ in range(self.rng.randint(0, 5)):
            self.counter += 1
            number = self.counter
            fname = self.rng.choice(["f{n}", "someField{n}", "snake_field_{n}", "F{n}"]).format(n=number)
            roll = self.rng.random()
            if roll < 0.35:
                ftype = self.rng.choice(SCALARS)
            else:
                ftype = self.rng.choice(self.types)[0]
            shape = self.rng.random()
            if shape < 0.25:
                decl = f"map<{self.rng.choice(MAP_KEYS)}, {ftype}> {fname} = {number};"
            elif shape < 0.45:
                decl = f"repeated {ftype} {fname} = {number};"
            elif shape < 0.6:
                decl = f"optional {ftype} {fname} = {number};"
            else:
                decl = f"{ftype} {fname} = {number};"
            self.lines.append(f"{pad}  // FD {number}")
            self.lines.append(f"{pad}  {decl}")
        self.lines.append(f"{pad}}}")

    def build(self):
        scope = "." + self.package
        top = []
        for _ in range(self.rng.randint(0, 2)):
            top.append(self.plan_enum(scope, top=True))
        for _ in range(self.rng.randint(1, 4)):
            top.append(self.plan_message(scope, self.rng.randint(0, 4), top=True))
        self.rng.shuffle(top)
        self.lines = ['syntax = "proto3";', f"package {self.package};", ""]
        for node in top:
            self.emit(node, 0)
        return "\n".join(self.lines) + "\n"


def compile_protos(files):
    with tempfile.TemporaryDirectory() as src:
        for name, text in files.items():
            with open(os.path.join(src, name), "w") as fh:
                fh.write(text)
        out = os.path.join(src, "fds.bin")
        wkt = os.path.join(os.path.dirname(grpc_protoc.__file__), "_proto")
        rc = grpc_protoc.main(
            ["protoc", f"-I{src}", f"-I{wkt}", "--include_imports",
             "--include_source_info", f"--descriptor_set_out={out}", *files]
        )
        assert rc == 0, "protoc rejected the schema:\n" + "\n".join(files.values())
        fds = descriptor_pb2.FileDescriptorSet()
        with open(out, "rb") as fh:
            fds.ParseFromString(fh.read())
    req = plugin_pb2.CodeGeneratorRequest(file_to_generate=list(files))
    req.proto_file.extend(fds.file)
    return fds, CodeGeneratorRequest().parse(req.SerializeToString())


def index_schema(fds):
    messages, enums = {}, {}

    def walk(scope, msg):
        full = f"{scope}.{msg.name}"
        if msg.options.map_entry:
            return
        messages[full] = msg
        for e in msg.enum_type:
            enums[f"{full}.{e.name}"] = e
        for n in msg.nested_type:
            walk(full, n)

    for fd in fds.file:
        scope = "." + fd.package
        for e in fd.enum_type:
            enums[f"{scope}.{e.name}"] = e
        for m in fd.message_type:
            walk(scope, m)
    return messages, enums


def class_blocks(content):
    """class name -> source text of the class body"""
    blocks = {}
    parts = re.split(r"^class (\w+)\(", content, flags=re.M)
    for name, body in zip(parts[1::2], parts[2::2]):
        assert name not in blocks, f"class {name} defined twice"
        blocks[name] = body
    return blocks


def check_schema(index, rng):
    package = f"gen{index}.pkg"
    text = SchemaGen(rng, package).build()
    fds, request = compile_protos({f"gen{index}.proto": text})
    messages, enums = index_schema(fds)

    response = generate_code(request)
    by_name = {f.name: f.content for f in response.file}
    for name in sorted(by_name):
        DIGEST.update(name.encode() + b"\0" + by_name[name].encode() + b"\0")
    content = by_name[os.path.join(f"gen{index}", "pkg", "__init__.py")]
    with tempfile.TemporaryDirectory() as outdir:
        for name, body in by_name.items():
            path = os.path.join(outdir, name)
            os.makedirs(os.path.dirname(path), exist_ok=True)
            with open(path, "w") as fh:
                fh.write(body)
        sys.path.insert(0, outdir)
        try:
            mod = importlib.import_module(package)
        finally:
            sys.path.remove(outdir)

    classes = {
        n: c for n, c in vars(mod).items()
        if isinstance(c, type) and c.__module__ == mod.__name__
        and issubclass(c, (betterproto.Message, betterproto.Enum))
    }
    blocks = class_blocks(content)
    assert set(blocks) == set(classes)
    assert len(classes) == len(messages) + len(enums), (sorted(classes), sorted(messages), sorted(enums))

    # the comment written in front of a type is the docstring of exactly one class
    by_full = {}
    for full in [*messages, *enums]:
        owners = [c for c in classes.values() if (c.__doc__ or "").strip() == f"DOC {full}"]
        assert len(owners) == 1, (full, owners)
        by_full[full] = owners[0]
    assert len(set(by_full.values())) == len(by_full) == len(classes)

    for full, desc in enums.items():
        cls = by_full[full]
        assert issubclass(cls, betterproto.Enum)
        assert sorted(int(m) for m in cls.__members__.values()) == sorted(v.number for v in desc.value)
        body = blocks[cls.__name__]
        for v in desc.value:
            # the value's own comment directly follows the member with that number
            assert re.search(rf'^\s+\w+ = {v.number}\n\s+"""EV {re.escape(full)} {v.number}"""$', body, re.M), (full, v.number)

    for full, desc in messages.items():
        cls = by_full[full]
        assert issubclass(cls, betterproto.Message)
        fields = {f.metadata["betterproto"].number: f for f in dataclasses.fields(cls)}
        assert sorted(fields) == sorted(f.number for f in desc.field), full
        hints = typing.get_type_hints(cls, vars(mod))
        body = blocks[cls.__name__]
        for fd in desc.field:
            meta = fields[fd.number].metadata["betterproto"]
            hint = hints[fields[fd.number].name]
            assert re.search(rf'_field\({fd.number}[,)].*\n\s+"""FD {fd.number}"""$', body, re.M), (full, fd.number)
            entry = None
            if fd.type == FDP.TYPE_MESSAGE:
                entry = next(
                    (n for n in desc.nested_type
                     if n.options.map_entry and fd.type_name == f"{full}.{n.name}"), None)
            if entry is not None:
                assert meta.proto_type == "map" and typing.get_origin(hint) is dict
                key_fd, value_fd = entry.field
                assert meta.map_types == (
                    FDP.Type.Name(key_fd.type)[5:].lower(), FDP.Type.Name(value_fd.type)[5:].lower())
                target, target_fd = typing.get_args(hint)[1], value_fd
            else:
                assert meta.proto_type == FDP.Type.Name(fd.type)[5:].lower(), (full, fd.name)
                assert (typing.get_origin(hint) is list) == (fd.label == FDP.LABEL_REPEATED)
                assert bool(meta.optional) == fd.proto3_optional
                args = [a for a in typing.get_args(hint) if a is not type(None)]
                target, target_fd = (args[0] if args else hint), fd
            if target_fd.type in (FDP.TYPE_MESSAGE, FDP.TYPE_ENUM):
                assert target is by_full[target_fd.type_name], (full, fd.name, target)
        assert cls().parse(bytes(cls())) == cls()
    return len(classes)


import hashlib

DIGEST = hashlib.sha256()
rng = random.Random(777)
n_classes = 0
for index in range(40):
    n_classes += check_schema(index, rng)
print(f"part 2 OK: {n_classes} generated classes checked against protoc's descriptors")
# the generated sources, byte for byte (recorded on the reference tree)
print("digest of all generated files:", DIGEST.hexdigest())
assert DIGEST.hexdigest() == "bae103149303d156f16e2372fe515950018059d51c654145da5075c08a5d8cf1", DIGEST.hexdigest()
print("equiv OK")
