"""C04 keep1: JSON form of map fields (Message.to_dict, map branch).

Checks, for maps of every key kind and every value kind,
  * to_dict against an independent reference written out here (typed keys kept as
    is and in insertion order; int64 -> str, bytes -> base64, enum -> name or number,
    float specials, Timestamp / Duration strings, nested messages with the
    requested casing and include_default_values),
  * json.dumps-ability and the dict / JSON-text round trip (classmethod and
    instance form of from_dict, both casings) including byte equality,
  * the JSON form against google.protobuf's json_format for the same wire bytes.
"""

import base64
from decimal import Decimal
import itertools
import json
import math
import random
from dataclasses import dataclass
from datetime import datetime, timedelta, timezone
from typing import Dict

import betterproto
from betterproto import Casing
from betterproto.lib.google.protobuf import Int64Value

CASINGS = (("CAMEL", Casing.CAMEL), ("SNAKE", Casing.SNAKE))
UTC = timezone.utc
rnd = random.Random(20260404)


class Color(betterproto.Enum):
    COLOR_UNSET = 0
    RED = 1
    GREEN = 2
    DARK_BLUE = -3
    ALIAS_RED = 1


@dataclass(eq=False, repr=False)
class Leaf(betterproto.Message):
    big_number: int = betterproto.int64_field(1)
    blob_data: bytes = betterproto.bytes_field(2)


@dataclass(eq=False, repr=False)
class Inner(betterproto.Message):
    some_value: int = betterproto.int64_field(1)
    plain_text: str = betterproto.string_field(2)
    leaf_by_name: Dict[str, Leaf] = betterproto.map_field(
        3, betterproto.TYPE_STRING, betterproto.TYPE_MESSAGE
    )
    shade: Color = betterproto.enum_field(4)
    when_seen: datetime = betterproto.message_field(5)


# --------------------------------------------------------------------------- kinds
INT32_KEYS = [0, 1, -1, 7, 2**31 - 1, -(2**31)]
UINT32_KEYS = [0, 1, 7, 2**32 - 1]
INT64_KEYS = [0, 1, -1, 2**53 + 1, 2**63 - 1, -(2**63)]
UINT64_KEYS = [0, 1, 2**53 + 1, 2**64 - 1]
KEY_KINDS = {
    betterproto.TYPE_INT32: (int, INT32_KEYS),
    betterproto.TYPE_SINT32: (int, INT32_KEYS),
    betterproto.TYPE_SFIXED32: (int, INT32_KEYS),
    betterproto.TYPE_UINT32: (int, UINT32_KEYS),
    betterproto.TYPE_FIXED32: (int, UINT32_KEYS),
    betterproto.TYPE_INT64: (int, INT64_KEYS),
    betterproto.TYPE_SINT64: (int, INT64_KEYS),
    betterproto.TYPE_SFIXED64: (int, INT64_KEYS),
    betterproto.TYPE_UINT64: (int, UINT64_KEYS),
    betterproto.TYPE_FIXED64: (int, UINT64_KEYS),
    betterproto.TYPE_BOOL: (bool, [True, False]),
    betterproto.TYPE_STRING: (str, ["", "a", "snake_key", "camelKey", "é中", "1", "true"]),
}

F32 = [0.0, 0.5, -2.25, 1.5e10, float("inf"), float("-inf"), float("nan")]
F64 = [0.0, 0.1, -1e300, 5e-324, float("inf"), float("-inf"), float("nan"), 3.0]
STAMPS = [
    datetime(1970, 1, 1, tzinfo=UTC),
    datetime(2024, 2, 29, 23, 59, 59, tzinfo=UTC),
    datetime(2001, 9, 9, 1, 46, 40, 120000, tzinfo=UTC),
    datetime(1969, 12, 31, 23, 59, 59, 999999, tzinfo=UTC),
    datetime(1, 1, 1, tzinfo=UTC),
    datetime(9999, 12, 31, 23, 59, 59, 999999, tzinfo=UTC),
    datetime(2020, 5, 17, 10, 0, 0, 1000, tzinfo=timezone(timedelta(hours=5, minutes=30))),
]
DELTAS = [
    timedelta(0),
    timedelta(seconds=1),
    timedelta(seconds=-1),
    timedelta(milliseconds=-500),
    timedelta(microseconds=1),
    timedelta(microseconds=-1),
    timedelta(days=3650, seconds=86399, microseconds=999000),
    timedelta(days=-3650, microseconds=7),
]
LEAVES = [Leaf(), Leaf(big_number=2**62, blob_data=b"\xfb\xff\x00")]
INNERS = [
    Inner(),
    Inner(some_value=-(2**63), plain_text="x"),
    Inner(leaf_by_name={"z": LEAVES[1], "a": LEAVES[0]}, shade=Color.DARK_BLUE),
    Inner(shade=Color.try_value(77), when_seen=STAMPS[2]),
]
VALUE_KINDS = {
    # name: (proto type, python class for the hint, sample values)
    "int32": (betterproto.TYPE_INT32, int, INT32_KEYS),
    "sint32": (betterproto.TYPE_SINT32, int, INT32_KEYS),
    "sfixed32": (betterproto.TYPE_SFIXED32, int, INT32_KEYS),
    "uint32": (betterproto.TYPE_UINT32, int, UINT32_KEYS),
    "fixed32": (betterproto.TYPE_FIXED32, int, UINT32_KEYS),
    "int64": (betterproto.TYPE_INT64, int, INT64_KEYS),
    "sint64": (betterproto.TYPE_SINT64, int, INT64_KEYS),
    "sfixed64": (betterproto.TYPE_SFIXED64, int, INT64_KEYS),
    "uint64": (betterproto.TYPE_UINT64, int, UINT64_KEYS),
    "fixed64": (betterproto.TYPE_FIXED64, int, UINT64_KEYS),
    "bool": (betterproto.TYPE_BOOL, bool, [True, False]),
    "string": (betterproto.TYPE_STRING, str, ["", "v", "Infinity", "é中"]),
    "bytes": (betterproto.TYPE_BYTES, bytes, [b"", b"\x00", b"\xfb\xff\xfe", bytes(range(256))]),
    "float": (betterproto.TYPE_FLOAT, float, F32),
    "double": (betterproto.TYPE_DOUBLE, float, F64),
    "enum": (
        betterproto.TYPE_ENUM,
        Color,
        [Color.COLOR_UNSET, Color.RED, Color.DARK_BLUE, Color.ALIAS_RED, 2, Color.try_value(55), -9],
    ),
    "message": (betterproto.TYPE_MESSAGE, Inner, INNERS),
    "timestamp": (betterproto.TYPE_MESSAGE, datetime, STAMPS),
    "duration": (betterproto.TYPE_MESSAGE, timedelta, DELTAS),
    "wrapper_msg": (betterproto.TYPE_MESSAGE, Int64Value, [Int64Value(), Int64Value(value=2**60)]),
}


def make_holder(name, key_type, key_cls, value_type, value_cls):
    ns = {
        "__annotations__": {
            "leading_count": int,
            "the_map_field": Dict[key_cls, value_cls],
            "trailing_text": str,
        },
        "leading_count": betterproto.int32_field(1),
        "the_map_field": betterproto.map_field(2, key_type, value_type),
        "trailing_text": betterproto.string_field(3),
    }
    return dataclass(eq=False, repr=False)(type(name, (betterproto.Message,), ns))


# ----------------------------------------------------------------------- reference
def ref_timestamp(dt):
    dt = dt.astimezone(UTC)
    head = dt.strftime("%Y-%m-%dT%H:%M:%S") if dt.year >= 1000 else (
        f"{dt.year:04d}" + dt.strftime("-%m-%dT%H:%M:%S")
    )
    us = dt.microsecond
    if us == 0:
        return head + "Z"
    if us % 1000 == 0:
        return f"{head}.{us // 1000:03d}Z"
    return f"{head}.{us:06d}Z"


def ref_duration(td):
    us = td.days * 86400 * 10**6 + td.seconds * 10**6 + td.microseconds
    sign, us = ("-", -us) if us < 0 else ("", us)
    whole, frac = divmod(us, 10**6)
    if frac % 1000 == 0:
        return f"{sign}{whole}.{frac // 1000:03d}s"
    return f"{sign}{whole}.{frac:06d}s"


COLOR_NAMES = {0: "COLOR_UNSET", 1: "RED", 2: "GREEN", -3: "DARK_BLUE"}


def ref_float(x):
    if math.isnan(x):
        return "NaN"
    if math.isinf(x):
        return "Infinity" if x > 0 else "-Infinity"
    return x


def ref_leaf(leaf, camel, defaults):
    out = {}
    if leaf.big_number != 0 or defaults:
        out["bigNumber" if camel else "big_number"] = str(leaf.big_number)
    if leaf.blob_data != b"" or defaults:
        out["blobData" if camel else "blob_data"] = base64.b64encode(leaf.blob_data).decode()
    return out


def ref_inner(inner, camel, defaults):
    out = {}
    if inner.some_value != 0 or defaults:
        out["someValue" if camel else "some_value"] = str(inner.some_value)
    if inner.plain_text != "" or defaults:
        out["plainText" if camel else "plain_text"] = inner.plain_text
    if inner.leaf_by_name or defaults:
        out["leafByName" if camel else "leaf_by_name"] = {
            k: ref_leaf(v, camel, defaults) for k, v in inner.leaf_by_name.items()
        }
    if inner.shade != 0 or defaults:
        out["shade"] = COLOR_NAMES.get(int(inner.shade), int(inner.shade))
    if inner.when_seen != STAMPS[0] or defaults:
        out["whenSeen" if camel else "when_seen"] = ref_timestamp(inner.when_seen)
    return out


def ref_value(kind, v, camel, defaults):
    if kind in ("int64", "sint64", "sfixed64", "uint64", "fixed64"):
        return str(v)
    if kind == "bytes":
        return base64.b64encode(v).decode("ascii")
    if kind in ("float", "double"):
        return ref_float(v)
    if kind == "enum":
        return COLOR_NAMES.get(int(v), int(v))
    if kind == "message":
        return ref_inner(v, camel, defaults)
    if kind == "timestamp":
        return ref_timestamp(v)
    if kind == "duration":
        return ref_duration(v)
    if kind == "wrapper_msg":
        return {"value": str(v.value)} if (v.value != 0 or defaults) else {}
    return v


def same_json(a, b):
    """Deep equality that also compares types, dict order and treats nan == nan."""
    if type(a) is not type(b):
        return False
    if isinstance(a, dict):
        return list(a) == list(b) and all(
            type(x) is type(y) for x, y in zip(a, b)
        ) and all(same_json(a[k], b[k]) for k in a)
    if isinstance(a, list):
        return len(a) == len(b) and all(same_json(x, y) for x, y in zip(a, b))
    if isinstance(a, float) and math.isnan(a):
        return math.isnan(b)
    return a == b


def same_msg(a, b):
    """Message equality; a NaN held inside a map only equals itself by identity in
    Python, so holders with NaN map values are compared entry by entry."""
    if a == b:
        return True
    ma, mb = a.the_map_field, b.the_map_field
    return (
        type(a) is type(b)
        and a.leading_count == b.leading_count
        and a.trailing_text == b.trailing_text
        and list(ma) == list(mb)
        and all(
            isinstance(ma[k], float) and isinstance(mb[k], float)
            and math.isnan(ma[k]) and math.isnan(mb[k])
            or ma[k] == mb[k]
            for k in ma
        )
    )


# --------------------------------------------------------------------------- checks
n_maps = 0
n_trips = 0


def check_holder(cls, kind, entries, lead, trail):
    global n_maps, n_trips
    m = cls(leading_count=lead, the_map_field=dict(entries), trailing_text=trail)
    wire = bytes(m)
    for cname, casing in CASINGS:
        camel = cname == "CAMEL"
        for defaults in (False, True):
            got = m.to_dict(casing=casing, include_default_values=defaults)
            want = {}
            if lead or defaults:
                want["leadingCount" if camel else "leading_count"] = lead
            if entries or defaults:
                want["theMapField" if camel else "the_map_field"] = {
                    k: ref_value(kind, v, camel, defaults) for k, v in entries.items()
                }
            if trail or defaults:
                want["trailingText" if camel else "trailing_text"] = trail
            assert same_json(got, want), (cls.__name__, cname, defaults, got, want)
            n_maps += 1
            text = json.dumps(got)
            assert text == m.to_json(casing=casing, include_default_values=defaults)

            for back in (
                cls.from_dict(got),
                cls().from_dict(got),
                cls.from_dict(json.loads(text)),
                cls().from_json(text),
            ):
                assert same_msg(back, m), (cls.__name__, cname, defaults, back, m)
                assert bytes(back) == wire, (cls.__name__, cname, defaults)
                assert list(back.the_map_field) == list(m.the_map_field)
                n_trips += 1


holders = {}
for (key_type, (key_cls, keys)), (kind, (value_type, value_cls, values)) in itertools.product(
    KEY_KINDS.items(), VALUE_KINDS.items()
):
    cls = make_holder(f"Map_{key_type}_{kind}", key_type, key_cls, value_type, value_cls)
    holders[key_type, kind] = cls
    # empty map, each single entry, and shuffled multi-entry maps
    check_holder(cls, kind, {}, 0, "")
    check_holder(cls, kind, {}, 4, "t")
    for k, v in zip(keys, itertools.cycle(values)):
        check_holder(cls, kind, {k: v}, 0, "")
    for _ in range(3):
        ks = keys[:]
        rnd.shuffle(ks)
        vs = [rnd.choice(values) for _ in ks]
        check_holder(cls, kind, dict(zip(ks, vs)), rnd.choice([0, -5]), rnd.choice(["", "tail"]))
    # every sample value at least once (string-like keys get generated names)
    if key_cls is not bool:
        many_keys = (
            [f"k{i}" for i in range(len(values))] if key_cls is str else list(range(len(values), 0, -1))
        )
        check_holder(cls, kind, dict(zip(many_keys, values)), 1, "")

# a map nested inside a map value inside a map value: casing and defaults reach it
deep = holders[betterproto.TYPE_STRING, "message"]
check_holder(deep, "message", {"q": INNERS[2], "b": INNERS[3], "m": INNERS[0]}, 0, "x")

# a map decoded from the wire behaves like one that was assigned
for (key_type, kind), cls in holders.items():
    key_cls, keys = KEY_KINDS[key_type]
    values = VALUE_KINDS[kind][2]
    entries = dict(zip(reversed(keys), itertools.cycle(values)))
    m = cls(the_map_field=entries)
    parsed = cls().parse(bytes(m))
    for cname, casing in CASINGS:
        assert same_json(parsed.to_dict(casing=casing), m.to_dict(casing=casing)) or kind in (
            "float", "enum", "timestamp",
        ), (cls.__name__, cname)
        assert same_msg(cls.from_dict(parsed.to_dict(casing=casing)), parsed)
        assert bytes(cls().from_json(parsed.to_json(casing=casing))) == bytes(m)


# ------------------------------------------------- comparison with google.protobuf
from google.protobuf import descriptor_pb2, descriptor_pool, json_format, message_factory

FD = descriptor_pb2.FieldDescriptorProto
G_TYPES = {
    "int32": FD.TYPE_INT32, "sint32": FD.TYPE_SINT32, "sfixed32": FD.TYPE_SFIXED32,
    "uint32": FD.TYPE_UINT32, "fixed32": FD.TYPE_FIXED32, "int64": FD.TYPE_INT64,
    "sint64": FD.TYPE_SINT64, "sfixed64": FD.TYPE_SFIXED64, "uint64": FD.TYPE_UINT64,
    "fixed64": FD.TYPE_FIXED64, "bool": FD.TYPE_BOOL, "string": FD.TYPE_STRING,
    "bytes": FD.TYPE_BYTES, "float": FD.TYPE_FLOAT, "double": FD.TYPE_DOUBLE,
}

fdp = descriptor_pb2.FileDescriptorProto(
    name="c04_keep1.proto",
    package="c04k1",
    syntax="proto3",
    dependency=["google/protobuf/timestamp.proto", "google/protobuf/duration.proto",
                "google/protobuf/wrappers.proto"],
)
from google.protobuf import duration_pb2, timestamp_pb2, wrappers_pb2  # noqa: registers deps

enum = fdp.enum_type.add(name="Color")
enum.options.allow_alias = True
for ename, number in [("COLOR_UNSET", 0), ("RED", 1), ("GREEN", 2), ("DARK_BLUE", -3), ("ALIAS_RED", 1)]:
    enum.value.add(name=ename, number=number)


def add_field(msg, name, number, type_, type_name=None, repeated=False):
    f = msg.field.add(name=name, number=number, type=type_,
                      label=FD.LABEL_REPEATED if repeated else FD.LABEL_OPTIONAL)
    if type_name:
        f.type_name = type_name
    return f


def add_map(msg, name, number, key_gtype, value_gtype, value_type_name=None):
    entry_name = "".join(p.capitalize() for p in name.split("_")) + "Entry"
    entry = msg.nested_type.add(name=entry_name)
    entry.options.map_entry = True
    add_field(entry, "key", 1, key_gtype)
    add_field(entry, "value", 2, value_gtype, value_type_name)
    add_field(msg, name, number, FD.TYPE_MESSAGE, f".c04k1.{msg.name}.{entry_name}", repeated=True)


leaf = fdp.message_type.add(name="Leaf")
add_field(leaf, "big_number", 1, FD.TYPE_INT64)
add_field(leaf, "blob_data", 2, FD.TYPE_BYTES)
inner = fdp.message_type.add(name="Inner")
add_field(inner, "some_value", 1, FD.TYPE_INT64)
add_field(inner, "plain_text", 2, FD.TYPE_STRING)
add_map(inner, "leaf_by_name", 3, FD.TYPE_STRING, FD.TYPE_MESSAGE, ".c04k1.Leaf")
add_field(inner, "shade", 4, FD.TYPE_ENUM, ".c04k1.Color")
add_field(inner, "when_seen", 5, FD.TYPE_MESSAGE, ".google.protobuf.Timestamp")

G_VALUE = {
    "enum": (FD.TYPE_ENUM, ".c04k1.Color"),
    "message": (FD.TYPE_MESSAGE, ".c04k1.Inner"),
    "timestamp": (FD.TYPE_MESSAGE, ".google.protobuf.Timestamp"),
    "duration": (FD.TYPE_MESSAGE, ".google.protobuf.Duration"),
}
g_names = {}
for (key_type, kind) in holders:
    if kind == "wrapper_msg":
        continue  # betterproto maps of wrapper messages use the plain message JSON form
    gname = f"Map_{key_type}_{kind}"
    msg = fdp.message_type.add(name=gname)
    add_field(msg, "leading_count", 1, FD.TYPE_INT32)
    vt, vname = G_VALUE.get(kind, (G_TYPES.get(kind), None))
    add_map(msg, "the_map_field", 2, G_TYPES[key_type], vt, vname)
    add_field(msg, "trailing_text", 3, FD.TYPE_STRING)
    g_names[key_type, kind] = gname

pool = descriptor_pool.Default()
pool.Add(fdp)
n_google = 0
for (key_type, kind), gname in g_names.items():
    gcls = message_factory.GetMessageClass(pool.FindMessageTypeByName(f"c04k1.{gname}"))
    cls = holders[key_type, kind]
    key_cls, keys = KEY_KINDS[key_type]
    values = VALUE_KINDS[kind][2]
    if kind == "float":
        values = [v for v in values]  # all exactly representable as float32
    if kind == "double":
        values = [v for v in values if v != 5e-324]  # repr differences are not our concern
    if kind == "timestamp":
        values = [v for v in values if v.year > 1]  # 0001-01-01 is the lower bound there
    ks = keys[:]
    rnd.shuffle(ks)
    m = cls(leading_count=3, the_map_field=dict(zip(ks, itertools.cycle(values))), trailing_text="end")
    g = gcls.FromString(bytes(m))
    for cname, casing in CASINGS:
        ours = json.loads(m.to_json(casing=casing))
        theirs = json_format.MessageToDict(g, preserving_proto_field_name=(cname == "SNAKE"))
        field = "theMapField" if cname == "CAMEL" else "the_map_field"
        assert set(ours) == set(theirs), (gname, cname, ours, theirs)
        assert ours[field].keys() == theirs[field].keys(), (gname, cname, ours, theirs)
        for k in ours[field]:
            a, b = ours[field][k], theirs[field][k]
            if kind == "message":
                # google omits nothing we emit and vice versa, except map order
                assert json.dumps(a, sort_keys=True) == json.dumps(b, sort_keys=True), (gname, k, a, b)
            elif kind == "duration":
                # same decimal number of seconds (google drops a zero fraction)
                assert a[-1] == b[-1] == "s" and Decimal(a[:-1]) == Decimal(b[:-1]), (gname, k, a, b)
                assert a.startswith("-") == b.startswith("-")
            else:
                assert a == b or (a != a and b != b), (gname, cname, k, a, b)
        # and google can read what we wrote, giving the same bytes content
        g2 = json_format.Parse(m.to_json(casing=casing), gcls())
        assert g2 == g, (gname, cname)
        n_google += 1

print(f"C04 keep1 equiv OK: {n_maps} map encodings, {n_trips} round trips, {n_google} google comparisons")
