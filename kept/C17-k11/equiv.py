"""Behaviour of Message.load that the keep1 refactor touches:

  * the size accounting of sized / size-delimited loads (which fields are read,
    where the stream is left, the exact errors for a size that cuts a field, for a
    stream that ends too soon, for truncated input), and
  * the installation of the default of an unselected oneof member before a
    decoded value is merged into it (oneof switching on decode).

Everything is compared against an independent model written out here and, for the
oneof part, against google.protobuf.  Must pass on the pristine tree and with the
refactor applied.

Run: PYTHONPATH=/tmp/wt/R9C17/src /venv/bin/python equiv.py
"""
import io
import random
import struct
from dataclasses import dataclass
from typing import Dict, List, Optional

import betterproto
from betterproto import SIZE_DELIMITED, encode_varint
from google.protobuf import descriptor_pb2, descriptor_pool, message_factory
from google.protobuf.message import DecodeError


# --------------------------------------------------------------------------- classes
@dataclass(eq=False, repr=False)
class Sub(betterproto.Message):
    n: int = betterproto.int32_field(1)
    t: str = betterproto.string_field(2)


@dataclass(eq=False, repr=False)
class Msg(betterproto.Message):
    a: int = betterproto.int32_field(1, group="g")
    b: str = betterproto.string_field(2, group="g")
    c: "Sub" = betterproto.message_field(3, group="g")
    d: bool = betterproto.bool_field(4, group="g")
    x: int = betterproto.int32_field(5)
    r: List[int] = betterproto.int32_field(6)
    m: Dict[str, int] = betterproto.map_field(
        7, betterproto.TYPE_STRING, betterproto.TYPE_INT32
    )
    e: float = betterproto.double_field(8, group="h")
    f: int = betterproto.fixed32_field(9, group="h")
    s: List["Sub"] = betterproto.message_field(10)
    o: Optional[int] = betterproto.int32_field(11, optional=True)


def build_pb():
    fdp = descriptor_pb2.FileDescriptorProto(
        name="c17_keep1.proto", package="c17k1", syntax="proto3"
    )
    F = descriptor_pb2.FieldDescriptorProto
    sub = fdp.message_type.add(name="Sub")
    sub.field.add(name="n", number=1, type=F.TYPE_INT32, label=F.LABEL_OPTIONAL)
    sub.field.add(name="t", number=2, type=F.TYPE_STRING, label=F.LABEL_OPTIONAL)
    msg = fdp.message_type.add(name="Msg")
    msg.oneof_decl.add(name="g")
    msg.oneof_decl.add(name="h")
    msg.oneof_decl.add(name="_o")
    O = F.LABEL_OPTIONAL
    msg.field.add(name="a", number=1, type=F.TYPE_INT32, label=O, oneof_index=0)
    msg.field.add(name="b", number=2, type=F.TYPE_STRING, label=O, oneof_index=0)
    msg.field.add(
        name="c", number=3, type=F.TYPE_MESSAGE, type_name=".c17k1.Sub", label=O,
        oneof_index=0,
    )
    msg.field.add(name="d", number=4, type=F.TYPE_BOOL, label=O, oneof_index=0)
    msg.field.add(name="x", number=5, type=F.TYPE_INT32, label=O)
    msg.field.add(name="r", number=6, type=F.TYPE_INT32, label=F.LABEL_REPEATED)
    entry = msg.nested_type.add(name="MEntry")
    entry.options.map_entry = True
    entry.field.add(name="key", number=1, type=F.TYPE_STRING, label=O)
    entry.field.add(name="value", number=2, type=F.TYPE_INT32, label=O)
    msg.field.add(
        name="m", number=7, type=F.TYPE_MESSAGE, type_name=".c17k1.Msg.MEntry",
        label=F.LABEL_REPEATED,
    )
    msg.field.add(name="e", number=8, type=F.TYPE_DOUBLE, label=O, oneof_index=1)
    msg.field.add(name="f", number=9, type=F.TYPE_FIXED32, label=O, oneof_index=1)
    msg.field.add(
        name="s", number=10, type=F.TYPE_MESSAGE, type_name=".c17k1.Sub",
        label=F.LABEL_REPEATED,
    )
    msg.field.add(
        name="o", number=11, type=F.TYPE_INT32, label=O, oneof_index=2,
        proto3_optional=True,
    )
    pool = descriptor_pool.DescriptorPool()
    pool.Add(fdp)
    return message_factory.GetMessageClass(pool.FindMessageTypeByName("c17k1.Msg"))


PbMsg = build_pb()


# --------------------------------------------------------------------------- encoders
def tag(number, wire_type):
    return encode_varint((number << 3) | wire_type)


def varint(number, value):
    return tag(number, 0) + encode_varint(value)


def lendelim(number, payload):
    return tag(number, 2) + encode_varint(len(payload)) + payload


def fixed32(number, payload):
    return tag(number, 5) + payload


def fixed64(number, payload):
    return tag(number, 1) + payload


SUB1 = varint(1, 7) + lendelim(2, b"seven")
SUB2 = lendelim(2, b"only-t")

# single well-formed field occurrences (chunk, description)
CHUNKS = [
    varint(1, 5),                                  # a
    varint(1, 0),                                  # a = default, still selects
    varint(1, (1 << 64) - 3),                      # a = -3
    lendelim(2, b"bee"),                           # b
    lendelim(2, b""),                              # b = "" selects b
    lendelim(3, SUB1),                             # c
    lendelim(3, b""),                              # c = empty sub
    lendelim(3, SUB2),                             # c again (replaces in betterproto)
    varint(4, 1),                                  # d
    varint(4, 0),                                  # d = False
    varint(5, 99),                                 # x
    varint(6, 1), varint(6, 2),                    # r unpacked
    lendelim(6, b"\x03\x04\xac\x02"),              # r packed
    lendelim(7, lendelim(1, b"k") + varint(2, 4)),  # m
    lendelim(7, lendelim(1, b"k2")),               # m value default
    fixed64(8, struct.pack("<d", 1.5)),            # e
    fixed32(9, struct.pack("<I", 17)),             # f
    lendelim(10, SUB1), lendelim(10, b""),         # s
    varint(11, 0), varint(11, 12),                 # o
    # unknown numbers
    varint(99, 300), lendelim(100, b"unknown"), fixed32(101, b"\x01\x02\x03\x04"),
    fixed64(2000, b"\x05" * 8),
    # known numbers with a non fitting wire type (kept as unknown, select nothing)
    lendelim(1, b"\x01\x02"), fixed32(2, b"abcd"), varint(3, 1), fixed64(4, b"\x00" * 8),
    varint(8, 1), varint(9, 2), fixed32(8, b"\x00\x00\x80\x3f"),
    # non canonical (over long) varints: the raw length counts for the size
    b"\x88\x80\x00" + b"\x85\x80\x80\x00",         # a = 5 with padded tag and value
    tag(2, 2) + b"\x83\x00" + b"pad",              # b with padded length
]

ONEOF_FIELDS = {"g": ["a", "b", "c", "d"], "h": ["e", "f"]}


def snapshot(msg):
    """Everything observable about a decoded betterproto message."""
    out = {}
    for group, names in ONEOF_FIELDS.items():
        which, value = betterproto.which_one_of(msg, group)
        out["which_" + group] = which
        for name in names:
            if name == which:
                v = getattr(msg, name)
                out[name] = (type(v).__name__, bytes(v) if isinstance(v, Sub) else v)
            else:
                try:
                    getattr(msg, name)
                except AttributeError:
                    out[name] = "<unset>"
                else:
                    raise AssertionError(f"unselected member {name} is readable")
    out["x"] = msg.x
    out["r"] = list(msg.r)
    out["m"] = dict(msg.m)
    out["s"] = [(sub.n, sub.t) for sub in msg.s]
    out["o"] = msg.o
    out["unknown"] = msg._unknown_fields
    out["bytes"] = bytes(msg)
    out["len"] = len(msg)
    out["dict"] = msg.to_dict()
    return out


def pb_view(pb):
    out = {}
    for group, names in ONEOF_FIELDS.items():
        out["which_" + group] = pb.WhichOneof(group) or ""
    for name in ("a", "b", "d", "e", "f"):
        out[name] = getattr(pb, name)
    out["c"] = (pb.c.n, pb.c.t) if pb.HasField("c") else None
    out["x"] = pb.x
    out["r"] = list(pb.r)
    out["m"] = dict(pb.m)
    out["s"] = [(sub.n, sub.t) for sub in pb.s]
    out["o"] = pb.o if pb.HasField("o") else None
    return out


def compare_with_pb(data, msg, single_c):
    """The oneof selection and all values agree with the reference decoder."""
    pb = PbMsg()
    pb.ParseFromString(data)
    ref = pb_view(pb)
    for group, names in ONEOF_FIELDS.items():
        which, value = betterproto.which_one_of(msg, group)
        assert which == ref["which_" + group], (data.hex(), group, which, ref)
        if which in ("a", "b", "d", "e", "f"):
            assert value == ref[which] and type(value) is type(ref[which]), (
                data.hex(), which, value, ref[which])
        elif which == "c" and single_c:
            # (the reference merges several occurrences of a sub-message, betterproto
            # keeps the last; only compare when there is at most one)
            assert (value.n, value.t) == ref["c"], (data.hex(), value, ref["c"])
    assert msg.x == ref["x"]
    assert list(msg.r) == ref["r"], (data.hex(), msg.r, ref["r"])
    assert dict(msg.m) == ref["m"]
    assert [(sub.n, sub.t) for sub in msg.s] == ref["s"]
    assert msg.o == ref["o"], (data.hex(), msg.o, ref["o"])


# --------------------------------------------------------------------------- part 1
# oneof switching on decode, whole-buffer parse
rng = random.Random(1717)
n_parse = 0


def check_parse(chunks):
    global n_parse
    data = b"".join(chunks)
    m1 = Msg().parse(data)
    m2 = Msg.FromString(data)
    m3 = Msg().load(io.BytesIO(data))
    s1 = snapshot(m1)
    assert s1 == snapshot(m2) == snapshot(m3)
    n_c = sum(1 for c in chunks if c[:1] == tag(3, 2))
    compare_with_pb(data, m1, single_c=n_c <= 1)
    # selected member = the last well typed occurrence of a member of the group
    for group, names in ONEOF_FIELDS.items():
        numbers = {Msg._betterproto.meta_by_field_name[n].number: n for n in names}
        expect = ""
        for chunk in chunks:
            for parsed in betterproto.parse_fields(chunk):
                name = numbers.get(parsed.number)
                if name is None:
                    continue
                meta = Msg._betterproto.meta_by_field_name[name]
                fits = {
                    "int32": 0, "bool": 0, "string": 2, "message": 2, "double": 1,
                    "fixed32": 5,
                }[meta.proto_type] == parsed.wire_type
                if fits:
                    expect = name
        assert s1["which_" + group] == expect, (data.hex(), group, s1, expect)
    # re-encoding is stable and keeps the selection
    again = Msg().parse(s1["bytes"])
    s2 = snapshot(again)
    assert s2["bytes"] == s1["bytes"]
    for key in ("which_g", "which_h", "x", "r", "m", "s", "o"):
        assert s2[key] == s1[key], key
    # parsing twice into the same instance (merge): second selection wins
    m4 = Msg().parse(data)
    m4.parse(data)
    assert betterproto.which_one_of(m4, "g")[0] == s1["which_g"]
    assert betterproto.which_one_of(m4, "h")[0] == s1["which_h"]
    n_parse += 1


for chunk in CHUNKS:
    check_parse([chunk])
for c1 in CHUNKS:
    for c2 in CHUNKS:
        check_parse([c1, c2])
for _ in range(1500):
    check_parse([rng.choice(CHUNKS) for _ in range(rng.randint(3, 9))])

# a pre-populated instance: the decoded member displaces the one set by hand
for chunk, name in [(varint(1, 5), "a"), (lendelim(2, b"q"), "b"), (lendelim(3, SUB1), "c"),
                    (varint(4, 1), "d")]:
    for preset in ({"a": 1}, {"b": "old"}, {"c": Sub(n=1)}, {"d": True}, {}):
        msg = Msg(**preset)
        msg.parse(chunk)
        assert betterproto.which_one_of(msg, "g")[0] == name
        for other in ONEOF_FIELDS["g"]:
            if other != name:
                try:
                    getattr(msg, other)
                except AttributeError:
                    pass
                else:
                    raise AssertionError((chunk, preset, other))
# ... and a mismatching occurrence displaces nothing
for chunk in (lendelim(1, b"\x01"), fixed32(2, b"abcd"), varint(3, 1), fixed32(4, b"\0" * 4)):
    for preset in ({"a": 1}, {"b": "old"}, {"d": True}, {}):
        msg = Msg(**preset)
        before = betterproto.which_one_of(msg, "g")
        msg.parse(chunk)
        assert betterproto.which_one_of(msg, "g") == before
        assert msg._unknown_fields == chunk


# --------------------------------------------------------------------------- part 2
# size accounting
def model_sized(chunks, size, available):
    """What load(stream, size) must do for a stream holding ``available`` bytes of the
    concatenated chunks.  Returns ("ok", n_fields, consumed) or (exception, text)."""
    total = 0
    n = 0
    while size is None or total < size:
        if n == len(chunks):
            break                                   # clean end of stream
        nxt = total + len(chunks[n])
        if nxt > available:
            if total == available:
                break                               # stream ends at a field boundary
            return ("EOFError", None)
        total = nxt
        n += 1
        if size is not None and total > size:
            return ("ValueError",
                    f"Expected message of size {size}, can only read "
                    f"either {total - len(chunks[n - 1])} or {total} bytes - there is no "
                    "message of the expected size in the stream.")
    if size is not None and total < size:
        return ("ValueError",
                f"Expected message of size {size}, but was only able to "
                f"read {total} bytes - the stream may have ended too soon,"
                " or the expected size may have been incorrect.")
    return ("ok", n, total)


n_sized = 0


def check_sized(chunks, size, available, trailer=b""):
    """trailer: one more whole field after the body that must stay unread when the
    declared size ends before it (only used with the complete body)."""
    global n_sized
    body = b"".join(chunks)
    if trailer:
        assert available == len(body)
        chunks = chunks + [trailer]
        body += trailer
        available = len(body)
    data = body[:available]
    expect = model_sized(chunks, size, available)
    stream = io.BytesIO(data)
    msg = Msg()
    try:
        ret = msg.load(stream, size)
    except (EOFError, ValueError) as exc:
        assert expect[0] == type(exc).__name__, (chunks, size, available, expect, exc)
        if expect[1] is not None:
            assert str(exc) == expect[1], (str(exc), expect[1])
    else:
        assert expect[0] == "ok", (chunks, size, available, expect)
        assert ret is msg
        _, n, consumed = expect
        assert stream.tell() == consumed, (stream.tell(), consumed)
        assert snapshot(msg) == snapshot(Msg().parse(b"".join(chunks[:n])))
        assert msg._serialized_on_wire is True
    n_sized += 1


def check_delimited(chunks, declared, available):
    """size-delimited load: varint prefix ``declared`` then the body."""
    global n_sized
    body = b"".join(chunks)[:available]
    prefix = encode_varint(declared)
    stream = io.BytesIO(prefix + body)
    expect = model_sized(chunks, declared, available)
    msg = Msg()
    try:
        msg.load(stream, SIZE_DELIMITED)
    except (EOFError, ValueError) as exc:
        assert expect[0] == type(exc).__name__, (chunks, declared, available, expect, exc)
        if expect[1] is not None:
            assert str(exc) == expect[1], (str(exc), expect[1])
    else:
        assert expect[0] == "ok", (chunks, declared, available, expect)
        assert stream.tell() == len(prefix) + expect[2]
        assert snapshot(msg) == snapshot(Msg().parse(b"".join(chunks[: expect[1]])))
    n_sized += 1


def all_sizes(chunks):
    total = sum(map(len, chunks))
    for size in [None, *range(0, total + 3), total + 130, 1 << 20, -2, -7]:
        # the whole body is available
        check_sized(chunks, size, total)
        # followed by another whole field that must not be touched
        if size is not None and 0 <= size <= total:
            check_sized(chunks, size, total, trailer=varint(5, 1234))
    for size in range(0, total + 3):
        check_delimited(chunks, size, total)
    # truncated streams
    for available in range(0, total):
        for size in {None, available, available + 1, total, total + 1,
                     max(available - 1, 0), 0}:
            check_sized(chunks, size, available)
        for declared in {available, total, total + 1, 0}:
            check_delimited(chunks, declared, available)


all_sizes([])
for chunk in CHUNKS:
    all_sizes([chunk])
for _ in range(40):
    all_sizes([rng.choice(CHUNKS) for _ in range(rng.randint(2, 5))])

# several delimited messages back to back, as dump(delimit=SIZE_DELIMITED) writes them
for _ in range(200):
    bodies = [[rng.choice(CHUNKS) for _ in range(rng.randint(0, 4))] for _ in range(4)]
    stream = io.BytesIO(
        b"".join(encode_varint(len(b"".join(b))) + b"".join(b) for b in bodies)
    )
    for body in bodies:
        got = Msg().load(stream, SIZE_DELIMITED)
        assert snapshot(got) == snapshot(Msg().parse(b"".join(body)))
    assert stream.read() == b""
    try:
        Msg().load(stream, SIZE_DELIMITED)
    except EOFError:
        pass
    else:
        raise AssertionError("delimiter missing but load succeeded")

# dump(delimit=SIZE_DELIMITED) / load(SIZE_DELIMITED) round trip through the writer
for _ in range(200):
    src = Msg().parse(b"".join(rng.choice(CHUNKS) for _ in range(rng.randint(0, 6))))
    buf = io.BytesIO()
    src.dump(buf, delimit=SIZE_DELIMITED)
    src.dump(buf, delimit=SIZE_DELIMITED)
    buf.seek(0)
    one = Msg().load(buf, SIZE_DELIMITED)
    two = Msg().load(buf, SIZE_DELIMITED)
    assert snapshot(one) == snapshot(two) == snapshot(Msg().parse(bytes(src)))
    assert buf.read() == b""

# the reference decoder agrees on accept / reject for every truncation point
for _ in range(300):
    chunks = [rng.choice(CHUNKS) for _ in range(rng.randint(1, 5))]
    body = b"".join(chunks)
    bounds = {0}
    acc = 0
    for c in chunks:
        for parsed in betterproto.parse_fields(c):
            acc += len(parsed.raw)
            bounds.add(acc)
    for cut in range(len(body) + 1):
        try:
            Msg().parse(body[:cut])
            ours = True
        except (EOFError, ValueError):
            ours = False
        try:
            PbMsg().ParseFromString(body[:cut])
            ref = True
        except DecodeError:
            ref = False
        assert ours == ref == (cut in bounds), (body.hex(), cut, ours, ref)

print(f"keep1 equiv: ok ({n_parse} parses, {n_sized} sized loads)")
