"""C04 keep1: behaviour of Message.to_dict (which default-valued members are emitted,
and how Timestamp/Duration members are rendered) is unchanged.

Checks, on hand-written message classes covering every field kind:
  * literal expected dicts for default-valued oneof / optional / plain members,
    with and without include_default_values, in both casings;
  * the JSON/dict round trip (classmethod and instance form, dict and text path);
  * Timestamp / Duration strings against google.protobuf's well-known types;
  * a golden digest over the to_dict output of ~6000 seeded random messages
    (recorded on the pristine tree).
Exits 0 on the pristine tree and with the refactor applied.
"""
import hashlib
import json
import random
import struct
from dataclasses import dataclass
from datetime import datetime, timedelta, timezone
from typing import Dict, List, Optional

from google.protobuf import duration_pb2, timestamp_pb2

import betterproto
from betterproto import Casing


class Color(betterproto.Enum):
    COLOR_UNSPECIFIED = 0
    RED = 1
    GREEN = 2
    DEEP_BLUE = -3


@dataclass(eq=False, repr=False)
class Empty(betterproto.Message):
    pass


@dataclass(eq=False, repr=False)
class Leaf(betterproto.Message):
    leaf_id: int = betterproto.int64_field(1)
    leaf_name: str = betterproto.string_field(2)
    stamp: datetime = betterproto.message_field(3)


@dataclass(eq=False, repr=False)
class Big(betterproto.Message):
    # plain scalars
    a_int32: int = betterproto.int32_field(1)
    a_int64: int = betterproto.int64_field(2)
    a_uint64: int = betterproto.uint64_field(3)
    a_sint64: int = betterproto.sint64_field(4)
    a_fixed64: int = betterproto.fixed64_field(5)
    a_sfixed64: int = betterproto.sfixed64_field(6)
    a_bool: bool = betterproto.bool_field(7)
    a_float: float = betterproto.float_field(8)
    a_double: float = betterproto.double_field(9)
    a_string: str = betterproto.string_field(10)
    a_bytes: bytes = betterproto.bytes_field(11)
    a_enum: Color = betterproto.enum_field(12)
    # well-known types and messages
    a_stamp: datetime = betterproto.message_field(13)
    a_delta: timedelta = betterproto.message_field(14)
    a_leaf: Leaf = betterproto.message_field(15)
    a_empty: Empty = betterproto.message_field(16)
    w_int64: Optional[int] = betterproto.message_field(
        17, wraps=betterproto.TYPE_INT64
    )
    w_bytes: Optional[bytes] = betterproto.message_field(
        18, wraps=betterproto.TYPE_BYTES
    )
    w_double: Optional[float] = betterproto.message_field(
        19, wraps=betterproto.TYPE_DOUBLE
    )
    w_bool: Optional[bool] = betterproto.message_field(20, wraps=betterproto.TYPE_BOOL)
    # repeated
    r_int64: List[int] = betterproto.int64_field(21)
    r_double: List[float] = betterproto.double_field(22)
    r_bytes: List[bytes] = betterproto.bytes_field(23)
    r_enum: List[Color] = betterproto.enum_field(24)
    r_stamp: List[datetime] = betterproto.message_field(25)
    r_delta: List[timedelta] = betterproto.message_field(26)
    r_leaf: List[Leaf] = betterproto.message_field(27)
    r_string: List[str] = betterproto.string_field(28)
    # maps
    m_str_int64: Dict[str, int] = betterproto.map_field(
        31, betterproto.TYPE_STRING, betterproto.TYPE_INT64
    )
    m_int_bytes: Dict[int, bytes] = betterproto.map_field(
        32, betterproto.TYPE_INT32, betterproto.TYPE_BYTES
    )
    m_bool_double: Dict[bool, float] = betterproto.map_field(
        33, betterproto.TYPE_BOOL, betterproto.TYPE_DOUBLE
    )
    m_i64_enum: Dict[int, Color] = betterproto.map_field(
        34, betterproto.TYPE_SINT64, betterproto.TYPE_ENUM
    )
    m_str_leaf: Dict[str, Leaf] = betterproto.map_field(
        35, betterproto.TYPE_STRING, betterproto.TYPE_MESSAGE
    )
    m_str_stamp: Dict[str, datetime] = betterproto.map_field(
        36, betterproto.TYPE_STRING, betterproto.TYPE_MESSAGE
    )
    m_u64_delta: Dict[int, timedelta] = betterproto.map_field(
        37, betterproto.TYPE_UINT64, betterproto.TYPE_MESSAGE
    )
    # proto3 optional
    o_int32: Optional[int] = betterproto.int32_field(41, optional=True, group="_o_int32")
    o_int64: Optional[int] = betterproto.int64_field(42, optional=True, group="_o_int64")
    o_string: Optional[str] = betterproto.string_field(
        43, optional=True, group="_o_string"
    )
    o_bytes: Optional[bytes] = betterproto.bytes_field(
        44, optional=True, group="_o_bytes"
    )
    o_enum: Optional[Color] = betterproto.enum_field(45, optional=True, group="_o_enum")
    o_double: Optional[float] = betterproto.double_field(
        46, optional=True, group="_o_double"
    )
    o_bool: Optional[bool] = betterproto.bool_field(47, optional=True, group="_o_bool")
    o_stamp: Optional[datetime] = betterproto.message_field(
        48, optional=True, group="_o_stamp"
    )
    o_delta: Optional[timedelta] = betterproto.message_field(
        49, optional=True, group="_o_delta"
    )
    o_leaf: Optional[Leaf] = betterproto.message_field(
        50, optional=True, group="_o_leaf"
    )
    # a oneof with a member of every kind
    pick_int32: int = betterproto.int32_field(61, group="pick")
    pick_int64: int = betterproto.int64_field(62, group="pick")
    pick_string: str = betterproto.string_field(63, group="pick")
    pick_bytes: bytes = betterproto.bytes_field(64, group="pick")
    pick_enum: Color = betterproto.enum_field(65, group="pick")
    pick_double: float = betterproto.double_field(66, group="pick")
    pick_bool: bool = betterproto.bool_field(67, group="pick")
    pick_stamp: datetime = betterproto.message_field(68, group="pick")
    pick_delta: timedelta = betterproto.message_field(69, group="pick")
    pick_leaf: Leaf = betterproto.message_field(70, group="pick")
    pick_empty: Empty = betterproto.message_field(71, group="pick")
    # a second, independent oneof
    other_flag: bool = betterproto.bool_field(81, group="other")
    other_delta: timedelta = betterproto.message_field(82, group="other")


EPOCH = datetime(1970, 1, 1, tzinfo=timezone.utc)
CASINGS = (Casing.CAMEL, Casing.SNAKE)


def check_round_trip(m):
    wire = bytes(m)
    for casing in CASINGS:
        d = m.to_dict(casing=casing)
        text = json.dumps(d)
        assert text == m.to_json(casing=casing)
        cls = type(m)
        for back in (
            cls.from_dict(d),
            cls().from_dict(d),
            cls().from_json(text),
        ):
            assert back == m, (d, back, m)
            assert bytes(back) == wire, d


# ---------------------------------------------------------------------------
# 1. literal expectations: which default-valued members are emitted
# ---------------------------------------------------------------------------
assert Big().to_dict() == {}
assert Big().to_dict(Casing.SNAKE) == {}

ONEOF_DEFAULTS = {
    "pick_int32": (0, "pickInt32", 0),
    "pick_int64": (0, "pickInt64", "0"),
    "pick_string": ("", "pickString", ""),
    "pick_bytes": (b"", "pickBytes", ""),
    "pick_enum": (Color.COLOR_UNSPECIFIED, "pickEnum", "COLOR_UNSPECIFIED"),
    "pick_double": (0.0, "pickDouble", 0.0),
    "pick_bool": (False, "pickBool", False),
    "pick_stamp": (EPOCH, "pickStamp", "1970-01-01T00:00:00Z"),
    "pick_delta": (timedelta(0), "pickDelta", "0.000s"),
    "pick_leaf": (Leaf(), "pickLeaf", {}),
    "pick_empty": (Empty(), "pickEmpty", {}),
    "other_flag": (False, "otherFlag", False),
    "other_delta": (timedelta(0), "otherDelta", "0.000s"),
}
for name, (default, camel, rendered) in ONEOF_DEFAULTS.items():
    m = Big(**{name: default})
    assert m.to_dict() == {camel: rendered}, (name, m.to_dict())
    assert m.to_dict(Casing.SNAKE) == {name: rendered}, (name, m.to_dict(Casing.SNAKE))
    check_round_trip(m)
    # selected through attribute assignment instead of the constructor
    m2 = Big()
    setattr(m2, name, default)
    assert m2.to_dict() == {camel: rendered}, name
    check_round_trip(m2)
    # switching to another member of the group drops the first one
    if name.startswith("pick_") and name != "pick_string":
        m2.pick_string = ""
        assert m2.to_dict() == {"pickString": ""}, name

OPTIONAL_DEFAULTS = {
    "o_int32": (0, "oInt32", 0),
    "o_int64": (0, "oInt64", "0"),
    "o_string": ("", "oString", ""),
    "o_bytes": (b"", "oBytes", ""),
    "o_enum": (Color.COLOR_UNSPECIFIED, "oEnum", "COLOR_UNSPECIFIED"),
    "o_double": (0.0, "oDouble", 0.0),
    "o_bool": (False, "oBool", False),
    "o_stamp": (EPOCH, "oStamp", "1970-01-01T00:00:00Z"),
    "o_delta": (timedelta(0), "oDelta", "0.000s"),
    "o_leaf": (Leaf(), "oLeaf", {}),
}
for name, (default, camel, rendered) in OPTIONAL_DEFAULTS.items():
    m = Big(**{name: default})
    assert m.to_dict() == {camel: rendered}, (name, m.to_dict())
    assert m.to_dict(Casing.SNAKE) == {name: rendered}, name
    check_round_trip(m)

# default values of plain (no presence) members are not emitted ...
plain = Big(
    a_int32=0,
    a_int64=0,
    a_bool=False,
    a_double=0.0,
    a_string="",
    a_bytes=b"",
    a_enum=Color.COLOR_UNSPECIFIED,
    a_stamp=EPOCH,
    a_delta=timedelta(0),
    r_int64=[],
    m_str_int64={},
)
assert plain.to_dict() == {}, plain.to_dict()
check_round_trip(plain)
# ... but a sub-message that is marked as present is, even when empty
assert Big(a_leaf=Leaf()).to_dict() == {}
assert Big(a_leaf=Leaf.from_dict({})).to_dict() == {"aLeaf": {}}
assert Big(a_leaf=Leaf().parse(b"")).to_dict() == {"aLeaf": {}}
assert Big().parse(bytes([122, 0])).to_dict() == {"aLeaf": {}}
assert Big(a_empty=Empty()).to_dict() == {"aEmpty": {}}
touched = Big()
touched.a_leaf.leaf_id = 0
assert touched.to_dict() == {"aLeaf": {}}
read_only = Big()
_ = read_only.a_leaf
assert read_only.to_dict() == {}

# include_default_values: every member of the message shows up, the unselected
# oneof members with their default rendering
full = Big().to_dict(include_default_values=True)
assert set(full) == {
    Casing.CAMEL(n).rstrip("_") for n in Big._betterproto.meta_by_field_name
}
assert full["aStamp"] == "1970-01-01T00:00:00Z" and full["aDelta"] == "0.000s"
assert full["pickDelta"] == "0.000s" and full["pickStamp"] == "1970-01-01T00:00:00Z"
assert full["aInt64"] == "0" and full["aBytes"] == "" and full["aEnum"] == "COLOR_UNSPECIFIED"
assert full["oInt64"] is None and full["oStamp"] is None and full["oLeaf"] is None
assert full["wInt64"] is None and full["rStamp"] == [] and full["mStrStamp"] == {}
assert full["aLeaf"] == {"leafId": "0", "leafName": "", "stamp": "1970-01-01T00:00:00Z"}
assert full["pickLeaf"] == full["aLeaf"] and full["aEmpty"] == {}
full_snake = Big().to_dict(Casing.SNAKE, include_default_values=True)
assert set(full_snake) == set(Big._betterproto.meta_by_field_name)
assert full_snake["a_leaf"] == {
    "leaf_id": "0",
    "leaf_name": "",
    "stamp": "1970-01-01T00:00:00Z",
}
json.dumps(full), json.dumps(full_snake)

# ---------------------------------------------------------------------------
# 2. Timestamp / Duration rendering against google.protobuf
# ---------------------------------------------------------------------------
rng = random.Random(20240404)


def f32(x: float) -> float:
    return struct.unpack("<f", struct.pack("<f", x))[0]


def rand_stamp() -> datetime:
    kind = rng.randrange(6)
    if kind == 0:
        return EPOCH
    secs = rng.randrange(-62135596800 + 86400, 253402300799 - 86400)
    if kind == 1:
        us = 0
    elif kind == 2:
        us = rng.randrange(1000) * 1000
    else:
        us = rng.randrange(10**6)
    return EPOCH + timedelta(seconds=secs, microseconds=us)


def rand_delta() -> timedelta:
    kind = rng.randrange(7)
    if kind == 0:
        return timedelta(0)
    if kind == 1:
        return timedelta(microseconds=rng.choice([1, -1, 999, -999, 1000, -1000]))
    if kind == 2:
        return timedelta(milliseconds=rng.randrange(-999, 1000))
    if kind == 3:
        return timedelta(seconds=rng.randrange(-10**6, 10**6))
    return timedelta(
        seconds=rng.randrange(-(10**9), 10**9), microseconds=rng.randrange(10**6)
    )


for _ in range(3000):
    ts, dl = rand_stamp(), rand_delta()
    d = Big(a_stamp=ts, a_delta=dl, pick_stamp=ts, other_delta=dl).to_dict()
    g_ts = timestamp_pb2.Timestamp()
    g_ts.FromDatetime(ts.replace(tzinfo=None))
    assert d["pickStamp"] == g_ts.ToJsonString(), (ts, d)
    if ts != EPOCH:
        assert d["aStamp"] == d["pickStamp"]
    else:
        assert "aStamp" not in d
    g_dl = duration_pb2.Duration()
    g_dl.FromJsonString(d["otherDelta"])
    assert g_dl.ToTimedelta() == dl, (dl, d)
    if dl:
        assert d["aDelta"] == d["otherDelta"]
    else:
        assert "aDelta" not in d

# ---------------------------------------------------------------------------
# 3. seeded random messages: round trip + golden digest of the emitted dicts
# ---------------------------------------------------------------------------
I64 = [0, 1, -1, 2**31, -(2**31) - 1, 2**53 + 1, -(2**53) - 1, 2**63 - 1, -(2**63)]
U64 = [0, 1, 2**32, 2**53 + 1, 2**63, 2**64 - 1]
DOUBLES = [0.0, 1.5, -2.25, 1e300, -1e-300, float("inf"), float("-inf"), float("nan")]
# (Message.__eq__ treats NaN == NaN only for direct float members, so containers
# get the NaN-free list)
DOUBLES_IN_CONTAINERS = DOUBLES[:-1]
FLOATS = [0.0, 0.5, -3.75, f32(1e10), float("inf"), float("-inf"), float("nan")]
STRINGS = ["", "a", "héllo", "line\nbreak", "☃ snow", '"quoted"', "Infinity"]
BYTESES = [b"", b"\x00", b"\xff\xfe", b"hello world", bytes(range(256))]
COLORS = [Color.COLOR_UNSPECIFIED, Color.RED, Color.GREEN, Color.DEEP_BLUE]
ENUM_VALUES = COLORS + [Color.try_value(7), Color.try_value(-9)]


def rand_leaf() -> Leaf:
    kind = rng.randrange(4)
    if kind == 0:
        return Leaf()
    return Leaf(
        leaf_id=rng.choice(I64), leaf_name=rng.choice(STRINGS), stamp=rand_stamp()
    )


def some(gen, lo=0, hi=4):
    return [gen() for _ in range(rng.randrange(lo, hi))]


GENERATORS = {
    "a_int32": lambda: rng.choice([0, 1, -1, 2**31 - 1, -(2**31)]),
    "a_int64": lambda: rng.choice(I64),
    "a_uint64": lambda: rng.choice(U64),
    "a_sint64": lambda: rng.choice(I64),
    "a_fixed64": lambda: rng.choice(U64),
    "a_sfixed64": lambda: rng.choice(I64),
    "a_bool": lambda: rng.choice([False, True]),
    "a_float": lambda: rng.choice(FLOATS),
    "a_double": lambda: rng.choice(DOUBLES),
    "a_string": lambda: rng.choice(STRINGS),
    "a_bytes": lambda: rng.choice(BYTESES),
    "a_enum": lambda: rng.choice(ENUM_VALUES),
    "a_stamp": rand_stamp,
    "a_delta": rand_delta,
    "a_leaf": rand_leaf,
    "a_empty": Empty,
    "w_int64": lambda: rng.choice(I64),
    "w_bytes": lambda: rng.choice(BYTESES),
    "w_double": lambda: rng.choice(DOUBLES),
    "w_bool": lambda: rng.choice([False, True]),
    "r_int64": lambda: some(lambda: rng.choice(I64)),
    "r_double": lambda: some(lambda: rng.choice(DOUBLES_IN_CONTAINERS)),
    "r_bytes": lambda: some(lambda: rng.choice(BYTESES)),
    "r_enum": lambda: some(lambda: rng.choice(ENUM_VALUES)),
    "r_stamp": lambda: some(rand_stamp),
    "r_delta": lambda: some(rand_delta),
    "r_leaf": lambda: some(rand_leaf),
    "r_string": lambda: some(lambda: rng.choice(STRINGS)),
    "m_str_int64": lambda: {rng.choice(STRINGS): rng.choice(I64) for _ in range(rng.randrange(3))},
    "m_int_bytes": lambda: {rng.randrange(-5, 5): rng.choice(BYTESES) for _ in range(rng.randrange(3))},
    "m_bool_double": lambda: {rng.choice([False, True]): rng.choice(DOUBLES_IN_CONTAINERS) for _ in range(rng.randrange(3))},
    "m_i64_enum": lambda: {rng.choice(I64): rng.choice(ENUM_VALUES) for _ in range(rng.randrange(3))},
    "m_str_leaf": lambda: {rng.choice(STRINGS): rand_leaf() for _ in range(rng.randrange(3))},
    "m_str_stamp": lambda: {rng.choice(STRINGS): rand_stamp() for _ in range(rng.randrange(3))},
    "m_u64_delta": lambda: {rng.choice(U64): rand_delta() for _ in range(rng.randrange(3))},
    "o_int32": lambda: rng.choice([0, 5, -5]),
    "o_int64": lambda: rng.choice(I64),
    "o_string": lambda: rng.choice(STRINGS),
    "o_bytes": lambda: rng.choice(BYTESES),
    "o_enum": lambda: rng.choice(ENUM_VALUES),
    "o_double": lambda: rng.choice(DOUBLES),
    "o_bool": lambda: rng.choice([False, True]),
    "o_stamp": rand_stamp,
    "o_delta": rand_delta,
    "o_leaf": rand_leaf,
}
PICK = {
    "pick_int32": GENERATORS["a_int32"],
    "pick_int64": GENERATORS["a_int64"],
    "pick_string": GENERATORS["a_string"],
    "pick_bytes": GENERATORS["a_bytes"],
    "pick_enum": GENERATORS["a_enum"],
    "pick_double": GENERATORS["a_double"],
    "pick_bool": GENERATORS["a_bool"],
    "pick_stamp": rand_stamp,
    "pick_delta": rand_delta,
    "pick_leaf": rand_leaf,
    "pick_empty": Empty,
}
OTHER = {"other_flag": GENERATORS["a_bool"], "other_delta": rand_delta}
PLAIN_NAMES = sorted(GENERATORS)


def rand_big() -> Big:
    kwargs = {}
    for name in rng.sample(PLAIN_NAMES, rng.randrange(0, 9)):
        kwargs[name] = GENERATORS[name]()
    if rng.random() < 0.7:
        name = rng.choice(sorted(PICK))
        kwargs[name] = PICK[name]()
    if rng.random() < 0.4:
        name = rng.choice(sorted(OTHER))
        kwargs[name] = OTHER[name]()
    m = Big(**kwargs)
    if rng.random() < 0.2:
        # select a oneof member after construction (replaces the previous one)
        name = rng.choice(sorted(PICK))
        setattr(m, name, PICK[name]())
    return m


digest = hashlib.sha256()
N = 6000
for i in range(N):
    m = rand_big()
    check_round_trip(m)
    for casing in CASINGS:
        for incl in (False, True):
            d = m.to_dict(casing=casing, include_default_values=incl)
            digest.update(json.dumps(d, sort_keys=True).encode())
            digest.update(b"\n")
    # the same message after a trip over the wire renders identically
    again = Big().parse(bytes(m))
    assert again.to_dict() == m.to_dict(), (m.to_dict(), again.to_dict())

GOLDEN = "ed57c978f123c187e796fa127ce1f4ea105708b8409c816f18065f6ba8fd8b90"
got = digest.hexdigest()
assert got == GOLDEN, f"to_dict output changed: digest {got}"
print(f"C04 keep1 equiv: OK ({N} random messages, digest {got[:16]}...)")
