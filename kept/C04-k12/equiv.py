"""C04 / keep2: the per-value JSON encoders / decoders behind to_dict / from_dict
(64-bit ints <-> decimal strings, bytes <-> base64, float specials, enum names,
typed map keys), as used for wrapper fields, map keys / values and plain fields.

Three layers:
  1. the helper functions called directly on many values of every proto type,
     against an oracle written here from the proto3 JSON rules (incl. error classes);
  2. whole messages (every wrapper type, maps of every key kind and many value
     kinds, plain / repeated scalars, enums incl. unknown numbers) round-tripped
     through dict and JSON text, both casings, both forms of from_dict;
  3. the emitted JSON compared with what google.protobuf's json_format prints for
     the same wire bytes.
"""

import base64
import binascii
import json
import math
import random
import struct
from dataclasses import dataclass
from typing import Dict, List, Optional

import betterproto
from betterproto import Casing
from google.protobuf import descriptor_pb2, descriptor_pool, json_format, message_factory

B = betterproto
INF = float("inf")
NAN = float("nan")

ALL_TYPES = [
    B.TYPE_DOUBLE, B.TYPE_FLOAT, B.TYPE_INT32, B.TYPE_INT64, B.TYPE_UINT32,
    B.TYPE_UINT64, B.TYPE_SINT32, B.TYPE_SINT64, B.TYPE_FIXED32, B.TYPE_SFIXED32,
    B.TYPE_FIXED64, B.TYPE_SFIXED64, B.TYPE_BOOL, B.TYPE_STRING, B.TYPE_BYTES,
    B.TYPE_ENUM, B.TYPE_MESSAGE, B.TYPE_MAP,
]  # fmt: skip
SIXTY_FOUR = {"int64", "uint64", "sint64", "fixed64", "sfixed64"}
FLOATING = {"float", "double"}


class Color(betterproto.Enum):
    ZERO = 0
    RED = 1
    GREEN = 2
    NEG = -1
    BIG = 2147483647
    ALSO_RED = 1  # alias


def same(a, b):
    """Equality that separates types, 0.0 from -0.0, and treats NaN as itself."""
    if type(a) is not type(b):
        return False
    if isinstance(a, float):
        if a != a or b != b:
            return a != a and b != b
        return a == b and math.copysign(1, a) == math.copysign(1, b)
    if isinstance(a, (list, tuple)):
        return len(a) == len(b) and all(same(x, y) for x, y in zip(a, b))
    return a == b


def outcome(fn, *args):
    try:
        return ("ok", fn(*args))
    except Exception as e:  # noqa: BLE001 - the class is what is compared
        return ("raise", type(e))


def assert_same_outcome(got, want, what):
    assert got[0] == want[0], (what, got, want)
    if got[0] == "ok":
        assert same(got[1], want[1]), (what, got, want)
    else:
        assert got[1] is want[1], (what, got, want)


# --------------------------------------------------------------------------------
# 1. helpers against an oracle
# --------------------------------------------------------------------------------


def oracle_dump_float(v):
    if isinstance(v, float):
        if v != v:
            return "NaN"
        if v in (INF, -INF):
            return "Infinity" if v > 0 else "-Infinity"
    return v


def oracle_parse_float(v):
    if isinstance(v, str) and v in ("Infinity", "-Infinity", "NaN"):
        return {"Infinity": INF, "-Infinity": -INF, "NaN": NAN}[v]
    return float(v)


def oracle_to_json(proto_type, v):
    if proto_type in SIXTY_FOUR:
        return str(v)
    if proto_type == "bytes":
        return base64.b64encode(v).decode("ascii")
    if proto_type in FLOATING:
        return oracle_dump_float(v)
    return v


def oracle_from_json(proto_type, v):
    if proto_type in SIXTY_FOUR:
        return int(v)
    if proto_type == "bytes":
        return base64.b64decode(v)
    if proto_type in FLOATING:
        return oracle_parse_float(v)
    return v


def oracle_map_key(proto_type, k):
    if proto_type == "string":
        return k
    if proto_type == "bool":
        return (k == "true") if isinstance(k, str) else k
    return int(k)


def oracle_enum(cls, v):
    for member in cls:  # first name of a number wins (aliases)
        if member.value == v:
            return member.name
    return int(v)


INTS = sorted(
    {0, 1, -1, 7, -7, 127, 128, 255, 256, 2**31 - 1, 2**31, -(2**31), 2**32 - 1, 2**32,
     2**53 - 1, 2**53, 2**53 + 1, -(2**53) - 1, 2**63 - 1, -(2**63), 2**63, 2**64 - 1,
     10**18, -(10**18), 1234567890123456789}
)  # fmt: skip
FLOATS = [0.0, -0.0, 1.0, -1.0, 0.5, -2.25, 0.1, 1e-7, 1e-5, 1e16, 1e22, 1.5e300, -1e-300,
          5e-324, 1.7976931348623157e308, 2.0**53, 2.0**63, 3.4028234663852886e38,
          1.401298464324817e-45, INF, -INF, NAN]  # fmt: skip
BYTES = [b"", b"\x00", b"a", b"ab", b"abc", b"abcd", b"\xff\xfe\xfd", b"\xfb\xff\xbf",
         b"\xfb\xef\xbe", bytes(range(256)), b"\n\r\t =+/", "häßlich".encode()]  # fmt: skip
STRINGS = ["", "a", "Infinity", "-Infinity", "NaN", "inf", "nan", "true", "false", "0",
           "-5", "1e3", " 12 ", "häßlich", "☃", "QUJD", "a" * 300]  # fmt: skip


def test_helpers():
    rng = random.Random(404)
    n = 0
    values = (
        INTS + FLOATS + BYTES + STRINGS + [True, False, None, Color.RED, Color.try_value(77)]
        + [rng.getrandbits(64) - 2**63 for _ in range(200)]
        + [struct.unpack("<d", struct.pack("<Q", rng.getrandbits(64)))[0] for _ in range(200)]
        + [rng.randbytes(rng.randint(0, 40)) for _ in range(200)]
    )  # fmt: skip
    for proto_type in ALL_TYPES + ["", "nonsense"]:
        for v in values:
            assert_same_outcome(
                outcome(B._scalar_to_json, proto_type, v),
                outcome(oracle_to_json, proto_type, v),
                ("to_json", proto_type, v),
            )
            n += 1
    # decoding: everything the encoders can emit, plus other JSON spellings / junk
    json_values = (
        [str(i) for i in INTS] + INTS + FLOATS + STRINGS
        + [base64.b64encode(b).decode() for b in BYTES]
        + [base64.urlsafe_b64encode(b).decode() for b in BYTES]
        + ["QUJ", "QUJDR", "!!!!", "QUJD\n", "1.5", "1e400", "-1e400", "0x10", "1_000",
           "٣", True, False, None, 3.0, 3.5, [], {}, b"Infinity", b"12"]
    )  # fmt: skip
    for proto_type in ALL_TYPES + ["", "nonsense"]:
        for v in json_values:
            assert_same_outcome(
                outcome(B._scalar_from_json, proto_type, v),
                outcome(oracle_from_json, proto_type, v),
                ("from_json", proto_type, v),
            )
            assert_same_outcome(
                outcome(B._map_key_from_json, proto_type, v),
                outcome(oracle_map_key, proto_type, v),
                ("map_key", proto_type, v),
            )
            n += 2
    for v in json_values + values:
        assert_same_outcome(outcome(B._parse_float, v), outcome(oracle_parse_float, v), ("parse_float", v))
        assert_same_outcome(outcome(B._dump_float, v), outcome(oracle_dump_float, v), ("dump_float", v))
        n += 2
    # every decoded NaN is a fresh object (lists holding NaNs stay unequal, as ever)
    assert B._parse_float("NaN") is not B._parse_float("NaN")
    assert B._scalar_from_json(B.TYPE_DOUBLE, "NaN") is not B._scalar_from_json(B.TYPE_DOUBLE, "NaN")
    # encode / decode are inverse on their own domain
    for proto_type in SIXTY_FOUR:
        for i in INTS:
            assert B._scalar_from_json(proto_type, B._scalar_to_json(proto_type, i)) == i
    for b in BYTES:
        assert B._scalar_from_json(B.TYPE_BYTES, B._scalar_to_json(B.TYPE_BYTES, b)) == b
    for proto_type in FLOATING:
        for f in FLOATS:
            assert same(B._scalar_from_json(proto_type, B._scalar_to_json(proto_type, f)), f)
            via_text = json.loads(json.dumps(B._scalar_to_json(proto_type, f)))
            assert same(B._scalar_from_json(proto_type, via_text), f)

    # enums
    enum_values = (
        list(range(-3, 6)) + [2147483647, 2147483646, -(2**31), 77, True, False, 1.0, 2.7,
        Color.RED, Color.ALSO_RED, Color.NEG, Color.BIG, Color.try_value(77), Color.try_value(0),
        "RED", "1", "x", None, [], NAN, INF, 2**70]
    )  # fmt: skip
    for v in enum_values:
        assert_same_outcome(outcome(B._enum_to_json, Color, v), outcome(oracle_enum, Color, v), ("enum", v))
        n += 1
    assert B._enum_to_json(Color, 1) == "RED" and B._enum_to_json(Color, 77) == 77
    assert type(B._enum_to_json(Color, Color.try_value(77))) is int
    return n


# --------------------------------------------------------------------------------
# 2. whole messages
# --------------------------------------------------------------------------------


@dataclass(eq=False, repr=False)
class Sub(betterproto.Message):
    x: int = betterproto.int32_field(1)


def _map(number, key_type, value_type):
    return betterproto.map_field(number, key_type, value_type)


@dataclass(eq=False, repr=False)
class Codec(betterproto.Message):
    w_bool: Optional[bool] = betterproto.message_field(1, wraps=B.TYPE_BOOL)
    w_bytes: Optional[bytes] = betterproto.message_field(2, wraps=B.TYPE_BYTES)
    w_double: Optional[float] = betterproto.message_field(3, wraps=B.TYPE_DOUBLE)
    w_float: Optional[float] = betterproto.message_field(4, wraps=B.TYPE_FLOAT)
    w_int32: Optional[int] = betterproto.message_field(5, wraps=B.TYPE_INT32)
    w_int64: Optional[int] = betterproto.message_field(6, wraps=B.TYPE_INT64)
    w_string: Optional[str] = betterproto.message_field(7, wraps=B.TYPE_STRING)
    w_uint32: Optional[int] = betterproto.message_field(8, wraps=B.TYPE_UINT32)
    w_uint64: Optional[int] = betterproto.message_field(9, wraps=B.TYPE_UINT64)
    m_str_i64: Dict[str, int] = _map(10, B.TYPE_STRING, B.TYPE_INT64)
    m_i64_str: Dict[int, str] = _map(11, B.TYPE_INT64, B.TYPE_STRING)
    m_u64_u64: Dict[int, int] = _map(12, B.TYPE_UINT64, B.TYPE_UINT64)
    m_s64_sf64: Dict[int, int] = _map(13, B.TYPE_SINT64, B.TYPE_SFIXED64)
    m_f64_f64: Dict[int, int] = _map(14, B.TYPE_FIXED64, B.TYPE_FIXED64)
    m_i32_double: Dict[int, float] = _map(15, B.TYPE_INT32, B.TYPE_DOUBLE)
    m_s32_float: Dict[int, float] = _map(16, B.TYPE_SINT32, B.TYPE_FLOAT)
    m_bool_bytes: Dict[bool, bytes] = _map(17, B.TYPE_BOOL, B.TYPE_BYTES)
    m_u32_bool: Dict[int, bool] = _map(18, B.TYPE_UINT32, B.TYPE_BOOL)
    m_f32_enum: Dict[int, Color] = _map(19, B.TYPE_FIXED32, B.TYPE_ENUM)
    m_sf32_i32: Dict[int, int] = _map(20, B.TYPE_SFIXED32, B.TYPE_INT32)
    m_sf64_sub: Dict[int, Sub] = _map(21, B.TYPE_SFIXED64, B.TYPE_MESSAGE)
    m_str_str: Dict[str, str] = _map(22, B.TYPE_STRING, B.TYPE_STRING)
    m_str_s64: Dict[str, int] = _map(23, B.TYPE_STRING, B.TYPE_SINT64)
    d: float = betterproto.double_field(30)
    f: float = betterproto.float_field(31)
    rd: List[float] = betterproto.double_field(32)
    rf: List[float] = betterproto.float_field(33)
    e: Color = betterproto.enum_field(34)
    re: List[Color] = betterproto.enum_field(35)
    i64: int = betterproto.int64_field(36)
    ru64: List[int] = betterproto.uint64_field(37)
    b: bytes = betterproto.bytes_field(38)
    rb: List[bytes] = betterproto.bytes_field(39)


I64 = [0, 1, -1, 2**53 + 1, -(2**53) - 1, 2**63 - 1, -(2**63), 1234567890123456789]
U64 = [0, 1, 2**53 + 1, 2**63, 2**64 - 1]
I32 = [0, 1, -1, 2**31 - 1, -(2**31)]
U32 = [0, 1, 2**31, 2**32 - 1]
DOUBLES = [0.0, -0.0, 1.0, 0.1, -2.25, 1e-7, 1e22, 5e-324, 1.7976931348623157e308, INF, -INF]
FLOAT32 = [0.0, -0.0, 1.0, 0.5, -2.25, 3.0, 1e10, INF, -INF]  # short decimal forms
SOME_BYTES = [b"", b"\x00", b"ab", b"\xfb\xff\xbf\xfb\xef\xbe", bytes(range(256))]
SOME_STR = ["", "a", "true", "Infinity", "NaN", "-5", "häßlich ☃", "k.v/w"]
ENUMS = [Color.ZERO, Color.RED, Color.GREEN, Color.NEG, Color.BIG, 77, -12, 2]


def fixed_messages():
    yield Codec(), True
    for i, v in enumerate(I64):
        yield Codec(
            w_int64=v,
            m_str_i64={"a": v, "": -v - 1 if v > -(2**63) else 0},
            m_i64_str={v: "x", 5: ""},
            m_s64_sf64={v: v, -v - 1 if v > -(2**63) else 3: 0},
            m_str_s64={"k": v},
            m_sf64_sub={v: Sub(i), 0: Sub()},
            i64=v,
        ), True
    for v in U64:
        yield Codec(
            w_uint64=v, m_u64_u64={v: v, 9: 0}, m_f64_f64={v: 2**64 - 1 - v}, ru64=[v, 0, v]
        ), True
    for v in I32:
        yield Codec(w_int32=v, m_i32_double={v: 1.5}, m_s32_float={v: 0.5}, m_sf32_i32={v: v}), True
    for v in U32:
        yield Codec(w_uint32=v, m_u32_bool={v: True, 3: False}, m_f32_enum={v: Color.RED}), True
    for v in DOUBLES:
        yield Codec(w_double=v, m_i32_double={1: v, -1: 0.0}, d=v, rd=[v, 1.0, v]), True
    for v in FLOAT32:
        yield Codec(w_float=v, m_s32_float={-7: v, 0: 0.0}, f=v, rf=[v, v]), True
    # NaN as a direct field value (Message.__eq__ knows about those) ...
    yield Codec(w_double=NAN, w_float=NAN, d=NAN, f=NAN), True
    # ... and inside containers, where == cannot hold even for the message itself
    yield Codec(m_i32_double={0: NAN}, m_s32_float={1: NAN}, rd=[NAN, 1.0], rf=[NAN]), False
    for v in SOME_BYTES:
        yield Codec(w_bytes=v, m_bool_bytes={True: v, False: v[::-1]}, b=v, rb=[v, b"", v]), True
        yield Codec(m_bool_bytes={False: v}), True
    for v in SOME_STR:
        yield Codec(w_string=v, m_str_str={v: v, "z": ""}, m_i64_str={-1: v}, m_str_i64={v: 1}), True
    for v in (True, False):
        yield Codec(w_bool=v, m_u32_bool={0: v}, m_bool_bytes={v: b"x"}), True
    for v in ENUMS:
        yield Codec(m_f32_enum={0: v, 2**32 - 1: Color.ZERO}, e=v, re=[v, Color.ZERO, v]), True


def random_messages(rng, count):
    def pick(pool):
        return rng.choice(pool)

    for _ in range(count):
        kw = {}
        if rng.random() < 0.5:
            kw["w_int64"] = pick(I64)
        if rng.random() < 0.5:
            kw["w_uint64"] = pick(U64)
        if rng.random() < 0.5:
            kw["w_double"] = pick(DOUBLES)
        if rng.random() < 0.5:
            kw["w_bytes"] = rng.randbytes(rng.randint(0, 9))
        if rng.random() < 0.3:
            kw["w_bool"] = pick([True, False])
        if rng.random() < 0.3:
            kw["w_string"] = pick(SOME_STR)
        kw["m_str_i64"] = {pick(SOME_STR): rng.getrandbits(64) - 2**63 for _ in range(rng.randint(0, 4))}
        kw["m_u64_u64"] = {rng.getrandbits(64): rng.getrandbits(64) for _ in range(rng.randint(0, 4))}
        kw["m_s64_sf64"] = {rng.getrandbits(64) - 2**63: rng.getrandbits(64) - 2**63 for _ in range(rng.randint(0, 4))}
        kw["m_i32_double"] = {rng.getrandbits(32) - 2**31: pick(DOUBLES) for _ in range(rng.randint(0, 4))}
        kw["m_bool_bytes"] = {pick([True, False]): rng.randbytes(rng.randint(0, 9)) for _ in range(rng.randint(0, 3))}
        kw["m_f32_enum"] = {rng.getrandbits(32): pick(ENUMS) for _ in range(rng.randint(0, 3))}
        kw["m_sf64_sub"] = {rng.getrandbits(64) - 2**63: Sub(rng.randint(-5, 5)) for _ in range(rng.randint(0, 3))}
        kw["rd"] = [pick(DOUBLES) for _ in range(rng.randint(0, 4))]
        kw["ru64"] = [rng.getrandbits(64) for _ in range(rng.randint(0, 4))]
        kw["rb"] = [rng.randbytes(rng.randint(0, 5)) for _ in range(rng.randint(0, 3))]
        kw["re"] = [pick(ENUMS) for _ in range(rng.randint(0, 4))]
        kw["e"] = pick(ENUMS)
        kw["i64"] = pick(I64)
        yield Codec(**kw), True


def check_round_trip(m, eq_holds):
    wire = bytes(m)
    for casing in (Casing.CAMEL, Casing.SNAKE):
        d = m.to_dict(casing=casing)
        dumped = json.dumps(d)
        text = m.to_json(casing=casing)
        assert json.loads(text) == json.loads(dumped)
        for m2 in (
            Codec.from_dict(d),
            Codec().from_dict(d),
            Codec.from_dict(json.loads(dumped)),
            Codec().from_json(text),
        ):
            if eq_holds:
                assert m2 == m, (casing, m2, m, d)
            assert bytes(m2) == wire, (casing, m2, m, d)
            assert json.dumps(m2.to_dict(casing=casing)) == dumped


# --------------------------------------------------------------------------------
# 3. google.protobuf as the reference for the JSON text
# --------------------------------------------------------------------------------

FD = descriptor_pb2.FieldDescriptorProto
GTYPE = {
    "double": FD.TYPE_DOUBLE, "float": FD.TYPE_FLOAT, "int32": FD.TYPE_INT32,
    "int64": FD.TYPE_INT64, "uint32": FD.TYPE_UINT32, "uint64": FD.TYPE_UINT64,
    "sint32": FD.TYPE_SINT32, "sint64": FD.TYPE_SINT64, "fixed32": FD.TYPE_FIXED32,
    "sfixed32": FD.TYPE_SFIXED32, "fixed64": FD.TYPE_FIXED64, "sfixed64": FD.TYPE_SFIXED64,
    "bool": FD.TYPE_BOOL, "string": FD.TYPE_STRING, "bytes": FD.TYPE_BYTES,
}  # fmt: skip
WRAPPER = {
    "bool": "BoolValue", "bytes": "BytesValue", "double": "DoubleValue",
    "float": "FloatValue", "int32": "Int32Value", "int64": "Int64Value",
    "string": "StringValue", "uint32": "UInt32Value", "uint64": "UInt64Value",
}  # fmt: skip


def build_google_class():
    from google.protobuf import wrappers_pb2  # noqa: F401 - registers wrappers.proto

    fdp = descriptor_pb2.FileDescriptorProto(
        name="c04_keep2.proto", package="c04k2", syntax="proto3",
        dependency=["google/protobuf/wrappers.proto"],
    )  # fmt: skip
    enum = fdp.enum_type.add(name="Color")
    # no alias here: the first name is what both libraries print for number 1
    for name, number in (("ZERO", 0), ("RED", 1), ("GREEN", 2), ("NEG", -1), ("BIG", 2147483647)):
        enum.value.add(name=name, number=number)
    sub = fdp.message_type.add(name="Sub")
    sub.field.add(name="x", number=1, type=FD.TYPE_INT32, label=FD.LABEL_OPTIONAL)
    msg = fdp.message_type.add(name="Codec")

    def set_type(field, proto_type):
        if proto_type == "enum":
            field.type, field.type_name = FD.TYPE_ENUM, ".c04k2.Color"
        elif proto_type == "message":
            field.type, field.type_name = FD.TYPE_MESSAGE, ".c04k2.Sub"
        else:
            field.type = GTYPE[proto_type]

    import dataclasses

    for f in dataclasses.fields(Codec):
        meta = betterproto.FieldMetadata.get(f)
        field = msg.field.add(name=f.name, number=meta.number, label=FD.LABEL_OPTIONAL)
        if meta.wraps:
            field.type = FD.TYPE_MESSAGE
            field.type_name = ".google.protobuf." + WRAPPER[meta.wraps]
        elif meta.proto_type == "map":
            entry_name = "".join(p.capitalize() for p in f.name.split("_")) + "Entry"
            entry = msg.nested_type.add(name=entry_name)
            entry.options.map_entry = True
            set_type(entry.field.add(name="key", number=1, label=FD.LABEL_OPTIONAL), meta.map_types[0])
            set_type(entry.field.add(name="value", number=2, label=FD.LABEL_OPTIONAL), meta.map_types[1])
            field.label = FD.LABEL_REPEATED
            field.type = FD.TYPE_MESSAGE
            field.type_name = f".c04k2.Codec.{entry_name}"
        else:
            set_type(field, meta.proto_type)
            if f.name in ("rd", "rf", "re", "ru64", "rb"):
                field.label = FD.LABEL_REPEATED
    pool = descriptor_pool.Default()
    pool.Add(fdp)
    return message_factory.GetMessageClass(pool.FindMessageTypeByName("c04k2.Codec"))


def check_against_google(gcls, m, eq_holds):
    g = gcls()
    g.ParseFromString(bytes(m))
    for casing, preserve in ((Casing.CAMEL, False), (Casing.SNAKE, True)):
        theirs = json_format.MessageToDict(g, preserving_proto_field_name=preserve)
        ours = json.loads(m.to_json(casing=casing))
        assert ours == theirs, (casing, ours, theirs)
        # and what google prints is read back to the same message
        back = Codec().from_json(json_format.MessageToJson(g, preserving_proto_field_name=preserve))
        assert Codec().parse(bytes(back)) == Codec().parse(bytes(m)) or not eq_holds
        assert json.loads(back.to_json(casing=casing)) == ours


def main():
    n_helper = test_helpers()
    rng = random.Random(2024)
    gcls = build_google_class()
    n = 0
    for m, eq_holds in list(fixed_messages()) + list(random_messages(rng, 400)):
        check_round_trip(m, eq_holds)
        check_against_google(gcls, m, eq_holds)
        n += 1
    print(f"ok: {n_helper} helper calls, {n} messages (round trip x2 casings x4 paths, google json_format)")


if __name__ == "__main__":
    main()
