"""C13 keep1 equivalence check: betterproto.plugin.typing_compiler.

The typing compilers spell the generic wrappers (Optional / List / Dict / Union /
Iterable / AsyncIterable / AsyncIterator) that the plugin puts around (cross-package)
type references and record which typing imports the generated module needs.

Part 1 compares every method of the three compilers, the imports() bookkeeping after
every call and import_lines() against an independent model, over many argument
spellings and random call sequences.
Part 2 generates real packages for every typing option (direct, root, 310) with
cross-package references at every reference site (field, repeated, optional, map value,
oneof member, rpc input/output of all four cardinalities), compares the generated text
with pinned digests, imports the packages and checks that every reference resolves to
exactly the class generated for it.
"""
import hashlib
import importlib
import itertools
import os
import random
import sys
import tempfile
import typing
import collections.abc

import grpc_tools
from grpc_tools import protoc

from betterproto.lib.google.protobuf import FileDescriptorSet
from betterproto.lib.google.protobuf.compiler import CodeGeneratorRequest
from betterproto.plugin import compiler as plugin_compiler
from betterproto.plugin.models import monkey_patch_oneof_index
from betterproto.plugin.parser import generate_code
from betterproto.plugin.typing_compiler import (
    DirectImportTypingCompiler,
    NoTyping310TypingCompiler,
    TypingCompiler,
    TypingImportTypingCompiler,
)

plugin_compiler.subprocess.check_output = lambda cmd, input, encoding: input
monkey_patch_oneof_index()

# --------------------------------------------------------------------------------------
# Part 1: model based comparison
# --------------------------------------------------------------------------------------

GENERIC = {
    "optional": "Optional",
    "list": "List",
    "dict": "Dict",
    "union": "Union",
    "iterable": "Iterable",
    "async_iterable": "AsyncIterable",
    "async_iterator": "AsyncIterator",
}


def unquote(t):
    if t.startswith('"'):
        return t[1:-1]
    return t


class Model:
    """What the three compilers are specified to do (written from the pinned tests)."""

    def __init__(self, style):
        self.style = style
        self.names = {}  # module -> set of names
        self.typing_module = False

    def call(self, method, *args):
        if self.style == "direct":
            self.names.setdefault("typing", set()).add(GENERIC[method])
            return GENERIC[method] + "[" + ", ".join(args) + "]"
        if self.style == "root":
            self.typing_module = True
            return "typing." + GENERIC[method] + "[" + ", ".join(args) + "]"
        assert self.style == "310"
        if method == "optional":
            return '"' + unquote(args[0]) + ' | None"'
        if method == "list":
            return '"list[' + unquote(args[0]) + ']"'
        if method == "dict":
            return '"dict[' + args[0] + ", " + unquote(args[1]) + ']"'
        if method == "union":
            return '"' + " | ".join(unquote(a) for a in args) + '"'
        self.names.setdefault("collections.abc", set()).add(GENERIC[method])
        return '"' + GENERIC[method] + "[" + args[0] + ']"'

    def imports(self):
        if self.style == "root":
            return {"typing": None} if self.typing_module else {}
        return {k: set(v) for k, v in self.names.items()}

    def import_lines(self):
        lines = []
        for module, names in self.imports().items():
            if names is None:
                lines.append(f"import {module}")
            else:
                lines.append(f"from {module} import (")
                lines.extend(f"    {n}," for n in sorted(names))
                lines.append(")")
        return lines


STYLES = {
    "direct": DirectImportTypingCompiler,
    "root": TypingImportTypingCompiler,
    "310": NoTyping310TypingCompiler,
}

SPELLINGS = [
    "str", "int", "bytes", "float", "bool", "builtins.int", "datetime", "timedelta",
    '"Target"', '"_y__.Target"', '"__b_c__.OuterInner"', '"a_b.Target"',
    '"betterproto_lib_google_protobuf.Any"', '"____Target__"', "Target", "_y__.Target",
    "", '"', '""', '"x', 'x"', '"a" | "b"', "None", '"None"', " spaced ", '"Dict[str, X]"',
    "Optional[int]", 'Optional["Target"]', '"Target | None"', '"list[_y__.Target]"',
    "typing.List[int]", "a, b", "[", "é", '"é.Ü"',
]

calls = 0
for style, cls in STYLES.items():
    assert issubclass(cls, TypingCompiler)
    # a fresh compiler records nothing
    fresh = cls()
    assert fresh.imports() == {}
    assert list(fresh.import_lines()) == []
    assert cls() == cls()  # dataclass equality of fresh instances

    # every single-argument method with every spelling, on one long-lived compiler
    compiler, model = cls(), Model(style)
    for method in ("optional", "list", "iterable", "async_iterable", "async_iterator"):
        for t in SPELLINGS:
            got = getattr(compiler, method)(t)
            assert got == model.call(method, t), (style, method, t, got)
            assert compiler.imports() == model.imports(), (style, method, t)
            assert list(compiler.import_lines()) == model.import_lines()
            calls += 1
    # a compiler that only ever saw one method
    for method in GENERIC:
        compiler, model = cls(), Model(style)
        args = ("str", '"_y__.Target"') if method in ("dict", "union") else ('"_y__.Target"',)
        assert getattr(compiler, method)(*args) == model.call(method, *args)
        assert compiler.imports() == model.imports(), (style, method)
        assert list(compiler.import_lines()) == model.import_lines(), (style, method)
        # calling it again changes nothing
        assert getattr(compiler, method)(*args) == model.call(method, *args)
        assert compiler.imports() == model.imports()
    # dict / union with all pairs
    compiler, model = cls(), Model(style)
    for k, v in itertools.product(SPELLINGS, repeat=2):
        assert compiler.dict(k, v) == model.call("dict", k, v), (style, k, v)
        assert compiler.union(k, v) == model.call("union", k, v), (style, k, v)
        calls += 2
    assert compiler.imports() == model.imports()
    # union arities 0..5
    for n in range(6):
        for combo in itertools.islice(itertools.product(SPELLINGS[:8] + SPELLINGS[8:14], repeat=n), 300):
            assert compiler.union(*combo) == model.call("union", *combo), (style, combo)
            calls += 1
    # nesting as the plugin does it: wrappers around wrappers
    compiler, model = cls(), Model(style)
    for t in SPELLINGS:
        got = compiler.optional(compiler.list(t))
        assert got == model.call("optional", model.call("list", t))
        got = compiler.dict("str", compiler.optional(t))
        assert got == model.call("dict", "str", model.call("optional", t))
        got = compiler.union(compiler.async_iterable(unquote(t)), compiler.iterable(unquote(t)))
        assert got == model.call(
            "union", model.call("async_iterable", unquote(t)), model.call("iterable", unquote(t))
        )
        assert got.strip('"') == model.call(
            "union", model.call("async_iterable", unquote(t)), model.call("iterable", unquote(t))
        ).strip('"')
        assert compiler.imports() == model.imports()
        calls += 3
    # random call sequences: bookkeeping after every step
    rng = random.Random(1234)
    for _ in range(150):
        compiler, model = cls(), Model(style)
        for _ in range(rng.randint(0, 12)):
            method = rng.choice(list(GENERIC))
            if method == "dict":
                args = (rng.choice(SPELLINGS), rng.choice(SPELLINGS))
            elif method == "union":
                args = tuple(rng.choice(SPELLINGS) for _ in range(rng.randint(0, 4)))
            else:
                args = (rng.choice(SPELLINGS),)
            assert getattr(compiler, method)(*args) == model.call(method, *args)
            imports = compiler.imports()
            assert imports == model.imports(), (style, imports, model.imports())
            assert list(imports) == list(model.imports())  # key order
            lines = compiler.import_lines()
            assert iter(lines) is lines  # an iterator, consumed by the header template
            assert list(lines) == model.import_lines()
            calls += 1
    # instances do not share their bookkeeping
    one, two = cls(), cls()
    one.async_iterator("x")
    assert two.imports() == {}

# --------------------------------------------------------------------------------------
# Part 2: generated packages for every typing option
# --------------------------------------------------------------------------------------

_counter = [0]


def generate(files, parameter):
    src = tempfile.mkdtemp(prefix="c13_src_")
    for name, text in files.items():
        with open(os.path.join(src, name), "w") as fh:
            fh.write(text)
    ds = os.path.join(src, "descriptors.bin")
    inc = os.path.join(os.path.dirname(grpc_tools.__file__), "_proto")
    rc = protoc.main(
        ["protoc", f"-I{src}", f"-I{inc}", f"--descriptor_set_out={ds}",
         "--include_imports", *files]
    )
    assert rc == 0, "protoc failed"
    with open(ds, "rb") as fh:
        fds = FileDescriptorSet().parse(fh.read())
    request = CodeGeneratorRequest(
        file_to_generate=list(files), parameter=parameter, proto_file=fds.file
    )
    cwd = os.getcwd()
    os.chdir(src)
    stderr, sys.stderr = sys.stderr, open(os.devnull, "w")
    try:
        response = generate_code(request)
    finally:
        sys.stderr.close()
        sys.stderr = stderr
        os.chdir(cwd)
    return {f.name: f.content for f in response.file}


def install(outputs):
    _counter[0] += 1
    root_name = f"c13_gen_{os.getpid()}_{_counter[0]}"
    base = tempfile.mkdtemp(prefix="c13_out_")
    for name, content in outputs.items():
        path = os.path.join(base, root_name, name)
        os.makedirs(os.path.dirname(path), exist_ok=True)
        with open(path, "w") as fh:
            fh.write(content)
    sys.path.insert(0, base)
    importlib.invalidate_caches()
    return root_name


def digest(outputs):
    # import lines at the module end come from a set: compare order-insensitively
    h = hashlib.sha256()
    for name in sorted(outputs):
        h.update(name.encode() + b"\0")
        h.update("\n".join(sorted(outputs[name].splitlines())).encode() + b"\0")
    return h.hexdigest()


TARGET = """
syntax = "proto3";
package a.y;
message Target { int32 number = 1; }
enum Kind { KIND_ZERO = 0; KIND_ONE = 1; }
message Outer { message Inner { string tag = 1; } enum Mode { MODE_A = 0; MODE_B = 1; } }
"""

ROOT = """
syntax = "proto3";
message RootMsg { string name = 1; }
"""

HOLDER = """
syntax = "proto3";
package a.x;
import "a_y.proto";
import "root.proto";
import "google/protobuf/any.proto";
import "google/protobuf/wrappers.proto";
import "google/protobuf/timestamp.proto";
message Holder {
  a.y.Target single = 1;
  repeated a.y.Target many = 2;
  map<string, a.y.Target> by_name = 3;
  map<int32, a.y.Outer.Mode> modes = 4;
  oneof choice {
    a.y.Target picked = 5;
    a.y.Outer.Inner picked_inner = 6;
  }
  optional a.y.Target maybe = 7;
  optional a.y.Kind maybe_kind = 8;
  repeated a.y.Kind kinds = 9;
  RootMsg root = 10;
  repeated RootMsg roots = 11;
  google.protobuf.Any any = 12;
  repeated google.protobuf.Any anys = 13;
  google.protobuf.Int32Value wrapped = 14;
  map<string, google.protobuf.Timestamp> stamps = 15;
  Local local = 16;
  repeated Local locals = 17;
  map<string, Local> local_map = 18;
}
message Local { int64 id = 1; }
service Svc {
  rpc UnaryUnary(a.y.Target) returns (a.y.Outer.Inner);
  rpc UnaryStream(a.y.Target) returns (stream a.y.Outer.Inner);
  rpc StreamUnary(stream a.y.Target) returns (RootMsg);
  rpc StreamStream(stream RootMsg) returns (stream a.y.Target);
  rpc LocalOnly(Local) returns (stream Local);
}
"""

FILES = {"a_y.proto": TARGET, "root.proto": ROOT, "a_x.proto": HOLDER}

# digests of the text generated by the reference tree (lines sorted per file)
EXPECTED_DIGESTS = {
    "": "68cc0b70ca7a09b74b50dbe95f82f2dd2a50007b2cfe5d5d6d16d00721dbab59",
    "typing.direct": "68cc0b70ca7a09b74b50dbe95f82f2dd2a50007b2cfe5d5d6d16d00721dbab59",
    "typing.root": "0eb97ba79f78e5e21653a24c40d90eb57043796e9ea07be9adf4092b64715cda",
    "typing.310": "28428f3e5ab863c7328d24115f518f6a14eea1f450fabe05e058fe231b7649a2",
}

ORIGINS = {
    "list": (list,),
    "dict": (dict,),
}


def args_of(hint):
    return hint.__args__


for parameter, expected_digest in EXPECTED_DIGESTS.items():
    outputs = generate(FILES, parameter)
    got_digest = digest(outputs)
    if os.environ.get("C13_PRINT_DIGESTS"):
        print(repr(parameter), got_digest)
    else:
        assert got_digest == expected_digest, (parameter, got_digest)

    text = outputs[os.path.join("a", "x", "__init__.py")]
    if parameter in ("", "typing.direct"):
        assert "from typing import (" in text and "    AsyncIterator," in text
        assert "import typing\n" not in text
    elif parameter == "typing.root":
        assert "import typing\n" in text and "from typing import (" not in text
    else:
        assert "from collections.abc import (" in text
        assert "typing.List" not in text and "Optional[" not in text

    root = install(outputs)
    top = importlib.import_module(root)
    ax = importlib.import_module(f"{root}.a.x")
    ay = importlib.import_module(f"{root}.a.y")
    import betterproto.lib.google.protobuf as bundled

    Holder, Local = ax.Holder, ax.Local
    Target, Inner, Kind, Mode = ay.Target, ay.OuterInner, ay.Kind, ay.OuterMode
    RootMsg = top.RootMsg

    hints = typing.get_type_hints(Holder, vars(ax), {})
    assert hints == Holder._type_hints()
    assert hints["single"] is Target
    assert hints["many"].__origin__ is list and args_of(hints["many"]) == (Target,)
    assert hints["by_name"].__origin__ is dict and args_of(hints["by_name"]) == (str, Target)
    assert args_of(hints["modes"]) == (int, Mode)
    assert hints["picked"] is Target and hints["picked_inner"] is Inner
    assert set(args_of(hints["maybe"])) == {Target, type(None)} and args_of(hints["maybe"])[0] is Target
    assert args_of(hints["maybe_kind"])[0] is Kind
    assert args_of(hints["kinds"]) == (Kind,)
    assert hints["root"] is RootMsg and args_of(hints["roots"]) == (RootMsg,)
    assert hints["any"] is bundled.Any and args_of(hints["anys"]) == (bundled.Any,)
    assert set(args_of(hints["wrapped"])) == {int, type(None)}
    assert hints["local"] is Local and args_of(hints["locals"]) == (Local,)
    assert args_of(hints["local_map"]) == (str, Local)

    msg = Holder(
        single=Target(number=1),
        many=[Target(number=2), Target()],
        by_name={"k": Target(number=3)},
        modes={4: Mode(1)},
        picked_inner=Inner(tag="t"),
        maybe=Target(),
        maybe_kind=Kind(1),
        kinds=[Kind(1), Kind(0)],
        root=RootMsg(name="r"),
        roots=[RootMsg(name="r2")],
        any=bundled.Any(type_url="u", value=b"v"),
        anys=[bundled.Any(type_url="w")],
        wrapped=5,
        local=Local(id=9),
        locals=[Local(id=10)],
        local_map={"l": Local(id=11)},
    )
    back = Holder().parse(bytes(msg))
    assert back == msg
    assert type(back.single) is Target and type(back.many[1]) is Target
    assert type(back.by_name["k"]) is Target and type(back.modes[4]) is Mode
    assert type(back.picked_inner) is Inner and type(back.maybe) is Target
    assert type(back.maybe_kind) is Kind and type(back.kinds[0]) is Kind
    assert type(back.root) is RootMsg and type(back.roots[0]) is RootMsg
    assert type(back.any) is bundled.Any and type(back.anys[0]) is bundled.Any
    assert type(back.local_map["l"]) is Local
    assert Holder().from_dict(msg.to_dict()) == msg
    empty = Holder()
    assert empty.many == [] and empty.by_name == {} and empty.maybe is None
    assert type(empty.single) is Target and empty.wrapped is None

    # rpc annotations: evaluate the spelled annotation in the module's namespace
    ns = dict(vars(ax))

    def resolve(annotation):
        return eval(annotation, ns) if isinstance(annotation, str) else annotation

    def generic(annotation, origins):
        hint = resolve(annotation)
        assert hint.__origin__ in origins, (annotation, hint.__origin__)
        return hint.__args__

    async_iterator = (collections.abc.AsyncIterator,)
    stub, base = ax.SvcStub, ax.SvcBase

    ann = stub.unary_unary.__annotations__
    assert resolve(ann["y_target"]) is Target and resolve(ann["return"]) is Inner
    assert set(typing.get_args(resolve(ann["timeout"]))) == {float, type(None)}
    ann = stub.unary_stream.__annotations__
    assert resolve(ann["y_target"]) is Target
    assert generic(ann["return"], async_iterator) == (Inner,)
    ann = stub.stream_unary.__annotations__
    union = resolve(ann["y_target_iterator"])
    members = typing.get_args(union)
    assert [m.__origin__ for m in members] == [collections.abc.AsyncIterable, collections.abc.Iterable]
    assert [m.__args__ for m in members] == [(Target,), (Target,)]
    assert resolve(ann["return"]) is RootMsg
    ann = stub.stream_stream.__annotations__
    members = typing.get_args(resolve(ann["root_msg_iterator"]))
    assert [m.__args__ for m in members] == [(RootMsg,), (RootMsg,)]
    assert generic(ann["return"], async_iterator) == (Target,)
    ann = stub.local_only.__annotations__
    assert resolve(ann["local"]) is Local and generic(ann["return"], async_iterator) == (Local,)

    ann = base.unary_unary.__annotations__
    assert resolve(ann["y_target"]) is Target and resolve(ann["return"]) is Inner
    ann = base.unary_stream.__annotations__
    assert generic(ann["return"], async_iterator) == (Inner,)
    ann = base.stream_unary.__annotations__
    assert generic(ann["y_target_iterator"], async_iterator) == (Target,)
    assert resolve(ann["return"]) is RootMsg
    ann = base.stream_stream.__annotations__
    assert generic(ann["root_msg_iterator"], async_iterator) == (RootMsg,)
    assert generic(ann["return"], async_iterator) == (Target,)

    mapping = base().__mapping__()
    handler = mapping["/a.x.Svc/StreamStream"]
    assert handler.request_type is RootMsg and handler.reply_type is Target
    handler = mapping["/a.x.Svc/UnaryUnary"]
    assert handler.request_type is Target and handler.reply_type is Inner

# multiple typing options are still rejected
try:
    generate(FILES, "typing.direct,typing.310")
except ValueError:
    pass
else:
    raise AssertionError("two typing options must be rejected")

print(f"C13 keep1 equiv OK ({calls} compiler calls compared)")
