"""
C12 equivalence check for AsyncChannel.

The script embeds a verbatim copy of the reference AsyncChannel (``RefChannel``) and
drives it and the library's ``betterproto.grpc.util.async_channel.AsyncChannel``
through thousands of identical, seeded scenarios (1..2 senders x 1..3 items, 1..3
receivers using receive() or async-for, close() / send_from(close=True) / double
close at any point, unbounded and bounded buffers, optional cancellation of a
receiver at any point, natural and shuffled ready-queue order).  For every scenario

* the complete event trace of the library channel must be identical to the trace of
  the reference channel (same results, same exceptions, same order, same done() /
  closed() observations), and
* the trace must satisfy what property C12 states (exactly-once ordered delivery of
  everything sent before the close, no stranded receiver, sends rejected after
  close, cancellation surfaces as cancellation and loses nothing).

Run as:  PYTHONPATH=<worktree>/src /venv/bin/python equiv.py
"""
import asyncio
import random
import sys
from typing import AsyncIterable, Iterable, Optional, Union

from betterproto.grpc.util.async_channel import (
    AsyncChannel,
    ChannelClosed,
    ChannelDone,
)


# --------------------------------------------------------------------------------------
# verbatim copy of the reference implementation
# --------------------------------------------------------------------------------------
class RefChannel:
    def __init__(self, *, buffer_limit: int = 0, close: bool = False):
        self._queue = asyncio.Queue(buffer_limit)
        self._closed = False
        self._waiting_receivers = 0
        self._flushed = False

    def __aiter__(self):
        return self

    async def __anext__(self):
        if self.done():
            raise StopAsyncIteration
        self._waiting_receivers += 1
        try:
            result = await self._queue.get()
        finally:
            self._waiting_receivers -= 1
        self._queue.task_done()
        if result is self.__flush:
            raise StopAsyncIteration
        return result

    def closed(self) -> bool:
        return self._closed

    def done(self) -> bool:
        return self._closed and self._queue.qsize() <= self._waiting_receivers

    async def send_from(self, source, close: bool = False):
        if self._closed:
            raise ChannelClosed("Cannot send through a closed channel")
        if isinstance(source, AsyncIterable):
            async for item in source:
                await self._queue.put(item)
        else:
            for item in source:
                await self._queue.put(item)
        if close:
            self.close()
        return self

    async def send(self, item):
        if self._closed:
            raise ChannelClosed("Cannot send through a closed channel")
        await self._queue.put(item)
        return self

    async def receive(self):
        if self.done():
            raise ChannelDone("Cannot receive from a closed channel")
        self._waiting_receivers += 1
        try:
            result = await self._queue.get()
        finally:
            self._waiting_receivers -= 1
        self._queue.task_done()
        if result is self.__flush:
            return None
        return result

    def close(self):
        self._closed = True
        asyncio.ensure_future(self._flush_queue())

    async def _flush_queue(self):
        if not self._flushed:
            self._flushed = True
            deadlocked_receivers = max(0, self._waiting_receivers - self._queue.qsize())
            for _ in range(deadlocked_receivers):
                await self._queue.put(self.__flush)

    __flush = object()


# --------------------------------------------------------------------------------------
# an event loop whose ready queue can be shuffled deterministically
# --------------------------------------------------------------------------------------
class ShuffleLoop(asyncio.SelectorEventLoop):
    shuffle_rng: Optional[random.Random] = None

    def _run_once(self):
        rng = self.shuffle_rng
        if rng is not None and len(self._ready) > 1:
            handles = list(self._ready)
            rng.shuffle(handles)
            self._ready.clear()
            self._ready.extend(handles)
        super()._run_once()


# --------------------------------------------------------------------------------------
# scenario generation (independent of the channel implementation)
# --------------------------------------------------------------------------------------
def make_config(seed: int) -> dict:
    rng = random.Random(seed)
    n_senders = rng.randint(1, 2)
    senders = []
    for s in range(n_senders):
        n_items = rng.randint(1, 3)
        items = [(s + 1) * 100 + i for i in range(n_items)]
        senders.append(
            {
                "items": items,
                # "send": one send() per item, "send_from": one call (sync source),
                # "send_from_async": one call with an async generator source
                "mode": rng.choice(["send", "send", "send_from", "send_from_async"]),
                "yields": [rng.randint(0, 3) for _ in range(n_items + 1)],
            }
        )
    n_receivers = rng.randint(1, 3)
    receivers = [
        {
            "kind": rng.choice(["receive", "iterate"]),
            "yields": [rng.randint(0, 3) for _ in range(12)],
            "start_delay": rng.randint(0, 4),
        }
        for _ in range(n_receivers)
    ]
    close_mode = rng.choice(["close", "close", "double_close", "send_from_close"])
    cfg = {
        "seed": seed,
        "senders": senders,
        "receivers": receivers,
        "buffer_limit": rng.choice([0, 0, 1, 2]),
        "close_mode": close_mode,
        "close_delay": rng.randint(0, 14),
        "cancel": (
            {"victim": rng.randrange(n_receivers), "delay": rng.randint(0, 14)}
            if rng.random() < 0.5
            else None
        ),
        "late_ops": rng.randint(0, 2),
        "shuffle": rng.random() < 0.5,
        "order": rng.random(),
    }
    if close_mode == "send_from_close":
        senders[0]["mode"] = rng.choice(["send_from", "send_from_async"])
    return cfg


async def nap(n: int):
    for _ in range(n):
        await asyncio.sleep(0)


async def run_scenario(chan_cls, cfg) -> list:
    trace = []
    chan = chan_cls(buffer_limit=cfg["buffer_limit"])

    def ev(*what):
        trace.append(what + (chan.closed(), chan.done()))

    async def agen(items, yields, name):
        for i, item in enumerate(items):
            await nap(yields[i])
            ev(name, "yielding", item)
            yield item

    async def sender(idx, spec):
        name = f"S{idx}"
        closing = cfg["close_mode"] == "send_from_close" and idx == 0
        try:
            if spec["mode"] == "send":
                for i, item in enumerate(spec["items"]):
                    await nap(spec["yields"][i])
                    ev(name, "sending", item)
                    ret = await chan.send(item)
                    assert ret is chan
                    ev(name, "sent", item)
            else:
                await nap(spec["yields"][-1])
                ev(name, "sending_all", tuple(spec["items"]))
                if spec["mode"] == "send_from":
                    source = iter(list(spec["items"])) if idx else list(spec["items"])
                else:
                    source = agen(spec["items"], spec["yields"], name)
                ret = await chan.send_from(source, close=closing)
                assert ret is chan
                ev(name, "sent_all", tuple(spec["items"]))
        except ChannelClosed as exc:
            assert str(exc) == "Cannot send through a closed channel"
            ev(name, "rejected")
        except asyncio.CancelledError:
            ev(name, "sender_cancelled")
            raise

    async def receiver(idx, spec):
        name = f"R{idx}"
        try:
            await nap(spec["start_delay"])
            if spec["kind"] == "receive":
                step = 0
                while True:
                    await nap(spec["yields"][step % len(spec["yields"])])
                    step += 1
                    ev(name, "receiving")
                    try:
                        item = await chan.receive()
                    except ChannelDone as exc:
                        assert str(exc) == "Cannot receive from a closed channel"
                        ev(name, "channel_done")
                        return
                    if item is None:
                        ev(name, "got_none")
                        return
                    ev(name, "got", item)
            else:
                step = 0
                ev(name, "iterating")
                async for item in chan:
                    ev(name, "got", item)
                    await nap(spec["yields"][step % len(spec["yields"])])
                    step += 1
                ev(name, "end_of_iteration")
        except asyncio.CancelledError:
            ev(name, "cancelled")
            raise

    async def closer():
        await nap(cfg["close_delay"])
        ev("C", "closing")
        chan.close()
        ev("C", "closed")
        if cfg["close_mode"] == "double_close":
            await nap(1)
            chan.close()
            ev("C", "closed_again")

    tasks = {}
    starters = []
    for i, spec in enumerate(cfg["senders"]):
        starters.append((f"S{i}", sender(i, spec)))
    for i, spec in enumerate(cfg["receivers"]):
        starters.append((f"R{i}", receiver(i, spec)))
    if cfg["close_mode"] != "send_from_close":
        starters.append(("C", closer()))
    random.Random(cfg["order"]).shuffle(starters)
    for name, coro in starters:
        tasks[name] = asyncio.ensure_future(coro)

    if cfg["cancel"] is not None:

        async def canceller():
            await nap(cfg["cancel"]["delay"])
            victim = f"R{cfg['cancel']['victim']}"
            ev("X", "cancel", victim, tasks[victim].done())
            tasks[victim].cancel()

        tasks["X"] = asyncio.ensure_future(canceller())

    # run to quiescence
    for _ in range(400):
        if all(t.done() for t in tasks.values()):
            break
        await asyncio.sleep(0)
    pending = sorted(name for name, t in tasks.items() if not t.done())
    ev("MAIN", "quiescent", tuple(pending))
    for t in tasks.values():
        t.cancel()
    results = await asyncio.gather(*tasks.values(), return_exceptions=True)
    for name, res in zip(tasks, results):
        ev("MAIN", "result", name, type(res).__name__)
    if not chan.closed():
        # the closing sender itself got stuck / cancelled: close by hand
        ev("MAIN", "force_close")
        chan.close()

    # a late receiver drains whatever is left, late senders are rejected
    for _ in range(cfg["late_ops"]):
        try:
            await chan.send(-1)
        except ChannelClosed:
            ev("MAIN", "late_send_rejected")
        else:
            ev("MAIN", "late_send_accepted")
        try:
            await chan.send_from([-2, -3])
        except ChannelClosed:
            ev("MAIN", "late_send_from_rejected")
        else:
            ev("MAIN", "late_send_from_accepted")
    for _ in range(30):
        if chan.done():
            break
        try:
            item = await asyncio.wait_for(chan.receive(), 5)
        except ChannelDone:
            ev("D", "channel_done")
            break
        ev("D", "got_none") if item is None else ev("D", "got", item)
    try:
        await chan.receive()
    except ChannelDone:
        ev("D", "final_channel_done")
    else:
        ev("D", "final_receive_returned")
    leftovers = [item async for item in chan]
    ev("D", "final_iteration", tuple(leftovers))
    await nap(3)
    return trace


# --------------------------------------------------------------------------------------
# what C12 states, checked on a trace
# --------------------------------------------------------------------------------------
def check_property(cfg, trace):
    label = f"seed {cfg['seed']}"
    attempted = {item for s in cfg["senders"] for item in s["items"]}
    close_at = None
    for pos, e in enumerate(trace):
        if close_at is None and e[-2]:  # closed() observed True
            close_at = pos
    assert close_at is not None, f"{label}: channel never closed"

    sent_before_close = set()
    for pos, e in enumerate(trace):
        if e[1] == "sent" and pos < close_at:
            sent_before_close.add(e[2])
        elif e[1] == "sent_all" and (
            pos < close_at
            or (cfg["close_mode"] == "send_from_close" and e[0] == "S0")
        ):
            # send_from(..., close=True) closes only after everything was sent
            sent_before_close.update(e[2])

    received = [e[2] for e in trace if e[1] == "got"]
    assert len(received) == len(set(received)), f"{label}: duplicate {received}"
    assert set(received) <= attempted, f"{label}: invented item {received}"
    missing = sent_before_close - set(received)
    assert not missing, f"{label}: items {missing} sent before close were lost"
    for s in range(len(cfg["senders"])):
        mine = [x for x in received if x // 100 == s + 1]
        assert mine == sorted(mine), f"{label}: sender {s} out of order {mine}"

    # no receiver (and no closer / canceller) is stranded at quiescence
    quiescent = next(e for e in trace if e[1] == "quiescent")
    stranded = [n for n in quiescent[2] if not n.startswith("S")]
    assert not stranded, f"{label}: stranded at quiescence: {stranded}"

    # a cancelled receiver surfaces the cancellation
    for e in trace:
        if e[0] == "X" and not e[3]:
            victim = e[2]
            res = next(
                t for t in trace if t[1] == "result" and t[2] == victim
            )
            assert res[3] == "CancelledError", f"{label}: {res}"

    # sends after the close are rejected, receives after done terminate
    for pos, e in enumerate(trace):
        if e[1] in ("late_send_accepted", "late_send_from_accepted"):
            raise AssertionError(f"{label}: send accepted after close")
        if e[1] == "sending" and e[-2]:
            nxt = next(t for t in trace[pos + 1 :] if t[0] == e[0])
            assert nxt[1] == "rejected", f"{label}: {e} followed by {nxt}"
    assert ("D", "final_channel_done") in {(t[0], t[1]) for t in trace}, label
    final_iter = next(t for t in trace if t[1] == "final_iteration")
    assert final_iter[2] == (), label


# --------------------------------------------------------------------------------------
# deterministic extras: timeouts and the API surface
# --------------------------------------------------------------------------------------
async def extras(chan_cls):
    out = []
    chan = chan_cls()
    assert chan.__aiter__() is chan
    assert not chan.closed() and not chan.done()
    # a timed out receiver surfaces the timeout and loses nothing
    for _ in range(3):
        try:
            await asyncio.wait_for(chan.receive(), 0.01)
        except asyncio.TimeoutError:
            out.append("timeout")
        try:
            await asyncio.wait_for(chan.__anext__(), 0.01)
        except asyncio.TimeoutError:
            out.append("timeout-iter")
    out.append((chan._waiting_receivers, chan.done(), chan.closed()))
    await chan.send(0)
    await chan.send("")
    await chan.send_from([None, False, [], 7])
    out.append(await chan.receive())
    out.append(await chan.receive())
    out.append(await chan.receive())  # a real None item comes back as None
    out.append(await chan.__anext__())
    chan.close()
    out.append((chan.closed(), chan.done()))
    out.append([x async for x in chan])
    out.append((chan.closed(), chan.done()))
    for op in (chan.receive, chan.__anext__):
        try:
            await op()
        except (ChannelDone, StopAsyncIteration) as exc:
            out.append((type(exc).__name__, str(exc)))
    for op in (lambda: chan.send(1), lambda: chan.send_from([1]), lambda: chan.send_from([])):
        try:
            await op()
        except ChannelClosed as exc:
            out.append((type(exc).__name__, str(exc)))
    chan.close()
    await nap(3)
    out.append((chan.closed(), chan.done(), chan._queue.qsize(), chan._waiting_receivers))

    # bounded channel: senders block until a receiver makes room
    chan = chan_cls(buffer_limit=1)
    t = asyncio.ensure_future(chan.send_from(range(5), close=True))
    await nap(3)
    out.append((t.done(), chan._queue.qsize()))
    out.append([x async for x in chan])
    out.append((t.done(), t.result() is chan, chan.done()))

    # many blocked receivers, closed with nothing sent
    for n in range(1, 5):
        for limit in (0, 1, 2):
            chan = chan_cls(buffer_limit=limit)
            ts = [
                asyncio.ensure_future(chan.receive() if i % 2 else chan.__anext__())
                for i in range(n)
            ]
            await nap(2)
            out.append(chan._waiting_receivers)
            chan.close()
            chan.close()
            res = await asyncio.wait_for(
                asyncio.gather(*ts, return_exceptions=True), 5
            )
            out.append([r if r is None else type(r).__name__ for r in res])
            out.append((chan._waiting_receivers, chan._queue.qsize(), chan.done()))
    return out


def run_on_fresh_loop(coro_fn, shuffle_seed=None):
    loop = ShuffleLoop()
    loop.shuffle_rng = random.Random(shuffle_seed) if shuffle_seed is not None else None
    try:
        return loop.run_until_complete(coro_fn())
    finally:
        loop.shuffle_rng = None
        loop.run_until_complete(loop.shutdown_asyncgens())
        loop.close()


def main():
    n_seeds = int(sys.argv[1]) if len(sys.argv) > 1 else 4000
    stats = {"cancel": 0, "bounded": 0, "shuffle": 0, "events": 0}
    for seed in range(n_seeds):
        cfg = make_config(seed)
        shuffle_seed = seed if cfg["shuffle"] else None
        ref = run_on_fresh_loop(lambda: run_scenario(RefChannel, cfg), shuffle_seed)
        lib = run_on_fresh_loop(lambda: run_scenario(AsyncChannel, cfg), shuffle_seed)
        if lib != ref:
            for i, (a, b) in enumerate(zip(lib, ref)):
                if a != b:
                    print(f"seed {seed}: first difference at event {i}: {a} != {b}")
                    break
            raise AssertionError(f"seed {seed}: trace differs from reference\n{cfg}")
        check_property(cfg, lib)
        stats["cancel"] += cfg["cancel"] is not None
        stats["bounded"] += cfg["buffer_limit"] > 0
        stats["shuffle"] += cfg["shuffle"]
        stats["events"] += len(lib)

    ref = run_on_fresh_loop(lambda: extras(RefChannel))
    lib = run_on_fresh_loop(lambda: extras(AsyncChannel))
    assert lib == ref, f"extras differ:\n{lib}\n{ref}"

    print(
        f"OK: {n_seeds} scenarios identical to the reference and satisfying C12 "
        f"({stats['events']} events; {stats['cancel']} with cancellation, "
        f"{stats['bounded']} bounded, {stats['shuffle']} with shuffled ready queue); "
        f"{len(lib)} extra observations identical"
    )


if __name__ == "__main__":
    main()
