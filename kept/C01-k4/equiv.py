"""Equivalence checks for Message._postprocess_single (the per-type decoders used by
Message.load / parse for singular, packed, map-entry, wrapper, Timestamp and Duration
values) and for the binary round trip built on it.

Expected values come from an independent reference decoder written here and from
google.protobuf.  Passes on the pristine tree and with the refactor applied."""
import dataclasses as dc
import itertools
import math
import random
import struct
from dataclasses import dataclass
from datetime import datetime, timedelta, timezone
from typing import Dict, List, Optional

import betterproto
from betterproto import (
    TYPE_BOOL, TYPE_BYTES, TYPE_DOUBLE, TYPE_ENUM, TYPE_FIXED32, TYPE_FIXED64,
    TYPE_FLOAT, TYPE_INT32, TYPE_INT64, TYPE_MAP, TYPE_MESSAGE, TYPE_SFIXED32,
    TYPE_SFIXED64, TYPE_SINT32, TYPE_SINT64, TYPE_STRING, TYPE_UINT32, TYPE_UINT64,
    WIRE_FIXED_32, WIRE_FIXED_64, WIRE_LEN_DELIM, WIRE_VARINT,
)
from google.protobuf import descriptor_pb2, descriptor_pool, message_factory

rnd = random.Random(987654321)


def ref_varint(n: int) -> bytes:
    assert -(1 << 63) <= n < (1 << 64)
    n &= (1 << 64) - 1
    out = []
    while True:
        b = n & 0x7F
        n >>= 7
        if n:
            out.append(b | 0x80)
        else:
            out.append(b)
            return bytes(out)


NUMBERS = [1, 2, 15, 16, 17, 127, 128, 2047, 2048, 16383, 16384, 2**21 - 1, 2**21,
           2**28, 2**29 - 1]
I32 = [0, 1, -1, 2, 63, 64, 127, 128, 300, 16383, 16384, 2**31 - 1, -(2**31), -(2**31) + 1]
I64 = I32 + [2**31, 2**32, -(2**31) - 1, 2**53, 2**62, 2**63 - 1, -(2**63), -(2**63) + 1]
U32 = [0, 1, 127, 128, 2**31, 2**32 - 1]
U64 = U32 + [2**32, 2**63 - 1, 2**63, 2**64 - 1]
FLOATS = [0.0, -0.0, 1.0, -1.5, 3.4028234663852886e38, 1e-45, math.inf, -math.inf, math.nan]
DOUBLES = FLOATS + [1e308, 5e-324, 2**53 + 1.0, 0.1]
STRINGS = ["", "a", "\x00", "héllo", "日本語", "\U0001F600", "x" * 127, "y" * 128, "z" * 20000,
           "\U0001F600" * 40]
BYTESES = [b"", b"\x00", b"\xff" * 127, b"\x80" * 128, bytes(range(256)) * 70]

# ---------------------------------------------------------------- message level
class Color(betterproto.Enum):
    BLACK = 0
    RED = 1
    NEG = -1
    LOW = -(2**31)


@dataclass(eq=False, repr=False)
class Inner(betterproto.Message):
    a: int = betterproto.int32_field(1)
    b: str = betterproto.string_field(16)


SCALARS = [
    ("f_int32", TYPE_INT32, int), ("f_int64", TYPE_INT64, int), ("f_uint32", TYPE_UINT32, int),
    ("f_uint64", TYPE_UINT64, int), ("f_sint32", TYPE_SINT32, int), ("f_sint64", TYPE_SINT64, int),
    ("f_fixed32", TYPE_FIXED32, int), ("f_fixed64", TYPE_FIXED64, int),
    ("f_sfixed32", TYPE_SFIXED32, int), ("f_sfixed64", TYPE_SFIXED64, int),
    ("f_float", TYPE_FLOAT, float), ("f_double", TYPE_DOUBLE, float), ("f_bool", TYPE_BOOL, bool),
    ("f_string", TYPE_STRING, str), ("f_bytes", TYPE_BYTES, bytes),
]


@dataclass(eq=False, repr=False)
class Big(betterproto.Message):
    f_int32: int = betterproto.int32_field(1)
    f_int64: int = betterproto.int64_field(2)
    f_uint32: int = betterproto.uint32_field(3)
    f_uint64: int = betterproto.uint64_field(4)
    f_sint32: int = betterproto.sint32_field(5)
    f_sint64: int = betterproto.sint64_field(6)
    f_fixed32: int = betterproto.fixed32_field(7)
    f_fixed64: int = betterproto.fixed64_field(8)
    f_sfixed32: int = betterproto.sfixed32_field(9)
    f_sfixed64: int = betterproto.sfixed64_field(10)
    f_float: float = betterproto.float_field(11)
    f_double: float = betterproto.double_field(12)
    f_bool: bool = betterproto.bool_field(13)
    f_string: str = betterproto.string_field(14)
    f_bytes: bytes = betterproto.bytes_field(15)
    f_enum: "Color" = betterproto.enum_field(16)
    f_msg: "Inner" = betterproto.message_field(17)
    r_int32: List[int] = betterproto.int32_field(21)
    r_int64: List[int] = betterproto.int64_field(22)
    r_uint32: List[int] = betterproto.uint32_field(23)
    r_uint64: List[int] = betterproto.uint64_field(24)
    r_sint32: List[int] = betterproto.sint32_field(25)
    r_sint64: List[int] = betterproto.sint64_field(26)
    r_fixed32: List[int] = betterproto.fixed32_field(27)
    r_fixed64: List[int] = betterproto.fixed64_field(28)
    r_sfixed32: List[int] = betterproto.sfixed32_field(29)
    r_sfixed64: List[int] = betterproto.sfixed64_field(30)
    r_float: List[float] = betterproto.float_field(31)
    r_double: List[float] = betterproto.double_field(32)
    r_bool: List[bool] = betterproto.bool_field(33)
    r_string: List[str] = betterproto.string_field(34)
    r_bytes: List[bytes] = betterproto.bytes_field(35)
    r_enum: List["Color"] = betterproto.enum_field(36)
    r_msg: List["Inner"] = betterproto.message_field(37)
    o_int32: Optional[int] = betterproto.int32_field(41, optional=True)
    o_string: Optional[str] = betterproto.string_field(42, optional=True)
    o_bytes: Optional[bytes] = betterproto.bytes_field(43, optional=True)
    o_msg: Optional["Inner"] = betterproto.message_field(44, optional=True)
    o_double: Optional[float] = betterproto.double_field(45, optional=True)
    o_enum: Optional["Color"] = betterproto.enum_field(46, optional=True)
    one_int: int = betterproto.sint64_field(51, group="one")
    one_str: str = betterproto.string_field(52, group="one")
    one_bytes: bytes = betterproto.bytes_field(53, group="one")
    one_msg: "Inner" = betterproto.message_field(54, group="one")
    one_fix: int = betterproto.fixed32_field(55, group="one")
    one_enum: "Color" = betterproto.enum_field(56, group="one")
    m_str_int: Dict[str, int] = betterproto.map_field(61, TYPE_STRING, TYPE_SINT32)
    m_int_msg: Dict[int, "Inner"] = betterproto.map_field(62, TYPE_INT64, TYPE_MESSAGE)
    m_bool_bytes: Dict[bool, bytes] = betterproto.map_field(63, TYPE_BOOL, TYPE_BYTES)
    m_fix_dbl: Dict[int, float] = betterproto.map_field(64, TYPE_FIXED64, TYPE_DOUBLE)
    m_u32_enum: Dict[int, "Color"] = betterproto.map_field(65, TYPE_UINT32, TYPE_ENUM)
    w_int: Optional[int] = betterproto.message_field(71, wraps=TYPE_INT64)
    w_str: Optional[str] = betterproto.message_field(72, wraps=TYPE_STRING)
    w_bool: Optional[bool] = betterproto.message_field(73, wraps=TYPE_BOOL)
    ts: datetime = betterproto.message_field(74)
    dur: timedelta = betterproto.message_field(75)
    far: int = betterproto.int32_field(2**29 - 1)


# the same schema for google.protobuf
F = descriptor_pb2.FieldDescriptorProto
GTYPE = {
    TYPE_INT32: F.TYPE_INT32, TYPE_INT64: F.TYPE_INT64, TYPE_UINT32: F.TYPE_UINT32,
    TYPE_UINT64: F.TYPE_UINT64, TYPE_SINT32: F.TYPE_SINT32, TYPE_SINT64: F.TYPE_SINT64,
    TYPE_FIXED32: F.TYPE_FIXED32, TYPE_FIXED64: F.TYPE_FIXED64, TYPE_SFIXED32: F.TYPE_SFIXED32,
    TYPE_SFIXED64: F.TYPE_SFIXED64, TYPE_FLOAT: F.TYPE_FLOAT, TYPE_DOUBLE: F.TYPE_DOUBLE,
    TYPE_BOOL: F.TYPE_BOOL, TYPE_STRING: F.TYPE_STRING, TYPE_BYTES: F.TYPE_BYTES,
    TYPE_ENUM: F.TYPE_ENUM, TYPE_MESSAGE: F.TYPE_MESSAGE,
}
WELL_KNOWN = {
    ("w_int",): ".google.protobuf.Int64Value", ("w_str",): ".google.protobuf.StringValue",
    ("w_bool",): ".google.protobuf.BoolValue", ("ts",): ".google.protobuf.Timestamp",
    ("dur",): ".google.protobuf.Duration",
}


def build_google_classes():
    from google.protobuf import duration_pb2, timestamp_pb2, wrappers_pb2  # noqa: F401 (registers deps)

    fd = descriptor_pb2.FileDescriptorProto(name="c01_keep1_equiv.proto", package="eq", syntax="proto3")
    fd.dependency.extend(["google/protobuf/wrappers.proto", "google/protobuf/timestamp.proto",
                          "google/protobuf/duration.proto"])
    en = fd.enum_type.add(name="Color")
    for name, num in (("BLACK", 0), ("RED", 1), ("NEG", -1), ("LOW", -(2**31))):
        en.value.add(name=name, number=num)
    inner = fd.message_type.add(name="Inner")
    inner.field.add(name="a", number=1, type=F.TYPE_INT32, label=F.LABEL_OPTIONAL)
    inner.field.add(name="b", number=16, type=F.TYPE_STRING, label=F.LABEL_OPTIONAL)
    big = fd.message_type.add(name="Big")
    big.oneof_decl.add(name="one")
    synthetic = []
    import dataclasses as dc
    for f in dc.fields(Big):
        meta = betterproto.FieldMetadata.get(f)
        hint = str(f.type)
        repeated = hint.startswith("typing.List") or hint.startswith("List")
        if meta.proto_type == TYPE_MAP:
            entry = big.nested_type.add(name="".join(p.capitalize() for p in f.name.split("_")) + "Entry")
            entry.options.map_entry = True
            for i, (nm, t) in enumerate(zip(("key", "value"), meta.map_types), 1):
                ef = entry.field.add(name=nm, number=i, type=GTYPE[t], label=F.LABEL_OPTIONAL)
                if t == TYPE_MESSAGE:
                    ef.type_name = ".eq.Inner"
                if t == TYPE_ENUM:
                    ef.type_name = ".eq.Color"
            big.field.add(name=f.name, number=meta.number, type=F.TYPE_MESSAGE, label=F.LABEL_REPEATED,
                          type_name=".eq.Big." + entry.name)
            continue
        gf = big.field.add(name=f.name, number=meta.number, type=GTYPE[meta.proto_type],
                           label=F.LABEL_REPEATED if repeated else F.LABEL_OPTIONAL)
        if meta.proto_type == TYPE_ENUM:
            gf.type_name = ".eq.Color"
        if meta.proto_type == TYPE_MESSAGE:
            gf.type_name = WELL_KNOWN.get((f.name,), ".eq.Inner")
        if meta.group:
            gf.oneof_index = 0
        if meta.optional:
            synthetic.append(gf)
    for gf in synthetic:
        big.oneof_decl.add(name="_" + gf.name)
        gf.oneof_index = len(big.oneof_decl) - 1
        gf.proto3_optional = True
    pool = descriptor_pool.DescriptorPool()
    for dep in (wrappers_pb2, timestamp_pb2, duration_pb2):
        dfd = descriptor_pb2.FileDescriptorProto()
        dep.DESCRIPTOR.CopyToProto(dfd)
        pool.Add(dfd)
    pool.Add(fd)
    return message_factory.GetMessageClass(pool.FindMessageTypeByName("eq.Big"))


GBig = build_google_classes()

INT_RANGES = {
    TYPE_INT32: I32, TYPE_INT64: I64, TYPE_UINT32: U32, TYPE_UINT64: U64, TYPE_SINT32: I32,
    TYPE_SINT64: I64, TYPE_FIXED32: U32, TYPE_FIXED64: U64, TYPE_SFIXED32: I32, TYPE_SFIXED64: I64,
}
ENUMS = [Color.BLACK, Color.RED, Color.NEG, Color.LOW, Color.try_value(7), Color.try_value(2**31 - 1),
         Color.try_value(-5)]
F32 = [0.0, 1.0, -1.5, 0.5, math.inf, -math.inf, 3.4028234663852886e38, 2.0**-149]
F64 = F32 + [0.1, 1e308, 5e-324, -2.5e-300]


def pick(proto_type):
    if proto_type in INT_RANGES:
        return rnd.choice(INT_RANGES[proto_type])
    if proto_type == TYPE_FLOAT:
        return rnd.choice(F32)
    if proto_type == TYPE_DOUBLE:
        return rnd.choice(F64)
    if proto_type == TYPE_BOOL:
        return rnd.choice([False, True])
    if proto_type == TYPE_STRING:
        return rnd.choice(STRINGS[:8])
    if proto_type == TYPE_BYTES:
        return rnd.choice(BYTESES[:4])
    if proto_type == TYPE_ENUM:
        return rnd.choice(ENUMS)
    raise AssertionError(proto_type)


def pick_inner():
    return rnd.choice([Inner(), Inner(a=5), Inner(b="x"), Inner(a=-1, b="\U0001F600"), Inner(a=0, b="")])


def random_big() -> Big:
    import dataclasses as dc
    kw = {}
    oneofs = []
    for f in dc.fields(Big):
        meta = betterproto.FieldMetadata.get(f)
        if rnd.random() < 0.45:
            continue
        hint = str(f.type)
        repeated = "List" in hint
        if meta.group:
            oneofs.append(f)
            continue
        if meta.proto_type == TYPE_MAP:
            kt, vt = meta.map_types
            d = {}
            for _ in range(rnd.choice([0, 1, 1, 2, 3])):
                d[pick(kt)] = pick_inner() if vt == TYPE_MESSAGE else pick(vt)
            kw[f.name] = d
        elif f.name == "ts":
            kw[f.name] = rnd.choice([datetime(1970, 1, 1, tzinfo=timezone.utc),
                                     datetime(2001, 9, 9, 1, 46, 40, 5, tzinfo=timezone.utc),
                                     datetime(1969, 12, 31, 23, 59, 59, 999999, tzinfo=timezone.utc),
                                     datetime(9999, 12, 31, 23, 59, 59, 999999, tzinfo=timezone.utc),
                                     datetime(1, 1, 1, tzinfo=timezone.utc)])
        elif f.name == "dur":
            kw[f.name] = rnd.choice([timedelta(0), timedelta(seconds=5), timedelta(microseconds=-1),
                                     timedelta(seconds=-1, microseconds=-500000), timedelta(days=3652500),
                                     timedelta(days=-3652500)])
        elif meta.wraps:
            kw[f.name] = pick(meta.wraps)
        elif meta.proto_type == TYPE_MESSAGE:
            if repeated:
                kw[f.name] = [pick_inner() for _ in range(rnd.choice([0, 1, 2, 4]))]
            else:
                kw[f.name] = pick_inner()
        elif repeated:
            kw[f.name] = [pick(meta.proto_type) for _ in range(rnd.choice([0, 1, 2, 5, 40]))]
        else:
            kw[f.name] = pick(meta.proto_type)
    if oneofs:
        f = rnd.choice(oneofs)
        meta = betterproto.FieldMetadata.get(f)
        kw[f.name] = pick_inner() if meta.proto_type == TYPE_MESSAGE else pick(meta.proto_type)
    return Big(**kw)


byte_compared = []


def same_float(a, b):
    return a == b or (isinstance(a, float) and isinstance(b, float) and math.isnan(a) and math.isnan(b))


def check_against_google(m: Big, data: bytes) -> None:
    import dataclasses as dc
    g = GBig.FromString(data)  # google must accept our bytes ...
    for f in dc.fields(Big):
        meta = betterproto.FieldMetadata.get(f)
        try:
            v = getattr(m, f.name)
        except AttributeError:
            assert g.WhichOneof("one") != f.name
            continue
        gv = getattr(g, f.name)
        if meta.group:
            assert g.WhichOneof("one") == f.name
        if meta.optional:
            assert g.HasField(f.name) == (v is not None), f.name
            if v is None:
                continue
        if meta.proto_type == TYPE_MAP:
            assert set(gv.keys()) == set(v.keys()), f.name
            for k, x in v.items():
                if meta.map_types[1] == TYPE_MESSAGE:
                    assert (gv[k].a, gv[k].b) == (x.a, x.b)
                else:
                    assert same_float(gv[k], x), (f.name, k)
        elif f.name == "ts":
            assert gv.seconds * 10**9 + gv.nanos == ((v - datetime(1970, 1, 1, tzinfo=timezone.utc))
                                                     // timedelta(microseconds=1)) * 1000
        elif f.name == "dur":
            assert gv.seconds * 10**9 + gv.nanos == (v // timedelta(microseconds=1)) * 1000
        elif meta.wraps:
            assert g.HasField(f.name) == (v is not None)
            if v is not None:
                assert gv.value == v
        elif meta.proto_type == TYPE_MESSAGE:
            if isinstance(v, list):
                assert [(x.a, x.b) for x in gv] == [(x.a, x.b) for x in v]
            else:
                assert (gv.a, gv.b) == (v.a, v.b)
                if betterproto.serialized_on_wire(v):
                    assert g.HasField(f.name)
        elif isinstance(v, list):
            assert len(gv) == len(v) and all(same_float(a, b) for a, b in zip(gv, v)), f.name
        else:
            assert same_float(gv, v), (f.name, gv, v)
    # ... and produce the very same bytes, provided there is at most one entry per map
    # (google orders map entries itself) and no map entry has an empty string / bytes /
    # message as key or value (google writes those explicitly, betterproto omits them;
    # both forms decode to the same entry).
    maps = [getattr(m, n) for n in ("m_str_int", "m_int_msg", "m_bool_bytes", "m_fix_dbl", "m_u32_enum")]
    if all(len(d) <= 1 for d in maps) and not any(
        k == "" or (isinstance(x, (bytes, betterproto.Message)) and not bytes(x))
        for d in maps for k, x in d.items()
    ):
        assert g.SerializeToString(deterministic=True) == data
        byte_compared.append(1)


def roundtrip(m: Big) -> None:
    data = bytes(m)
    assert len(m) == len(data), "len(m) disagrees with len(bytes(m))"
    back = Big().parse(data)
    assert back == m
    assert betterproto.which_one_of(back, "one") == betterproto.which_one_of(m, "one")
    for n in ("o_int32", "o_string", "o_bytes", "o_msg", "o_double", "o_enum", "w_int", "w_str", "w_bool"):
        assert (getattr(back, n) is None) == (getattr(m, n) is None), n
    assert bytes(back) == data
    assert len(back) == len(data)
    check_against_google(m, data)



# ---------------------------------------------------------------- direct decoder checks
def ref_post_varint(proto_type, raw):
    """What a decoded varint ``raw`` (0 <= raw < 2**64) means for each varint type."""
    if proto_type == TYPE_INT64:
        return struct.unpack("<q", struct.pack("<Q", raw % 2**64))[0]
    if proto_type in (TYPE_INT32, TYPE_ENUM):
        return struct.unpack("<i", struct.pack("<I", raw % 2**32))[0]
    if proto_type in (TYPE_SINT32, TYPE_SINT64):
        return raw // 2 if raw % 2 == 0 else -(raw // 2) - 1
    if proto_type == TYPE_BOOL:
        return raw != 0
    assert proto_type in (TYPE_UINT32, TYPE_UINT64)
    return raw


RAW = sorted(set(
    [0, 1, 2, 3, 126, 127, 128, 129, 255, 256, 16383, 16384]
    + [2**k + d for k in (7, 8, 15, 16, 30, 31, 32, 33, 62, 63) for d in (-2, -1, 0, 1, 2)]
    + [2**64 - d for d in (1, 2, 3, 127, 128, 129, 2**31 - 1, 2**31, 2**31 + 1, 2**32 - 1, 2**32, 2**32 + 1,
                           2**63 - 1)]
    + [rnd.getrandbits(rnd.randint(1, 64)) for _ in range(3000)]
))
assert all(0 <= r < 2**64 for r in RAW)

META = Big._betterproto.meta_by_field_name
VARINT_FIELDS = {
    TYPE_INT32: ["f_int32", "r_int32", "o_int32"], TYPE_INT64: ["f_int64", "r_int64"],
    TYPE_UINT32: ["f_uint32", "r_uint32"], TYPE_UINT64: ["f_uint64", "r_uint64"],
    TYPE_SINT32: ["f_sint32", "r_sint32"], TYPE_SINT64: ["f_sint64", "r_sint64", "one_int"],
    TYPE_BOOL: ["f_bool", "r_bool"], TYPE_ENUM: ["f_enum", "r_enum", "o_enum", "one_enum"],
}
probe = Big()
n_direct = 0
for proto_type, names in VARINT_FIELDS.items():
    for name in names:
        meta = META[name]
        assert meta.proto_type == proto_type
        for raw in RAW:
            got = probe._postprocess_single(WIRE_VARINT, meta, name, raw)
            want = ref_post_varint(proto_type, raw)
            assert got == want, (name, raw, got, want)
            if proto_type == TYPE_ENUM:
                assert type(got) is Color and got.value == want
                if want in (0, 1, -1, -(2**31)):
                    assert got is Color(want) and got.name is not None
                else:
                    assert got.name is None
            elif proto_type == TYPE_BOOL:
                assert type(got) is bool
            else:
                assert type(got) is int
            n_direct += 1

FIXED_FIELDS = {
    "f_fixed32": ("<I", 4, WIRE_FIXED_32), "f_sfixed32": ("<i", 4, WIRE_FIXED_32), "f_float": ("<f", 4, WIRE_FIXED_32),
    "r_fixed32": ("<I", 4, WIRE_FIXED_32), "r_sfixed32": ("<i", 4, WIRE_FIXED_32), "r_float": ("<f", 4, WIRE_FIXED_32),
    "one_fix": ("<I", 4, WIRE_FIXED_32),
    "f_fixed64": ("<Q", 8, WIRE_FIXED_64), "f_sfixed64": ("<q", 8, WIRE_FIXED_64), "f_double": ("<d", 8, WIRE_FIXED_64),
    "r_fixed64": ("<Q", 8, WIRE_FIXED_64), "r_sfixed64": ("<q", 8, WIRE_FIXED_64), "r_double": ("<d", 8, WIRE_FIXED_64),
    "o_double": ("<d", 8, WIRE_FIXED_64),
}
PATTERNS = [b"\x00", b"\xff", b"\x80", b"\x7f", b"\x01"]
for name, (fmt, size, wt) in FIXED_FIELDS.items():
    raws = [p * size for p in PATTERNS] + [b"\x00" * (size - 1) + b"\x80", b"\xff" * (size - 1) + b"\x7f",
                                            b"\x00" * (size - 2) + b"\x80\x7f", b"\x00" * (size - 2) + b"\x80\xff",
                                            b"\x00" * (size - 2) + b"\xc0\x7f", b"\x00" * (size - 2) + b"\xf0\x7f",
                                            b"\x00" * (size - 2) + b"\xf0\xff", b"\x00" * (size - 2) + b"\xf8\x7f"]
    raws += [bytes(rnd.getrandbits(8) for _ in range(size)) for _ in range(300)]
    for raw in raws:
        got = probe._postprocess_single(wt, META[name], name, raw)
        want = struct.unpack(fmt, raw)[0]
        assert type(got) is type(want)
        assert got == want or (want != want and got != got), (name, raw, got, want)
        if isinstance(want, float):
            assert struct.pack(fmt, got) == struct.pack(fmt, want)  # same bits, incl. NaN payload / -0.0
        n_direct += 1

# length-delimited payloads
for s in STRINGS:
    for name in ("f_string", "r_string", "o_string", "one_str"):
        got = probe._postprocess_single(WIRE_LEN_DELIM, META[name], name, s.encode("utf-8"))
        assert type(got) is str and got == s
for bad in (b"\xff", b"\xc3", b"\xed\xa0\x80"):
    try:
        probe._postprocess_single(WIRE_LEN_DELIM, META["f_string"], "f_string", bad)
    except UnicodeDecodeError:
        pass
    else:
        raise AssertionError("invalid UTF-8 accepted")
for b in BYTESES:
    for name in ("f_bytes", "r_bytes", "o_bytes", "one_bytes"):
        assert probe._postprocess_single(WIRE_LEN_DELIM, META[name], name, b) is b
for name in ("f_msg", "r_msg", "o_msg", "one_msg"):
    for payload, (a, b) in [(b"", (0, "")), (b"\x08\x05", (5, "")), (b"\x82\x01\x01x", (0, "x")),
                            (b"\x08\xff\xff\xff\xff\xff\xff\xff\xff\xff\x01\x82\x01\x04\xf0\x9f\x98\x80", (-1, "\U0001F600")),
                            (b"\x08\x00\x82\x01\x00", (0, ""))]:
        got = probe._postprocess_single(WIRE_LEN_DELIM, META[name], name, payload)
        assert type(got) is Inner and (got.a, got.b) == (a, b)
        assert betterproto.serialized_on_wire(got) is True  # presence, also for an empty payload
        assert bytes(got) == (b"" if (a, b) == (0, "") else payload)
# map entries: the synthetic Entry message has key and value decoded by their own types
entry = probe._postprocess_single(WIRE_LEN_DELIM, META["m_str_int"], "m_str_int", b"\x0a\x01k\x10\x03")
assert (entry.key, entry.value) == ("k", -2)
entry = probe._postprocess_single(WIRE_LEN_DELIM, META["m_str_int"], "m_str_int", b"")
assert (entry.key, entry.value) == ("", 0)
entry = probe._postprocess_single(WIRE_LEN_DELIM, META["m_int_msg"], "m_int_msg",
                                  b"\x08\xff\xff\xff\xff\xff\xff\xff\xff\xff\x01\x12\x02\x08\x07")
assert entry.key == -1 and type(entry.value) is Inner and entry.value.a == 7
entry = probe._postprocess_single(WIRE_LEN_DELIM, META["m_bool_bytes"], "m_bool_bytes", b"\x08\x01\x12\x02\x00\xff")
assert entry.key is True and entry.value == b"\x00\xff"
entry = probe._postprocess_single(WIRE_LEN_DELIM, META["m_fix_dbl"], "m_fix_dbl",
                                  b"\x09" + struct.pack("<Q", 2**64 - 1) + b"\x11" + struct.pack("<d", -2.5))
assert (entry.key, entry.value) == (2**64 - 1, -2.5)
entry = probe._postprocess_single(WIRE_LEN_DELIM, META["m_u32_enum"], "m_u32_enum",
                                  b"\x08\x09\x10\xff\xff\xff\xff\xff\xff\xff\xff\xff\x01")
assert entry.key == 9 and entry.value is Color.NEG
# wrappers, Timestamp, Duration decode to python values
assert probe._postprocess_single(WIRE_LEN_DELIM, META["w_int"], "w_int", b"") == 0
assert probe._postprocess_single(WIRE_LEN_DELIM, META["w_int"], "w_int", b"\x08\x80\x80\x80\x80\x80\x80\x80\x80\x80\x01") == -(2**63)
assert probe._postprocess_single(WIRE_LEN_DELIM, META["w_str"], "w_str", b"") == ""
assert probe._postprocess_single(WIRE_LEN_DELIM, META["w_str"], "w_str", b"\x0a\x02hi") == "hi"
assert probe._postprocess_single(WIRE_LEN_DELIM, META["w_bool"], "w_bool", b"") is False
assert probe._postprocess_single(WIRE_LEN_DELIM, META["w_bool"], "w_bool", b"\x08\x01") is True
EPOCH = datetime(1970, 1, 1, tzinfo=timezone.utc)
assert probe._postprocess_single(WIRE_LEN_DELIM, META["ts"], "ts", b"") == EPOCH
assert probe._postprocess_single(WIRE_LEN_DELIM, META["ts"], "ts", b"\x08\x01\x10\xe8\x07") == EPOCH + timedelta(seconds=1, microseconds=1)
assert probe._postprocess_single(
    WIRE_LEN_DELIM, META["ts"], "ts", b"\x08\xff\xff\xff\xff\xff\xff\xff\xff\xff\x01\x10\x80\xca\xb5\xee\x01"
) == EPOCH - timedelta(microseconds=500000)
assert probe._postprocess_single(WIRE_LEN_DELIM, META["dur"], "dur", b"") == timedelta(0)
assert probe._postprocess_single(WIRE_LEN_DELIM, META["dur"], "dur", b"\x08\x03\x10\xe8\x07") == timedelta(seconds=3, microseconds=1)
assert probe._postprocess_single(
    WIRE_LEN_DELIM, META["dur"], "dur",
    b"\x08\xff\xff\xff\xff\xff\xff\xff\xff\xff\x01\x10\x80\xb6\xca\x91\xfe\xff\xff\xff\xff\x01",
) == timedelta(seconds=-1, microseconds=-500000)
# a payload whose wire type the method does not interpret is handed back untouched
for wt in (3, 4, 6, 7):
    for name in ("f_int32", "f_string", "f_msg", "f_float", "m_str_int", "f_enum"):
        token = object()
        assert probe._postprocess_single(wt, META[name], name, token) is token
for name in ("f_int32", "f_enum", "f_bool", "f_sint64", "f_float", "f_double"):
    token = b"\x01\x02\x03\x04"
    assert probe._postprocess_single(WIRE_LEN_DELIM, META[name], name, token) is token
assert probe == Big() and bytes(probe) == b""  # decoding helpers do not touch the instance


# ---------------------------------------------------------------- hand-made wire data
def key(number, wire_type):
    return ref_varint(number << 3 | wire_type)


def varint_raw(raw):  # 0 <= raw < 2**64, canonical length
    return ref_varint(raw)


n_wire = 0
for raw in RAW[:: max(1, len(RAW) // 700)] + [2**32 - 1, 2**31, 2**63, 2**64 - 1, 2**64 - 2**31, 2]:
    data = b"".join([
        key(1, 0) + varint_raw(raw), key(2, 0) + varint_raw(raw), key(3, 0) + varint_raw(raw),
        key(4, 0) + varint_raw(raw), key(5, 0) + varint_raw(raw), key(6, 0) + varint_raw(raw),
        key(13, 0) + varint_raw(raw), key(16, 0) + varint_raw(raw),
        # packed runs (two chunks) and an unpacked element of repeated fields
        key(21, 2) + ref_varint(len(varint_raw(raw)) * 2) + varint_raw(raw) * 2,
        key(21, 0) + varint_raw(raw),
        key(22, 2) + ref_varint(len(varint_raw(raw)) + 1) + varint_raw(raw) + b"\x00",
        key(26, 2) + ref_varint(len(varint_raw(raw))) + varint_raw(raw),
        key(33, 2) + ref_varint(len(varint_raw(raw)) + 1) + b"\x00" + varint_raw(raw),
        key(36, 2) + ref_varint(len(varint_raw(raw))) + varint_raw(raw),
        key(36, 0) + varint_raw(raw),
        key(41, 0) + varint_raw(raw), key(46, 0) + varint_raw(raw), key(56, 0) + varint_raw(raw),
        key(65, 2) + ref_varint(3 + len(varint_raw(raw))) + b"\x08\x01\x10" + varint_raw(raw),
    ])
    m = Big().parse(data)
    i32, i64 = ref_post_varint(TYPE_INT32, raw), ref_post_varint(TYPE_INT64, raw)
    s = ref_post_varint(TYPE_SINT64, raw)
    assert (m.f_int32, m.f_int64, m.f_uint32, m.f_uint64, m.f_sint32, m.f_sint64) == (i32, i64, raw, raw, s, s)
    assert m.f_bool is (raw != 0) and type(m.f_enum) is Color and m.f_enum == i32
    assert m.r_int32 == [i32, i32, i32] and m.r_int64 == [i64, 0] and m.r_sint64 == [s]
    assert m.r_bool == [False, raw != 0] and m.r_enum == [i32, i32] and all(type(e) is Color for e in m.r_enum)
    assert m.o_int32 == i32 and m.o_enum == i32 and type(m.o_enum) is Color
    assert betterproto.which_one_of(m, "one") == ("one_enum", Color.try_value(i32))
    assert m.m_u32_enum == {1: i32} and type(m.m_u32_enum[1]) is Color
    # google.protobuf reads the same numbers out of these bytes (uint32 excepted: it
    # truncates values that do not fit, betterproto keeps them)
    g = GBig.FromString(data)
    assert (g.f_int32, g.f_int64, g.f_uint64, g.f_sint64, g.f_bool, g.f_enum) == (i32, i64, raw, s, raw != 0, i32)
    assert list(g.r_int32) == m.r_int32 and list(g.r_int64) == m.r_int64 and list(g.r_sint64) == m.r_sint64
    assert list(g.r_bool) == m.r_bool and list(g.r_enum) == m.r_enum
    assert g.o_int32 == i32 and g.o_enum == i32 and g.WhichOneof("one") == "one_enum" and g.one_enum == i32
    assert dict(g.m_u32_enum) == m.m_u32_enum
    n_wire += 1

# the shorter, not sign-extended spelling of negative int32 / enum numbers
m = Big().parse(b"\x08\xff\xff\xff\xff\x0f" + b"\x80\x01\xff\xff\xff\xff\x0f" + b"\x10\xff\xff\xff\xff\x0f")
assert m.f_int32 == -1 and m.f_enum is Color.NEG and m.f_int64 == 2**32 - 1
m = Big().parse(b"\x08\x80\x80\x80\x80\x08" + b"\x80\x01\x80\x80\x80\x80\x08")
assert m.f_int32 == -(2**31) and m.f_enum is Color.LOW


# ---------------------------------------------------------------- round trips
for _ in range(1500):
    roundtrip(random_big())
assert len(byte_compared) > 300

for m in [
    Big(), Big(one_int=0), Big(one_str=""), Big(one_bytes=b""), Big(one_msg=Inner()), Big(one_fix=0),
    Big(one_enum=Color.BLACK), Big(o_int32=0), Big(o_string=""), Big(o_bytes=b""), Big(o_msg=Inner()),
    Big(o_double=0.0), Big(o_enum=Color.BLACK), Big(w_int=0), Big(w_str=""), Big(w_bool=False),
    Big(f_msg=Inner()), Big(r_msg=[Inner(), Inner()]), Big(r_string=["", ""]), Big(r_bytes=[b"", b"x", b""]),
    Big(m_str_int={"": 0}), Big(m_int_msg={0: Inner()}), Big(m_bool_bytes={False: b""}),
    Big(m_fix_dbl={0: 0.0}), Big(m_u32_enum={0: Color.BLACK}), Big(far=1), Big(far=-1),
    Big(f_int32=-(2**31), f_int64=-(2**63), f_enum=Color.LOW, r_int32=[-(2**31)], r_int64=[-(2**63)],
        r_enum=[Color.LOW, Color.NEG], o_int32=-(2**31), o_enum=Color.LOW, w_int=-(2**63)),
    Big(f_int32=2**31 - 1, f_int64=2**63 - 1, f_uint64=2**64 - 1, f_sint32=-(2**31), f_sint64=-(2**63),
        f_sfixed32=-(2**31), f_sfixed64=-(2**63), f_fixed64=2**64 - 1, one_int=-(2**63)),
    Big(f_string="z" * 20000, f_bytes=bytes(70000)), Big(r_int64=[-1] * 3000),
]:
    roundtrip(m)
    # bytes written by google.protobuf for the same message decode to an equal message
    g = GBig.FromString(bytes(m))
    again = Big().parse(g.SerializeToString())
    assert again == m
    assert betterproto.which_one_of(again, "one") == betterproto.which_one_of(m, "one")

# presence of nested messages survives the round trip
back = Big().parse(bytes(Big().parse(b"\x8a\x01\x00")))
assert betterproto.serialized_on_wire(back.f_msg) and bytes(back) == b"\x8a\x01\x00"
assert not betterproto.serialized_on_wire(Big().parse(b"").f_msg)

# NaN: message equality is NaN aware for singular fields; bits of NaN survive in doubles
m = Big(f_float=math.nan, f_double=math.nan, o_double=math.nan)
back = Big().parse(bytes(m))
assert back == m and bytes(back) == bytes(m) and math.isnan(back.f_float) and math.isnan(back.o_double)

print(f"keep2 equiv: {n_direct} direct decoder cases, {n_wire} hand-made wire messages, "
      f"1500+ random round trips OK ({len(byte_compared)} byte-identical to google.protobuf)")
