"""Equivalence check for the wire-type gate of Message.load (_wire_type_matches and the
routing of fields to _unknown_fields).

1. _wire_type_matches is compared exhaustively with an oracle spelled out as the
   original if-chain (all wire types -2..9, all proto types + bogus ones, both flags).
2. Message.load is driven with hand-framed fields: every field kind (all scalar types,
   singular and repeated, string/bytes/message/map) x every wire type, plus numbers the
   message does not define.  Accepted fields must land in the field, all others must be
   kept byte for byte and in order in _unknown_fields, and re-encoding must give
   known fields followed by those bytes.
3. Random round trips parse(bytes(m)) == m, cross-checked with google.protobuf
   (dynamic messages built from a FileDescriptorProto): both libraries decode each
   other's bytes to the same values, and betterproto re-encodes what it parsed.
"""
import random
import struct
from dataclasses import dataclass
from typing import Dict, List, Optional

import betterproto
from betterproto import (
    TYPE_BOOL,
    TYPE_BYTES,
    TYPE_DOUBLE,
    TYPE_ENUM,
    TYPE_FIXED32,
    TYPE_FIXED64,
    TYPE_FLOAT,
    TYPE_INT32,
    TYPE_INT64,
    TYPE_MAP,
    TYPE_MESSAGE,
    TYPE_SFIXED32,
    TYPE_SFIXED64,
    TYPE_SINT32,
    TYPE_SINT64,
    TYPE_STRING,
    TYPE_UINT32,
    TYPE_UINT64,
    _wire_type_matches,
    encode_varint,
)

VARINT_T = [TYPE_ENUM, TYPE_BOOL, TYPE_INT32, TYPE_INT64, TYPE_UINT32, TYPE_UINT64,
            TYPE_SINT32, TYPE_SINT64]
FIX32_T = [TYPE_FLOAT, TYPE_FIXED32, TYPE_SFIXED32]
FIX64_T = [TYPE_DOUBLE, TYPE_FIXED64, TYPE_SFIXED64]
LEN_T = [TYPE_STRING, TYPE_BYTES, TYPE_MESSAGE, TYPE_MAP]
PACKED_T = VARINT_T + FIX32_T + FIX64_T
ALL_T = VARINT_T + FIX32_T + FIX64_T + LEN_T


def oracle(wire_type, proto_type, repeated):
    if wire_type == 0:
        return proto_type in VARINT_T
    if wire_type == 5:
        return proto_type in FIX32_T
    if wire_type == 1:
        return proto_type in FIX64_T
    if wire_type == 2:
        return proto_type in LEN_T or (repeated and proto_type in PACKED_T)
    return False


# ---------------------------------------------------------------- 1. the predicate
n = 0
for wt in range(-2, 10):
    for pt in ALL_T + ["group", "", "Int32", "unknown"]:
        for rep in (False, True):
            got = _wire_type_matches(wt, pt, rep)
            assert got is oracle(wt, pt, rep), (wt, pt, rep, got)
            n += 1
assert n == 12 * 22 * 2


# ---------------------------------------------------------------- 2. Message.load
class Colour(betterproto.Enum):
    ZERO = 0
    ONE = 1
    NEG = -1


@dataclass(eq=False, repr=False)
class Sub(betterproto.Message):
    x: int = betterproto.int32_field(1)


SCALARS = [
    ("enum", TYPE_ENUM, "Colour"), ("bool", TYPE_BOOL, "bool"),
    ("int32", TYPE_INT32, "int"), ("int64", TYPE_INT64, "int"),
    ("uint32", TYPE_UINT32, "int"), ("uint64", TYPE_UINT64, "int"),
    ("sint32", TYPE_SINT32, "int"), ("sint64", TYPE_SINT64, "int"),
    ("float", TYPE_FLOAT, "float"), ("fixed32", TYPE_FIXED32, "int"),
    ("sfixed32", TYPE_SFIXED32, "int"), ("double", TYPE_DOUBLE, "float"),
    ("fixed64", TYPE_FIXED64, "int"), ("sfixed64", TYPE_SFIXED64, "int"),
]

# Build the message class with one singular and one repeated field per scalar type,
# plus string / bytes / message / map fields (singular, repeated, optional, oneof).
src = ["@dataclass(eq=False, repr=False)", "class Every(betterproto.Message):"]
KINDS = {}  # number -> (name, proto_type, repeated)
num = 1
for name, pt, py in SCALARS:
    src.append(f"    s_{name}: {py} = betterproto.{pt}_field({num})")
    KINDS[num] = (f"s_{name}", pt, False)
    num += 1
    src.append(f"    r_{name}: List[{py}] = betterproto.{pt}_field({num})")
    KINDS[num] = (f"r_{name}", pt, True)
    num += 1
for line, name, pt, rep in [
    ("s_string: str = betterproto.string_field({n})", "s_string", TYPE_STRING, False),
    ("r_string: List[str] = betterproto.string_field({n})", "r_string", TYPE_STRING, True),
    ("s_bytes: bytes = betterproto.bytes_field({n})", "s_bytes", TYPE_BYTES, False),
    ("r_bytes: List[bytes] = betterproto.bytes_field({n})", "r_bytes", TYPE_BYTES, True),
    ("s_msg: Sub = betterproto.message_field({n})", "s_msg", TYPE_MESSAGE, False),
    ("r_msg: List[Sub] = betterproto.message_field({n})", "r_msg", TYPE_MESSAGE, True),
    ("m_map: Dict[int, int] = betterproto.map_field({n}, 'int32', 'sint64')", "m_map", TYPE_MAP, False),
    ("o_int: Optional[int] = betterproto.int32_field({n}, optional=True)", "o_int", TYPE_INT32, False),
    ("o_str: Optional[str] = betterproto.string_field({n}, optional=True)", "o_str", TYPE_STRING, False),
    ("g_a: int = betterproto.fixed32_field({n}, group='g')", "g_a", TYPE_FIXED32, False),
    ("g_b: str = betterproto.string_field({n}, group='g')", "g_b", TYPE_STRING, False),
    ("w_i: Optional[int] = betterproto.message_field({n}, wraps='int64')", "w_i", TYPE_MESSAGE, False),
]:
    src.append("    " + line.format(n=num))
    KINDS[num] = (name, pt, rep)
    num += 1
ns = dict(globals())
exec("\n".join(src), ns)
Every = ns["Every"]
Every.__module__ = __name__
globals()["Every"] = Every

PAYLOADS = {
    0: [encode_varint(0), encode_varint(1), encode_varint(300), encode_varint(2**64 - 1)],
    # (bit patterns that are not NaN when read as float / double)
    1: [struct.pack("<q", -(2**63)), struct.pack("<q", 2**62 + 5), bytes(8), struct.pack("<d", 1.5)],
    5: [struct.pack("<i", -(2**31)), struct.pack("<i", 2**30 + 5), bytes(4), struct.pack("<f", 1.5)],
    # length-delimited payloads that are valid for every LEN_DELIM / packed reading:
    # empty, and 8 zero bytes (packed varints, 2 fixed32, 1 fixed64, a string,
    # bytes, a message with... no: b"\x08\x00" * 4 = Sub(x=0) merged 4 times)
    2: [b"\x00", b"\x08" + b"\x08\x00" * 4],
}


def frame(number, wire_type, payload):
    return encode_varint((number << 3) | wire_type) + payload


def default_state(m):
    return {name: m._Message__raw_get(name) for name in m._betterproto.meta_by_field_name}


cases = 0
for number, (name, pt, rep) in sorted(KINDS.items()):
    for wt, payloads in PAYLOADS.items():
        for payload in payloads:
            raw = frame(number, wt, payload)
            prefix = frame(1000, 0, b"\x07")  # a number Every does not define
            suffix = frame(2000, 2, b"\x03abc") + frame(3000, 5, b"wxyz") + frame(3001, 1, b"12345678")
            data = prefix + raw + suffix
            msg = Every().parse(data)
            accepted = oracle(wt, pt, rep)
            if accepted:
                assert msg._unknown_fields == prefix + suffix, (name, wt, payload)
                assert msg._Message__raw_get(name) is not betterproto.PLACEHOLDER, (name, wt)
                if name.startswith("g_"):
                    assert betterproto.which_one_of(msg, "g")[0] == name
                if name.startswith("o_") or name.startswith("w_"):
                    assert getattr(msg, name) is not None
                if rep and pt in PACKED_T and wt == 2:
                    assert isinstance(getattr(msg, name), list)
            else:
                assert msg._unknown_fields == data, (name, wt, payload)
                fresh = Every()
                assert msg == fresh
                assert betterproto.which_one_of(msg, "g") == ("", None)
                assert msg.o_int is None and msg.o_str is None and msg.w_i is None
                # nothing was stored at all
                assert all(
                    v is betterproto.PLACEHOLDER or v is None
                    for k, v in default_state(msg).items()
                ), (name, wt)
            # what was parsed is re-encoded: known fields first, then the unknown bytes
            again = bytes(msg)
            assert again.endswith(msg._unknown_fields)
            back = Every().parse(again)
            assert back == msg, (name, wt, payload, back, msg)
            assert back._unknown_fields == msg._unknown_fields
            assert bytes(back) == again
            assert len(msg) == len(again)
            cases += 1
assert cases == len(KINDS) * sum(len(v) for v in PAYLOADS.values())

# a few exact decodes through the gate
m = Every().parse(frame(6, 2, b"\x03\x01\x02\x03") + frame(6, 0, b"\x7f") + frame(5, 2, b"\x01\x05"))
assert m.r_int32 == [1, 2, 3, 127] and m.s_int32 == 0
assert m._unknown_fields == frame(5, 2, b"\x01\x05")  # singular int32 is never packed
m = Every().parse(frame(17, 5, struct.pack("<f", 2.5)) + frame(18, 2, b"\x08" + struct.pack("<ff", 1.0, -1.0)))
assert m.s_float == 2.5 and m.r_float == [1.0, -1.0] and m._unknown_fields == b""
m = Every().parse(frame(17, 1, bytes(8)) + frame(23, 5, bytes(4)))
assert m.s_float == 0.0 and m.s_double == 0.0
assert m._unknown_fields == frame(17, 1, bytes(8)) + frame(23, 5, bytes(4))


# ---------------------------------------------------------------- 3. round trips vs google.protobuf
from google.protobuf import descriptor_pb2, descriptor_pool, message_factory  # noqa: E402

F = descriptor_pb2.FieldDescriptorProto
GTYPE = {
    TYPE_ENUM: F.TYPE_ENUM, TYPE_BOOL: F.TYPE_BOOL, TYPE_INT32: F.TYPE_INT32,
    TYPE_INT64: F.TYPE_INT64, TYPE_UINT32: F.TYPE_UINT32, TYPE_UINT64: F.TYPE_UINT64,
    TYPE_SINT32: F.TYPE_SINT32, TYPE_SINT64: F.TYPE_SINT64, TYPE_FLOAT: F.TYPE_FLOAT,
    TYPE_FIXED32: F.TYPE_FIXED32, TYPE_SFIXED32: F.TYPE_SFIXED32, TYPE_DOUBLE: F.TYPE_DOUBLE,
    TYPE_FIXED64: F.TYPE_FIXED64, TYPE_SFIXED64: F.TYPE_SFIXED64, TYPE_STRING: F.TYPE_STRING,
    TYPE_BYTES: F.TYPE_BYTES,
}
fdp = descriptor_pb2.FileDescriptorProto(name="equiv_keep1.proto", package="eq1", syntax="proto3")
e = fdp.enum_type.add(name="Colour")
for k, v in (("ZERO", 0), ("ONE", 1), ("NEG", -1)):
    e.value.add(name=k, number=v)
sub = fdp.message_type.add(name="Sub")
sub.field.add(name="x", number=1, type=F.TYPE_INT32, label=F.LABEL_OPTIONAL)
ev = fdp.message_type.add(name="Every")
for number, (name, pt, rep) in sorted(KINDS.items()):
    if name in ("m_map", "o_int", "o_str", "g_a", "g_b", "w_i"):
        continue
    f = ev.field.add(name=name, number=number, label=F.LABEL_REPEATED if rep else F.LABEL_OPTIONAL)
    if pt == TYPE_MESSAGE:
        f.type, f.type_name = F.TYPE_MESSAGE, ".eq1.Sub"
    else:
        f.type = GTYPE[pt]
        if pt == TYPE_ENUM:
            f.type_name = ".eq1.Colour"
pool = descriptor_pool.DescriptorPool()
pool.Add(fdp)
GEvery = message_factory.GetMessageClass(pool.FindMessageTypeByName("eq1.Every"))

rng = random.Random(20261005)
I32 = [0, 1, -1, 127, 128, 2**31 - 1, -(2**31), 300, -300]
I64 = I32 + [2**63 - 1, -(2**63), 2**32, -(2**32) - 1]
U32 = [0, 1, 127, 128, 2**32 - 1, 2**31]
U64 = U32 + [2**64 - 1, 2**63, 2**32]
F32 = [0.0, 1.5, -2.25, float("inf"), float("-inf"), 2.0**-149, 3.4028234663852886e38]
F64 = F32 + [1e308, -5e-324, 0.1]
STR = ["", "a", "hé", "\U0001f600x", "z" * 200]
BYT = [b"", b"\x00", b"\xff" * 130, b"abc"]
GEN = {
    TYPE_ENUM: lambda: Colour.try_value(rng.choice([0, 1, -1, 7, -9, 2**31 - 1, -(2**31)])),
    TYPE_BOOL: lambda: rng.choice([False, True]),
    TYPE_INT32: lambda: rng.choice(I32), TYPE_INT64: lambda: rng.choice(I64),
    TYPE_UINT32: lambda: rng.choice(U32), TYPE_UINT64: lambda: rng.choice(U64),
    TYPE_SINT32: lambda: rng.choice(I32), TYPE_SINT64: lambda: rng.choice(I64),
    TYPE_FLOAT: lambda: rng.choice(F32), TYPE_FIXED32: lambda: rng.choice(U32),
    TYPE_SFIXED32: lambda: rng.choice(I32), TYPE_DOUBLE: lambda: rng.choice(F64),
    TYPE_FIXED64: lambda: rng.choice(U64), TYPE_SFIXED64: lambda: rng.choice(I64),
    TYPE_STRING: lambda: rng.choice(STR), TYPE_BYTES: lambda: rng.choice(BYT),
    TYPE_MESSAGE: lambda: Sub(x=rng.choice(I32)),
}


def to_plain(v):
    if isinstance(v, betterproto.Message):
        return ("Sub", int(v.x))
    if isinstance(v, bool):
        return v
    if isinstance(v, int):
        return int(v)
    return v


def g_plain(v):
    if hasattr(v, "DESCRIPTOR"):
        return ("Sub", v.x)
    return v


for _ in range(400):
    kwargs = {}
    for number, (name, pt, rep) in KINDS.items():
        if rng.random() < 0.5:
            continue
        if name == "m_map":
            kwargs[name] = {rng.choice(I32): rng.choice(I64) for _ in range(rng.randrange(4))}
        elif name == "w_i":
            kwargs[name] = rng.choice(I64)
        elif name in ("g_a", "g_b"):
            if "g_a" in kwargs or "g_b" in kwargs:
                continue
            kwargs[name] = GEN[pt]()
        elif rep:
            kwargs[name] = [GEN[pt]() for _ in range(rng.randrange(5))]
        else:
            kwargs[name] = GEN[pt]()
    m = Every(**kwargs)
    data = bytes(m)
    assert len(m) == len(data)
    back = Every().parse(data)
    assert back == m, kwargs
    assert back._unknown_fields == b""
    assert bytes(back) == data
    assert betterproto.which_one_of(back, "g")[0] == betterproto.which_one_of(m, "g")[0]
    for name in ("o_int", "o_str", "w_i"):
        assert (getattr(back, name) is None) == (getattr(m, name) is None)
    assert betterproto.serialized_on_wire(back.s_msg) == betterproto.serialized_on_wire(m.s_msg)

    # google.protobuf reads the same values (fields it knows) ...
    g = GEvery()
    g.ParseFromString(data)
    for number, (name, pt, rep) in KINDS.items():
        if name in ("m_map", "o_int", "o_str", "g_a", "g_b", "w_i"):
            continue
        ours = getattr(m, name)
        theirs = getattr(g, name)
        if rep:
            assert [to_plain(v) for v in ours] == [g_plain(v) for v in theirs], name
        elif pt == TYPE_MESSAGE:
            assert to_plain(ours) == g_plain(theirs), name
        else:
            assert to_plain(ours) == theirs, (name, ours, theirs)
    # ... and betterproto reads google's bytes back to the same message
    for name in ("m_map", "o_int", "o_str", "g_a", "g_b", "w_i"):
        kwargs.pop(name, None)
    m2 = Every(**kwargs)
    g2 = GEvery()
    g2.ParseFromString(bytes(m2))
    back2 = Every().parse(g2.SerializeToString())
    assert back2 == m2, kwargs
    assert back2._unknown_fields == b""

print("ok", n, cases)
