"""Equivalence check for keep2: Message.__eq__ (merged conditions, local aliases) and
Message._get_field_default_gen (flattened into early returns).

Both feed the default-value test `value == self._get_field_default(name)` that
dump() and __len__ use to decide whether a field is written.  The script pins the
default generators for many kinds of annotations, compares `==` against an
independent reference over thousands of message pairs, pins wire bytes for the
default / empty-but-present cases and checks C09 on every value it builds."""
import itertools
import math
import random
import sys
from dataclasses import dataclass
from datetime import datetime, timedelta, timezone
from io import BytesIO
from typing import Dict, List, Optional, Union

import betterproto
from betterproto import PLACEHOLDER

NAN = float("nan")
NAN2 = -float("nan")


class Color(betterproto.Enum):
    ZERO = 0
    RED = 1
    NEG = -1


@dataclass(eq=False, repr=False)
class Leaf(betterproto.Message):
    n: int = betterproto.int32_field(1)
    f: float = betterproto.double_field(2)
    s: str = betterproto.string_field(3)


@dataclass(eq=False, repr=False)
class Empty(betterproto.Message):
    pass


@dataclass(eq=False, repr=False)
class Kinds(betterproto.Message):
    i: int = betterproto.int64_field(1)
    f: float = betterproto.float_field(2)
    s: str = betterproto.string_field(3)
    b: bytes = betterproto.bytes_field(4)
    flag: bool = betterproto.bool_field(5)
    e: Color = betterproto.enum_field(6)
    leaf: Leaf = betterproto.message_field(7)
    when: datetime = betterproto.message_field(8)
    span: timedelta = betterproto.message_field(9)
    opt_old: Optional[int] = betterproto.int32_field(10, optional=True)
    opt_new: "int | None" = betterproto.int32_field(11, optional=True)
    opt_union: Union[str, None] = betterproto.string_field(12, optional=True)
    wrapped: Optional[float] = betterproto.message_field(13, wraps=betterproto.TYPE_DOUBLE)
    rep_old: List[int] = betterproto.sint32_field(14)
    rep_new: "list[float]" = betterproto.double_field(15)
    rep_msg: List[Leaf] = betterproto.message_field(16)
    map_old: Dict[str, Leaf] = betterproto.map_field(17, betterproto.TYPE_STRING, betterproto.TYPE_MESSAGE)
    map_new: "dict[int, float]" = betterproto.map_field(18, betterproto.TYPE_INT32, betterproto.TYPE_DOUBLE)
    one_a: Leaf = betterproto.message_field(19, group="one")
    one_b: float = betterproto.double_field(20, group="one")
    one_c: Empty = betterproto.message_field(21, group="one")
    opt_leaf: Optional[Leaf] = betterproto.message_field(22, optional=True)
    rep_when: List[datetime] = betterproto.message_field(23)
    rep_enum: List[Color] = betterproto.enum_field(24)


@dataclass(eq=False, repr=False)
class Node(betterproto.Message):
    next: "Node" = betterproto.message_field(2)
    v: int = betterproto.int32_field(1)
    f: float = betterproto.double_field(3)


@dataclass(eq=False, repr=False)
class KindsChild(Kinds):
    pass


# ----------------------------------------------------------------- default generators
gen = Kinds._betterproto.default_gen
NoneType = type(None)
expected_gen = dict(
    i=int, f=float, s=str, b=bytes, flag=bool, leaf=Leaf, span=timedelta,
    opt_old=NoneType, opt_new=NoneType, opt_union=NoneType, wrapped=NoneType,
    rep_old=list, rep_new=list, rep_msg=list, map_old=dict, map_new=dict,
    one_a=Leaf, one_b=float, one_c=Empty, opt_leaf=NoneType, rep_when=list, rep_enum=list,
)
for name, g in expected_gen.items():
    assert gen[name] is g, (name, gen[name])
assert gen["when"] is betterproto.datetime_default_gen
assert gen["e"] == Color.try_value and gen["e"]() is Color.ZERO
assert list(gen) == [f for f in Kinds.__dataclass_fields__]
k = Kinds()
defaults = {name: k._get_field_default(name) for name in gen}
assert defaults == dict(
    i=0, f=0.0, s="", b=b"", flag=False, e=Color.ZERO, leaf=Leaf(),
    when=datetime(1970, 1, 1, tzinfo=timezone.utc), span=timedelta(0),
    opt_old=None, opt_new=None, opt_union=None, wrapped=None, rep_old=[], rep_new=[],
    rep_msg=[], map_old={}, map_new={}, one_a=Leaf(), one_b=0.0, one_c=Empty(),
    opt_leaf=None, rep_when=[], rep_enum=[],
)
for name, v in defaults.items():
    assert type(v) is (type(None) if expected_gen.get(name) is NoneType else type(v))
assert type(defaults["flag"]) is bool and type(defaults["i"]) is int and type(defaults["f"]) is float
assert type(defaults["rep_new"]) is list and type(defaults["map_new"]) is dict
assert k._get_field_default("rep_old") is not k._get_field_default("rep_old")
assert Node._betterproto.default_gen == {"next": Node, "v": int, "f": float}
assert KindsChild._betterproto.default_gen.keys() == gen.keys()


# a type hint that is neither a class nor a generic fails the same way
@dataclass(eq=False, repr=False)
class BadHint(betterproto.Message):
    x: "5" = betterproto.int32_field(1)  # noqa: F722

try:
    BadHint._betterproto
except TypeError:
    pass
else:
    raise AssertionError("expected TypeError")


# ----------------------------------------------------------------- reference equality
def raw(m, name):
    return object.__getattribute__(m, name)


def ref_eq(a, b):
    """The documented rule, written independently of the library."""
    if type(a) is not type(b):
        return False
    for name in a._betterproto.meta_by_field_name:
        x, y = raw(a, name), raw(b, name)
        if x is PLACEHOLDER and y is PLACEHOLDER:
            continue
        if x is PLACEHOLDER:
            x = a._betterproto.default_gen[name]()
        if y is PLACEHOLDER:
            y = b._betterproto.default_gen[name]()
        if not ref_values_eq(x, y):
            return False
    return True


def ref_values_eq(x, y):
    if isinstance(x, betterproto.Message) or isinstance(y, betterproto.Message):
        return ref_eq(x, y) if isinstance(x, betterproto.Message) and isinstance(y, betterproto.Message) else False
    if isinstance(x, float) and isinstance(y, float) and math.isnan(x) and math.isnan(y):
        return True
    if isinstance(x, list) and isinstance(y, list):
        # list equality: identical objects count as equal (so the same nan object does)
        return len(x) == len(y) and all(p is q or ref_values_eq_plain(p, q) for p, q in zip(x, y))
    if isinstance(x, dict) and isinstance(y, dict):
        return x.keys() == y.keys() and all(x[k] is y[k] or ref_values_eq_plain(x[k], y[k]) for k in x)
    return x == y


def ref_values_eq_plain(p, q):
    # inside containers there is no nan rule for bare floats, but messages still
    # compare with the message rule
    if isinstance(p, betterproto.Message) and isinstance(q, betterproto.Message):
        return ref_eq(p, q)
    return p == q


def check_c09(m):
    data = bytes(m)
    assert type(data) is bytes
    assert m.SerializeToString() == data
    assert len(m) == len(data), (len(m), len(data), data)
    s = BytesIO()
    m.dump(s)
    assert s.getvalue() == data
    s = BytesIO()
    m.dump(s, betterproto.SIZE_DELIMITED)
    assert s.getvalue() == betterproto.encode_varint(len(data)) + data
    return data


rng = random.Random(20909)
FLOATS = [0.0, -0.0, 1.5, NAN, NAN2, float("inf"), -1.25]
INTS = [0, 1, -1, 127, 128, 2**31, -(2**40)]
STRS = ["", "a", "é", "xyz"]


def leaf():
    k = rng.randrange(6)
    if k == 0:
        return Leaf()
    if k == 1:
        return Leaf(n=0)  # explicitly default
    if k == 2:
        return Leaf(f=rng.choice([NAN, NAN2]))
    return Leaf(n=rng.choice(INTS[:5]), f=rng.choice(FLOATS), s=rng.choice(STRS))


def kinds(cls=Kinds):
    kw = {}
    def maybe(name, fn, p=0.35):
        if rng.random() < p:
            kw[name] = fn()
    maybe("i", lambda: rng.choice(INTS))
    maybe("f", lambda: rng.choice(FLOATS))
    maybe("s", lambda: rng.choice(STRS))
    maybe("b", lambda: rng.choice([b"", b"\x00", b"ab"]))
    maybe("flag", lambda: rng.random() < 0.5)
    maybe("e", lambda: rng.choice(list(Color)))
    maybe("leaf", leaf)
    maybe("when", lambda: rng.choice([datetime(1970, 1, 1, tzinfo=timezone.utc), datetime(2001, 2, 3, 4, 5, 6, 7000, tzinfo=timezone.utc), datetime(1969, 12, 31, 23, 59, 59, 999999, tzinfo=timezone.utc)]))
    maybe("span", lambda: rng.choice([timedelta(0), timedelta(seconds=-1.5), timedelta(days=3, microseconds=1)]))
    maybe("opt_old", lambda: rng.choice([None, 0, 5]))
    maybe("opt_new", lambda: rng.choice([None, 0, -5]))
    maybe("opt_union", lambda: rng.choice([None, "", "u"]))
    maybe("wrapped", lambda: rng.choice([None, 0.0, 2.5, NAN]))
    maybe("rep_old", lambda: [rng.choice(INTS[:6]) for _ in range(rng.randrange(3))])
    maybe("rep_new", lambda: [rng.choice(FLOATS) for _ in range(rng.randrange(3))])
    maybe("rep_msg", lambda: [leaf() for _ in range(rng.randrange(3))])
    maybe("map_old", lambda: {rng.choice(STRS): leaf() for _ in range(rng.randrange(3))})
    maybe("map_new", lambda: {rng.choice(INTS[:5]): rng.choice(FLOATS) for _ in range(rng.randrange(3))})
    which = rng.randrange(5)
    if which == 1:
        kw["one_a"] = leaf()
    elif which == 2:
        kw["one_b"] = rng.choice(FLOATS)
    elif which == 3:
        kw["one_c"] = Empty()
    maybe("opt_leaf", lambda: rng.choice([None, Leaf(), leaf()]))
    maybe("rep_when", lambda: [datetime(1970, 1, 1, tzinfo=timezone.utc)] * rng.randrange(3))
    maybe("rep_enum", lambda: [rng.choice(list(Color)) for _ in range(rng.randrange(3))])
    return cls(**kw)


def touch(m):
    """Variants that hold the same values differently: lazily created members
    (reads), explicit defaults, a trip over the wire."""
    k = rng.randrange(4)
    if k == 0:
        for name in ("leaf", "rep_msg", "map_old", "i", "f"):
            getattr(m, name)
    elif k == 1:
        m = type(m)().parse(bytes(m))
    elif k == 2:
        for name in ("i", "s", "flag"):
            if raw(m, name) is PLACEHOLDER:
                setattr(m, name, type(m)._betterproto.default_gen[name]())
    return m


pool = [touch(kinds()) for _ in range(150)]
pool += [Kinds(), Kinds(f=NAN), Kinds(f=NAN2), Kinds(f=0.0), Kinds(f=-0.0), Kinds(leaf=Leaf(f=NAN)),
         Kinds(rep_new=[NAN]), Kinds(rep_new=[NAN2]), Kinds(map_new={1: NAN}), Kinds(map_new={1: NAN2}),
         Kinds(one_b=NAN), Kinds(one_b=0.0), Kinds(one_a=Leaf()), Kinds(one_c=Empty()),
         Kinds(wrapped=NAN), Kinds(wrapped=0.0), Kinds(opt_leaf=Leaf()), Kinds(flag=False), Kinds(i=0), Kinds(i=False),
         Kinds(e=Color.ZERO), Kinds(e=0), Kinds(rep_msg=[Leaf()]), Kinds(rep_msg=[Leaf(n=0)]), Kinds(rep_msg=[Leaf(f=NAN)])]
datas = [check_c09(m) for m in pool]

pairs = 0
for a, b in itertools.product(pool, repeat=2):
    want = ref_eq(a, b)
    got = a == b
    assert type(got) is bool and got == want, (a, b, got, want)
    ne = a != b
    assert type(ne) is bool and ne == (not want)
    pairs += 1
for m in pool:
    assert m == m
    # two independently parsed copies (distinct nan objects inside containers)
    p, q = type(m)().parse(bytes(m)), type(m)().parse(bytes(m))
    assert (p == q) == ref_eq(p, q) and (p == m) == ref_eq(p, m) and (m == p) == ref_eq(m, p)

# other types / subclasses: NotImplemented, never an exception
a = Kinds(i=1)
for other in (1, None, "x", Leaf(), KindsChild(i=1), object()):
    assert Kinds.__eq__(a, other) is NotImplemented
    assert (a == other) is False and (a != other) is True
assert KindsChild(i=1) == KindsChild(i=1) and KindsChild(i=1) != KindsChild(i=2)
assert Kinds.__eq__(a, Kinds(i=1)) is True and Kinds.__eq__(a, Kinds(i=2)) is False

# the comparison stops at the first differing field (later fields are not compared)
class Boom:
    def __eq__(self, other):
        raise RuntimeError("compared")
    __ne__ = __eq__

x, y = Kinds(i=1), Kinds(i=2)
object.__setattr__(x, "s", Boom())
assert (x == y) is False
y.i = 1
try:
    x == y
except RuntimeError:
    pass
else:
    raise AssertionError("expected the later field to be compared")
# both sides unset: the values are never looked at, no defaults are created
x, y = Kinds(), Kinds()
assert x == y
assert all(raw(x, n) is PLACEHOLDER or raw(x, n) is None for n in gen)

# ----------------------------------------------------------------- pinned wire bytes
pinned = [
    (Kinds(), b""),
    (Kinds(i=0, f=0.0, s="", b=b"", flag=False, e=Color.ZERO), b""),
    (Kinds(f=-0.0), b""),
    (Kinds(f=NAN), b"\x15\x00\x00\xc0\x7f"),
    (Kinds(leaf=Leaf()), b""),
    (Kinds(leaf=Leaf(n=0)), b"\x3a\x00"),
    (Kinds(leaf=Leaf(f=NAN)), b"\x3a\x09\x11\x00\x00\x00\x00\x00\x00\xf8\x7f"),
    (Kinds(when=datetime(1970, 1, 1, tzinfo=timezone.utc), span=timedelta(0)), b""),
    (Kinds(opt_old=0, opt_new=0, opt_union=""), b"\x50\x00\x58\x00\x62\x00"),
    (Kinds(wrapped=0.0), b"\x6a\x00"),
    (Kinds(rep_old=[], rep_new=[], rep_msg=[], map_old={}, map_new={}), b""),
    (Kinds(rep_msg=[Leaf()]), b"\x82\x01\x00"),
    (Kinds(map_old={"": Leaf()}), b"\x8a\x01\x00"),
    (Kinds(one_a=Leaf()), b"\x9a\x01\x00"),
    (Kinds(one_b=0.0), b"\xa1\x01" + b"\x00" * 8),
    (Kinds(one_c=Empty()), b"\xaa\x01\x00"),
    (Kinds(opt_leaf=Leaf()), b"\xb2\x01\x00"),
    (Kinds(rep_when=[datetime(1970, 1, 1, tzinfo=timezone.utc)]), b"\xba\x01\x00"),
    (Kinds(rep_enum=[Color.ZERO, Color.NEG]), b"\xc2\x01\x0b\x00" + b"\xff" * 9 + b"\x01"),
]
for m, want in pinned:
    assert check_c09(m) == want, (m, bytes(m), want)
    back = Kinds().parse(want + b"\xf8\x7f\x01")  # plus an unknown field
    assert check_c09(back) == want + b"\xf8\x7f\x01"

# lazily created members (a read is not a set) stay off the wire
m = Kinds()
m.leaf, m.rep_msg, m.map_old
assert check_c09(m) == b""
m.leaf.n = 0
assert check_c09(m) == b"\x3a\x00"
m = Kinds()
m.leaf.f = NAN
assert check_c09(m) == b"\x3a\x09\x11\x00\x00\x00\x00\x00\x00\xf8\x7f"
# child that came off the wire with only unknown fields: equal to the default but present
m = Kinds().parse(b"\x3a\x03\xf8\x7f\x01")
assert m.leaf == Leaf() and check_c09(m) == b"\x3a\x03\xf8\x7f\x01"

# ----------------------------------------------------------------- deep nesting
def chain(depth, v):
    root = Node(v=v)
    cur = root
    for _ in range(depth):
        cur.next = Node(v=v)
        cur = cur.next
    cur.f = NAN
    return root

assert sys.getrecursionlimit() >= 1000
for depth, vs in ((1, (0, 1)), (5, (0, 1)), (60, (0, 1)), (150, (1,)), (240, (0,))):
    for v in vs:
        m = chain(depth, v)
        data = check_c09(m)
        assert m == chain(depth, v) and m != chain(depth - 1, v) and m != Node()
        assert check_c09(Node().parse(data)) == data
        assert Node().parse(data) == m

print("ok", pairs, "pairs,", len(pool), "messages")
