"""C20 keep1: dump() and __len__() share one generator (_fields_on_wire) that decides
which fields go on the wire.  This script checks the binary codec for enum numbers
(defined, undefined, zero, negative, aliases, int32 boundaries) in singular, repeated,
map-value, optional and oneof positions against

  * an independent byte-level encoder written here,
  * google.protobuf (dynamic message built from a descriptor),
  * len(msg) / dump(delimit=True) / load(SIZE_DELIMITED) consistency.

It passes on the pristine tree and with the refactor applied.
"""
import io
import itertools
import random
from dataclasses import dataclass
from typing import Dict, List, Optional

import betterproto
from google.protobuf import descriptor_pb2, descriptor_pool, message_factory

INT32_MIN, INT32_MAX = -(2**31), 2**31 - 1


class Signal(betterproto.Enum):
    OFF = 0
    NONE = 0  # alias
    LOW = 1
    NEG = -3
    MINUS_THREE = -3  # alias
    HIGH = 7
    MAX = 2147483647
    MIN = -2147483648


class NoZero(betterproto.Enum):
    """an enum that does not define number 0 (its default is an undefined number)"""

    ONE = 1
    M_ONE = -1


@dataclass(eq=False, repr=False)
class Msg(betterproto.Message):
    single: Signal = betterproto.enum_field(1)
    many: List[Signal] = betterproto.enum_field(2)
    by_key: Dict[str, Signal] = betterproto.map_field(
        3, betterproto.TYPE_STRING, betterproto.TYPE_ENUM
    )
    opt: Optional[Signal] = betterproto.enum_field(4, optional=True)
    one_a: Signal = betterproto.enum_field(5, group="choice")
    one_b: int = betterproto.int32_field(6, group="choice")
    one_s: str = betterproto.string_field(7, group="choice")
    text: str = betterproto.string_field(8)
    child: "Msg" = betterproto.message_field(9)
    nz: NoZero = betterproto.enum_field(10)
    nz_opt: Optional[NoZero] = betterproto.enum_field(11, optional=True)
    nz_one: NoZero = betterproto.enum_field(12, group="other")
    nz_two: bool = betterproto.bool_field(13, group="other")


# --------------------------------------------------------------------------- google
def build_google_class():
    fdp = descriptor_pb2.FileDescriptorProto(
        name="c20_keep1.proto", package="c20k1", syntax="proto3"
    )
    e = fdp.enum_type.add(name="Signal")
    e.options.allow_alias = True
    for n, v in [("OFF", 0), ("NONE", 0), ("LOW", 1), ("NEG", -3), ("MINUS_THREE", -3),
                 ("HIGH", 7), ("MAX", INT32_MAX), ("MIN", INT32_MIN)]:
        e.value.add(name=n, number=v)
    e = fdp.enum_type.add(name="NoZero")
    # proto3 needs a zero value first; give it a name betterproto's enum does not have
    for n, v in [("NZ_UNSPECIFIED", 0), ("ONE", 1), ("M_ONE", -1)]:
        e.value.add(name=n, number=v)

    F = descriptor_pb2.FieldDescriptorProto
    m = fdp.message_type.add(name="Msg")
    entry = m.nested_type.add(name="ByKeyEntry")
    entry.options.map_entry = True
    entry.field.add(name="key", number=1, type=F.TYPE_STRING, label=F.LABEL_OPTIONAL)
    entry.field.add(name="value", number=2, type=F.TYPE_ENUM, label=F.LABEL_OPTIONAL,
                    type_name=".c20k1.Signal")
    m.oneof_decl.add(name="choice")   # 0
    m.oneof_decl.add(name="other")    # 1
    m.oneof_decl.add(name="_opt")     # 2 synthetic
    m.oneof_decl.add(name="_nz_opt")  # 3 synthetic
    m.field.add(name="single", number=1, type=F.TYPE_ENUM, label=F.LABEL_OPTIONAL,
                type_name=".c20k1.Signal")
    m.field.add(name="many", number=2, type=F.TYPE_ENUM, label=F.LABEL_REPEATED,
                type_name=".c20k1.Signal")
    m.field.add(name="by_key", number=3, type=F.TYPE_MESSAGE, label=F.LABEL_REPEATED,
                type_name=".c20k1.Msg.ByKeyEntry")
    m.field.add(name="opt", number=4, type=F.TYPE_ENUM, label=F.LABEL_OPTIONAL,
                type_name=".c20k1.Signal", oneof_index=2, proto3_optional=True)
    m.field.add(name="one_a", number=5, type=F.TYPE_ENUM, label=F.LABEL_OPTIONAL,
                type_name=".c20k1.Signal", oneof_index=0)
    m.field.add(name="one_b", number=6, type=F.TYPE_INT32, label=F.LABEL_OPTIONAL,
                oneof_index=0)
    m.field.add(name="one_s", number=7, type=F.TYPE_STRING, label=F.LABEL_OPTIONAL,
                oneof_index=0)
    m.field.add(name="text", number=8, type=F.TYPE_STRING, label=F.LABEL_OPTIONAL)
    m.field.add(name="child", number=9, type=F.TYPE_MESSAGE, label=F.LABEL_OPTIONAL,
                type_name=".c20k1.Msg")
    m.field.add(name="nz", number=10, type=F.TYPE_ENUM, label=F.LABEL_OPTIONAL,
                type_name=".c20k1.NoZero")
    m.field.add(name="nz_opt", number=11, type=F.TYPE_ENUM, label=F.LABEL_OPTIONAL,
                type_name=".c20k1.NoZero", oneof_index=3, proto3_optional=True)
    m.field.add(name="nz_one", number=12, type=F.TYPE_ENUM, label=F.LABEL_OPTIONAL,
                type_name=".c20k1.NoZero", oneof_index=1)
    m.field.add(name="nz_two", number=13, type=F.TYPE_BOOL, label=F.LABEL_OPTIONAL,
                oneof_index=1)
    pool = descriptor_pool.DescriptorPool()
    pool.Add(fdp)
    return message_factory.GetMessageClass(pool.FindMessageTypeByName("c20k1.Msg"))


GMsg = build_google_class()


# -------------------------------------------------------------- independent encoder
def varint(n: int) -> bytes:
    if n < 0:
        n += 1 << 64
    out = bytearray()
    while True:
        b = n & 0x7F
        n >>= 7
        if n:
            out.append(b | 0x80)
        else:
            out.append(b)
            return bytes(out)


def tag(number: int, wire: int) -> bytes:
    return varint((number << 3) | wire)


def ld(number: int, payload: bytes) -> bytes:
    return tag(number, 2) + varint(len(payload)) + payload


def expected_bytes(spec: dict) -> bytes:
    """spec uses plain ints; keys absent = not set."""
    out = b""
    if spec.get("single", 0) != 0:
        out += tag(1, 0) + varint(spec["single"])
    if spec.get("many"):
        out += ld(2, b"".join(varint(v) for v in spec["many"]))
    for k, v in spec.get("by_key", {}).items():
        # an empty key is left out of the entry, the value is always written
        out += ld(3, (ld(1, k.encode()) if k else b"") + tag(2, 0) + varint(v))
    if spec.get("opt") is not None:
        out += tag(4, 0) + varint(spec["opt"])
    if "one_a" in spec:
        out += tag(5, 0) + varint(spec["one_a"])
    if "one_b" in spec:
        out += tag(6, 0) + varint(spec["one_b"])
    if "one_s" in spec:
        out += ld(7, spec["one_s"].encode())
    if spec.get("text"):
        out += ld(8, spec["text"].encode())
    if spec.get("child"):
        # a child counts as set as soon as it was built with any argument
        out += ld(9, expected_bytes(spec["child"]))
    if spec.get("nz", 0) != 0:
        out += tag(10, 0) + varint(spec["nz"])
    if spec.get("nz_opt") is not None:
        out += tag(11, 0) + varint(spec["nz_opt"])
    if "nz_one" in spec:
        out += tag(12, 0) + varint(spec["nz_one"])
    if "nz_two" in spec:
        out += tag(13, 0) + varint(int(spec["nz_two"]))
    return out


def as_value(enum_cls, number: int, style: int):
    """the same number as plain int / canonical member or open placeholder"""
    if style == 0:
        return number
    return enum_cls.try_value(number)


def build_bp(spec: dict, style: int) -> Msg:
    kw = {}
    for k, v in spec.items():
        if k in ("single", "opt", "one_a"):
            kw[k] = as_value(Signal, v, style)
        elif k in ("nz", "nz_opt", "nz_one"):
            kw[k] = as_value(NoZero, v, style)
        elif k == "many":
            kw[k] = [as_value(Signal, x, style) for x in v]
        elif k == "by_key":
            kw[k] = {kk: as_value(Signal, x, style) for kk, x in v.items()}
        elif k == "child":
            kw[k] = build_bp(v, style)
        else:
            kw[k] = v
    return Msg(**kw)


def build_google(spec: dict):
    g = GMsg()
    for k, v in spec.items():
        if k == "many":
            g.many.extend(v)
        elif k == "by_key":
            for kk, x in v.items():
                g.by_key[kk] = x
        elif k == "child":
            if v:
                g.child.CopyFrom(build_google(v))
        else:
            setattr(g, k, v)
    return g


def check_spec(spec: dict) -> None:
    exp = expected_bytes(spec)
    g = build_google(spec)
    def comparable(sp: dict) -> bool:
        # google writes map entries in its own order and always writes the key
        by_key = sp.get("by_key", {})
        ok = len(by_key) <= 1 and "" not in by_key
        return ok and ("child" not in sp or comparable(sp["child"]))

    if comparable(spec):
        assert g.SerializeToString(deterministic=True) == exp, (spec, exp)
    for style in (0, 1):
        m = build_bp(spec, style)
        data = bytes(m)
        assert data == exp, (spec, style, data, exp)
        assert m.SerializeToString() == exp
        assert len(m) == len(exp), (spec, len(m), len(exp))

        # delimited stream: size prefix computed by __len__, body by dump
        buf = io.BytesIO()
        m.dump(buf, delimit=betterproto.SIZE_DELIMITED)
        m.dump(buf, delimit=betterproto.SIZE_DELIMITED)
        assert buf.getvalue() == (varint(len(exp)) + exp) * 2
        buf.seek(0)
        first = Msg().load(buf, betterproto.SIZE_DELIMITED)
        second = Msg().load(buf, betterproto.SIZE_DELIMITED)
        assert buf.read() == b""
        assert bytes(first) == exp and bytes(second) == exp

        # round trip keeps numbers, members are canonical, google agrees
        back = Msg().parse(data)
        verify_values(back, spec)
        assert bytes(back) == exp and len(back) == len(exp)
        g2 = GMsg.FromString(data)
        assert g2 == g, spec


def verify_values(back: Msg, spec: dict) -> None:
    assert back.single == spec.get("single", 0)
    assert back.single is Signal.try_value(spec.get("single", 0)) or back.single.name is None
    assert back.many == spec.get("many", [])
    for x in back.many:
        assert isinstance(x, Signal)
        if x.name is not None:
            assert x is Signal(int(x))
    assert back.by_key == spec.get("by_key", {})
    assert back.opt == spec.get("opt")
    assert back.nz == spec.get("nz", 0)
    assert back.nz_opt == spec.get("nz_opt")
    which, val = betterproto.which_one_of(back, "choice")
    present = [k for k in ("one_a", "one_b", "one_s") if k in spec]
    if present:
        assert which == present[-1] and val == spec[present[-1]], (which, val, spec)
        if which == "one_a" and val.name is not None:
            assert val is Signal(int(val))
    else:
        assert which == "" and val is None
    which, val = betterproto.which_one_of(back, "other")
    present = [k for k in ("nz_one", "nz_two") if k in spec]
    if present:
        assert which == present[-1] and val == spec[present[-1]]
    else:
        assert which == "" and val is None
    if "child" in spec:
        verify_values(back.child, spec["child"])


NUMBERS = [0, 1, -3, 7, INT32_MAX, INT32_MIN, 2, -1, 5, 100, -100, 127, 128, 16383,
           16384, INT32_MAX - 1, INT32_MIN + 1, 6, 8]


def main() -> None:
    count = 0
    # every number in every single position
    for n in NUMBERS:
        for spec in (
            {"single": n},
            {"many": [n]},
            {"many": [n, 0, n]},
            {"by_key": {"k": n}},
            {"by_key": {"": n}},
            {"opt": n},
            {"one_a": n},
            {"nz": n},
            {"nz_opt": n},
            {"nz_one": n},
            {"child": {"single": n, "opt": n}},
            {"child": {"one_a": n}, "one_a": n},
            {"single": n, "many": [n, n], "by_key": {"a": n}, "opt": n, "one_a": n,
             "nz": n, "nz_opt": n, "nz_one": n, "text": "t"},
        ):
            check_spec(spec)
            count += 1

    # presence corner cases (zero / empty in optional and oneof positions, empty child)
    for spec in (
        {},
        {"opt": 0},
        {"one_a": 0},
        {"one_b": 0},
        {"one_s": ""},
        {"one_s": "x"},
        {"nz_two": False},
        {"nz_two": True},
        {"nz_one": 0},
        {"nz_opt": 0},
        {"child": {}},
        {"child": {"child": {}}},
        {"child": {"opt": 0}},
        {"text": "", "single": 0, "many": []},
        {"by_key": {}},
        {"by_key": {"": 0}},
        {"by_key": {"a": 0, "b": -3, "c": 9}},
        {"opt": 0, "one_a": 0, "nz_opt": 0, "nz_one": 0, "child": {"one_s": ""}},
    ):
        check_spec(spec)
        count += 1

    # random combinations
    rnd = random.Random(20)

    def rand_num():
        r = rnd.random()
        if r < 0.5:
            return rnd.choice(NUMBERS)
        if r < 0.75:
            return rnd.randint(-10, 10)
        return rnd.randint(INT32_MIN, INT32_MAX)

    def rand_spec(depth=0):
        spec = {}
        if rnd.random() < 0.5:
            spec["single"] = rand_num()
        if rnd.random() < 0.5:
            spec["many"] = [rand_num() for _ in range(rnd.randint(0, 5))]
        if rnd.random() < 0.5:
            spec["by_key"] = {
                rnd.choice(["", "a", "b", "key"]): rand_num()
                for _ in range(rnd.randint(0, 3))
            }
        if rnd.random() < 0.5:
            spec["opt"] = rand_num()
        r = rnd.random()
        if r < 0.3:
            spec["one_a"] = rand_num()
        elif r < 0.45:
            spec["one_b"] = rand_num()
        elif r < 0.6:
            spec["one_s"] = rnd.choice(["", "s"])
        if rnd.random() < 0.3:
            spec["text"] = rnd.choice(["", "hello"])
        if rnd.random() < 0.4 and depth < 2:
            spec["child"] = rand_spec(depth + 1)
        if rnd.random() < 0.4:
            spec["nz"] = rand_num()
        if rnd.random() < 0.4:
            spec["nz_opt"] = rand_num()
        r = rnd.random()
        if r < 0.3:
            spec["nz_one"] = rand_num()
        elif r < 0.5:
            spec["nz_two"] = rnd.random() < 0.5
        return spec

    for _ in range(1500):
        check_spec(rand_spec())
        count += 1

    # switching a oneof after construction: only the last assignment is emitted
    for a, b in itertools.product([0, 1, -3, 9], repeat=2):
        m = Msg(one_a=Signal.try_value(a))
        m.one_b = b
        assert bytes(m) == tag(6, 0) + varint(b) and len(m) == len(bytes(m))
        m.one_a = a
        assert bytes(m) == tag(5, 0) + varint(a) and len(m) == len(bytes(m))
        m.opt = Signal.try_value(b)
        assert bytes(m) == tag(4, 0) + varint(b) + tag(5, 0) + varint(a)
        m.opt = None
        assert bytes(m) == tag(5, 0) + varint(a) and len(m) == len(bytes(m))

    # unknown fields are appended after the known ones, and counted by len()
    raw = tag(1, 0) + varint(-3) + tag(99, 0) + varint(5) + ld(98, b"xyz")
    m = Msg().parse(raw)
    assert m.single is Signal.NEG
    assert bytes(m) == raw and len(m) == len(raw)

    print(f"OK ({count} message specs checked)")


if __name__ == "__main__":
    main()
