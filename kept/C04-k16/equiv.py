"""C04 equivalence check for the per-class tables built by ProtoClassMetadata.__init__
(meta_by_field_name, field_name_by_number, sorted_field_names, oneof_group_by_field,
oneof_field_by_group), which drive to_dict / from_dict / the oneof bookkeeping / bytes().

1. For many message classes (hand-written ones with interleaved oneof groups, unordered and
   duplicate field numbers, no fields, keyword-like names; every class of
   betterproto.lib.google.protobuf; randomly generated classes) the tables of cls._betterproto
   are compared - content AND iteration order - with OLD_tables(cls), a verbatim copy of the
   reference construction loop.
2. Behaviour that reads the tables: repr order, which_one_of, sibling reset on assignment,
   AttributeError for unselected members, parse by number, and the C04 round trip (dict and JSON
   text path, classmethod and instance form, both casings, equal message and equal bytes) for a
   seeded corpus of oneof-heavy messages.
"""
import dataclasses
import inspect
import json
import random
from dataclasses import dataclass
from datetime import datetime, timedelta, timezone
from typing import Dict, List, Optional

import betterproto
from betterproto import Casing, FieldMetadata


# --------------------------------------------------------------------------------------------
# verbatim copy of the reference loop of ProtoClassMetadata.__init__
# --------------------------------------------------------------------------------------------
def OLD_tables(cls):
    by_field = {}
    by_group = {}
    by_field_name = {}
    by_field_number = {}

    fields = dataclasses.fields(cls)
    for field in fields:
        meta = FieldMetadata.get(field)

        if meta.group:
            # This is part of a one-of group.
            by_field[field.name] = meta.group

            by_group.setdefault(meta.group, set()).add(field)

        by_field_name[field.name] = meta
        by_field_number[meta.number] = field.name

    return dict(
        oneof_group_by_field=by_field,
        oneof_field_by_group=by_group,
        field_name_by_number=by_field_number,
        meta_by_field_name=by_field_name,
        sorted_field_names=tuple(
            by_field_number[number] for number in sorted(by_field_number)
        ),
    )


def same_dict(a, b):
    """Same keys in the same order with identical (is / ==) values, same types."""
    assert type(a) is type(b) is dict, (type(a), type(b))
    assert list(a.keys()) == list(b.keys()), (list(a), list(b))
    for k in a:
        assert a[k] is b[k] or a[k] == b[k], (k, a[k], b[k])
        assert type(a[k]) is type(b[k])


def check_tables(cls):
    want = OLD_tables(cls)
    got = cls._betterproto
    same_dict(got.oneof_group_by_field, want["oneof_group_by_field"])
    same_dict(got.field_name_by_number, want["field_name_by_number"])
    same_dict(got.meta_by_field_name, want["meta_by_field_name"])
    for name, meta in got.meta_by_field_name.items():
        assert meta is want["meta_by_field_name"][name]  # the very FieldMetadata object
    assert type(got.sorted_field_names) is tuple
    assert got.sorted_field_names == want["sorted_field_names"]
    g, w = got.oneof_field_by_group, want["oneof_field_by_group"]
    assert type(g) is dict and list(g.keys()) == list(w.keys()), (list(g), list(w))
    for group in g:
        assert type(g[group]) is set
        assert g[group] == w[group]
        # same Field objects, inserted in the same order into a fresh set -> same iteration
        assert [f.name for f in g[group]] == [f.name for f in w[group]], group
        assert all(any(f is f2 for f2 in w[group]) for f in g[group])
    # the remaining tables are still there and consistent with the field list
    names = [f.name for f in dataclasses.fields(cls)]
    assert list(got.default_gen) == names
    assert [k for k in got.cls_by_field if "." not in k] == names
    for name in names:
        assert got.field_name_by_key[name] == name
        for casing in (Casing.CAMEL, Casing.SNAKE):
            key = casing(name).rstrip("_")
            assert key in got.field_name_by_key


# --------------------------------------------------------------------------------------------
# message types
# --------------------------------------------------------------------------------------------
class Colour(betterproto.Enum):
    RED = 0
    GREEN = 1


@dataclass(eq=False, repr=False)
class Empty(betterproto.Message):
    pass


@dataclass(eq=False, repr=False)
class Inner(betterproto.Message):
    n: int = betterproto.int32_field(1)
    s: str = betterproto.string_field(2)


@dataclass(eq=False, repr=False)
class Interleaved(betterproto.Message):
    """Two oneof groups whose members are interleaved with each other and with plain fields,
    declared in an order that is not the field-number order."""

    z_last: int = betterproto.int32_field(50)
    b_text: str = betterproto.string_field(7, group="beta")
    a_int: int = betterproto.int32_field(3, group="alpha")
    plain: str = betterproto.string_field(1)
    b_inner: Inner = betterproto.message_field(9, group="beta")
    a_big: int = betterproto.int64_field(4, group="alpha")
    opt: Optional[int] = betterproto.int32_field(2, optional=True)
    a_bytes: bytes = betterproto.bytes_field(40, group="alpha")
    b_flag: bool = betterproto.bool_field(8, group="beta")
    a_time: datetime = betterproto.message_field(5, group="alpha")
    b_span: timedelta = betterproto.message_field(10, group="beta")
    a_colour: Colour = betterproto.enum_field(6, group="alpha")
    c_only: float = betterproto.double_field(11, group="gamma")
    items: List[int] = betterproto.int64_field(12)
    by_id: Dict[int, str] = betterproto.map_field(
        13, betterproto.TYPE_SINT64, betterproto.TYPE_STRING
    )
    child: Inner = betterproto.message_field(14)
    a_empty: Empty = betterproto.message_field(15, group="alpha")
    from_: str = betterproto.string_field(16)
    address_line_1: str = betterproto.string_field(17)


@dataclass(eq=False, repr=False)
class DuplicateNumbers(betterproto.Message):
    """Not valid protobuf, but the tables have a defined content for it."""

    first: int = betterproto.int32_field(2)
    second: int = betterproto.int32_field(1)
    third: int = betterproto.int32_field(2)
    fourth: str = betterproto.string_field(1, group="g")
    fifth: str = betterproto.string_field(3, group="g")


@dataclass(eq=False, repr=False)
class OnlyOneofs(betterproto.Message):
    x: int = betterproto.int32_field(2, group="one")
    y: str = betterproto.string_field(1, group="two")
    z: Inner = betterproto.message_field(3, group="one")


@dataclass(eq=False, repr=False)
class Recursive(betterproto.Message):
    name: str = betterproto.string_field(2)
    left: "Recursive" = betterproto.message_field(1, group="side")
    right: "Recursive" = betterproto.message_field(3, group="side")
    more: List["Recursive"] = betterproto.message_field(4)


HAND_WRITTEN = [Empty, Inner, Interleaved, DuplicateNumbers, OnlyOneofs, Recursive]

rng = random.Random(424242)

FIELD_MAKERS = [
    ("int", betterproto.int32_field, int),
    ("int", betterproto.int64_field, int),
    ("int", betterproto.uint64_field, int),
    ("int", betterproto.sint32_field, int),
    ("str", betterproto.string_field, str),
    ("bytes", betterproto.bytes_field, bytes),
    ("bool", betterproto.bool_field, bool),
    ("float", betterproto.double_field, float),
    ("enum", betterproto.enum_field, Colour),
    ("msg", betterproto.message_field, Inner),
    ("time", betterproto.message_field, datetime),
    ("span", betterproto.message_field, timedelta),
]


def random_class(index):
    n = rng.randrange(0, 14)
    numbers = rng.sample(range(1, 60), n)
    groups = [None, None, None, "g1", "g2", "g3"]
    annotations, namespace, spec = {}, {}, []
    for i, number in enumerate(numbers):
        kind, maker, hint = rng.choice(FIELD_MAKERS)
        group = rng.choice(groups)
        name = rng.choice(["f", "field_name", "x1y", "value", "some_long_name"]) + f"_{i}"
        annotations[name] = hint
        namespace[name] = maker(number, group=group) if group else maker(number)
        spec.append((name, kind, group, number))
    namespace["__annotations__"] = annotations
    namespace["__module__"] = __name__
    cls = type(f"Random{index}", (betterproto.Message,), namespace)
    cls = dataclass(eq=False, repr=False)(cls)
    globals()[cls.__name__] = cls
    return cls, spec


UTC = timezone.utc
VALUES = {
    "int": [0, 1, -1, 2**31 - 1],
    "str": ["", "x", "Infinity"],
    "bytes": [b"", b"\xfb\xff", b"abc"],
    "bool": [False, True],
    "float": [0.0, 1.5, float("inf"), float("-inf")],
    "enum": [Colour.RED, Colour.GREEN],
    "msg": [Inner(), Inner(n=1), Inner(s="s", n=-2)],
    "time": [
        datetime(1970, 1, 1, tzinfo=UTC),
        datetime(2024, 2, 29, 1, 2, 3, 456000, tzinfo=UTC),
        datetime(1969, 12, 31, 23, 59, 59, 999999, tzinfo=UTC),
    ],
    "span": [timedelta(0), timedelta(seconds=-1, microseconds=-500000), timedelta(days=3, microseconds=7)],
}


def fit(kind, maker_number_name, value):
    return value


def random_instance(cls, spec):
    kwargs = {}
    chosen_groups = {}
    for name, kind, group, number in spec:
        if group:
            chosen_groups.setdefault(group, []).append((name, kind))
        elif rng.random() < 0.6:
            kwargs[name] = rng.choice(VALUES[kind])
    for group, members in chosen_groups.items():
        if rng.random() < 0.8:
            name, kind = rng.choice(members)
            kwargs[name] = rng.choice(VALUES[kind])
    # unsigned fields must not get negative numbers
    for name, value in list(kwargs.items()):
        meta = cls._betterproto.meta_by_field_name[name]
        if meta.proto_type == betterproto.TYPE_UINT64 and value < 0:
            kwargs[name] = 2**64 - 1
    return cls(**kwargs)


CASINGS = (Casing.CAMEL, Casing.SNAKE)


def round_trip(m):
    wire = bytes(m)
    cls = type(m)
    # parse goes through field_name_by_number
    assert cls().parse(wire) == m
    assert bytes(cls().parse(wire)) == wire
    for casing in CASINGS:
        d = m.to_dict(casing=casing)
        text = m.to_json(casing=casing)
        assert json.dumps(d) == text
        for m2 in (
            cls.from_dict(d),
            cls().from_dict(d),
            cls().from_json(text),
            cls.from_dict(json.loads(text)),
        ):
            assert m2 == m, (m, d, m2)
            assert bytes(m2) == wire, (m, d, bytes(m2), wire)
            for group in cls._betterproto.oneof_field_by_group:
                assert betterproto.which_one_of(m2, group) == betterproto.which_one_of(m, group)
            assert repr(m2.to_dict()) == repr(m.to_dict())


def check_interleaved_behaviour():
    meta = Interleaved._betterproto
    assert list(meta.meta_by_field_name)[:4] == ["z_last", "b_text", "a_int", "plain"]
    assert meta.sorted_field_names[:6] == ("plain", "opt", "a_int", "a_big", "a_time", "a_colour")
    assert meta.sorted_field_names[-2:] == ("a_bytes", "z_last")
    assert list(meta.oneof_field_by_group) == ["beta", "alpha", "gamma"]
    assert {f.name for f in meta.oneof_field_by_group["alpha"]} == {
        "a_int", "a_big", "a_bytes", "a_time", "a_colour", "a_empty",
    }
    assert {f.name for f in meta.oneof_field_by_group["beta"]} == {"b_text", "b_inner", "b_flag", "b_span"}
    assert {f.name for f in meta.oneof_field_by_group["gamma"]} == {"c_only"}
    assert meta.oneof_group_by_field == {
        "b_text": "beta", "a_int": "alpha", "b_inner": "beta", "a_big": "alpha", "a_bytes": "alpha",
        "b_flag": "beta", "a_time": "alpha", "b_span": "beta", "a_colour": "alpha", "c_only": "gamma",
        "a_empty": "alpha",
    }
    assert list(meta.oneof_group_by_field)[:3] == ["b_text", "a_int", "b_inner"]

    # repr follows the field-number order
    m = Interleaved(z_last=5, plain="p", a_int=0, b_flag=False)
    assert repr(m) == "Interleaved(plain='p', opt=None, a_int=0, b_flag=False, z_last=5)", repr(m)
    assert betterproto.which_one_of(m, "alpha") == ("a_int", 0)
    assert betterproto.which_one_of(m, "beta") == ("b_flag", False)
    assert betterproto.which_one_of(m, "gamma") == ("", None)
    assert m.to_dict() == {"zLast": 5, "aInt": 0, "plain": "p", "bFlag": False}
    # bytes follow the declaration order (meta_by_field_name)
    assert bytes(m) == b"\x90\x03\x05\x18\x00\x0a\x01p\x40\x00", bytes(m)
    round_trip(m)

    # assignment resets the siblings of the same group only
    m.a_bytes = b""
    assert betterproto.which_one_of(m, "alpha") == ("a_bytes", b"")
    assert betterproto.which_one_of(m, "beta") == ("b_flag", False)
    try:
        m.a_int
    except AttributeError as e:
        assert "'alpha' is set to 'a_bytes', not 'a_int'" in str(e), e
    else:
        raise AssertionError("a_int should be unset")
    assert m.to_dict() == {"zLast": 5, "plain": "p", "aBytes": "", "bFlag": False}
    round_trip(m)
    m.b_span = timedelta(0)
    m.a_empty = Empty()
    m.c_only = 0.0
    assert m.to_dict() == {
        "zLast": 5, "plain": "p", "bSpan": "0.000s", "cOnly": 0.0, "aEmpty": {},
    }, m.to_dict()
    round_trip(m)

    # every member of every group, with its default and with a non-default value
    for name, meta_ in Interleaved._betterproto.meta_by_field_name.items():
        if not meta_.group:
            continue
        default = Interleaved()._get_field_default(name)
        msg = Interleaved(**{name: default})
        assert betterproto.which_one_of(msg, meta_.group)[0] == name
        round_trip(msg)

    d = DuplicateNumbers._betterproto
    assert d.field_name_by_number == {2: "third", 1: "fourth", 3: "fifth"}
    assert list(d.field_name_by_number) == [2, 1, 3]
    assert d.sorted_field_names == ("fourth", "third", "fifth")


def main():
    classes = list(HAND_WRITTEN)
    lib = betterproto.lib.google.protobuf
    lib_classes = [
        c for _, c in inspect.getmembers(lib, inspect.isclass)
        if issubclass(c, betterproto.Message) and c is not betterproto.Message and dataclasses.is_dataclass(c)
    ]
    assert len(lib_classes) > 30
    classes += lib_classes
    classes += [betterproto._Timestamp, betterproto._Duration]
    randoms = [random_class(i) for i in range(250)]
    classes += [c for c, _ in randoms]
    for cls in classes:
        check_tables(cls)
    # map Entry classes built by the metadata itself
    for entry in ("by_id",):
        check_tables(Interleaved._betterproto.cls_by_field[entry])

    check_interleaved_behaviour()

    trips = 0
    for cls, spec in randoms:
        for _ in range(6):
            m = random_instance(cls, spec)
            round_trip(m)
            trips += 1
    for _ in range(200):
        kw = {}
        if rng.random() < 0.7:
            name = rng.choice(["a_int", "a_big", "a_bytes", "a_time", "a_colour", "a_empty"])
            kind = {"a_int": "int", "a_big": "int", "a_bytes": "bytes", "a_time": "time", "a_colour": "enum"}.get(name)
            kw[name] = rng.choice(VALUES[kind]) if kind else Empty()
        if rng.random() < 0.7:
            name = rng.choice(["b_text", "b_inner", "b_flag", "b_span"])
            kind = {"b_text": "str", "b_inner": "msg", "b_flag": "bool", "b_span": "span"}[name]
            kw[name] = rng.choice(VALUES[kind])
        if rng.random() < 0.5:
            kw["c_only"] = rng.choice(VALUES["float"])
        if rng.random() < 0.5:
            kw["opt"] = rng.choice([0, 5])
        if rng.random() < 0.5:
            kw["items"] = [rng.choice([0, 2**63 - 1, -(2**63)]) for _ in range(rng.randrange(0, 3))]
        if rng.random() < 0.5:
            kw["by_id"] = {rng.randrange(-4, 4): rng.choice("abc") for _ in range(rng.randrange(0, 3))}
        if rng.random() < 0.5:
            kw["child"] = rng.choice(VALUES["msg"])
        if rng.random() < 0.5:
            kw["from_"] = "me"
        if rng.random() < 0.5:
            kw["address_line_1"] = "street"
        if rng.random() < 0.5:
            kw["z_last"] = rng.choice([1, -1])
        round_trip(Interleaved(**kw))
        trips += 1
    r = Recursive(name="root", left=Recursive(name="l", right=Recursive()), more=[Recursive(), Recursive(left=Recursive())])
    round_trip(r)
    round_trip(OnlyOneofs(x=0, y=""))
    round_trip(OnlyOneofs(z=Inner()))
    print(f"ok: tables of {len(classes)} classes identical, {trips} messages round-tripped")


if __name__ == "__main__":
    main()
