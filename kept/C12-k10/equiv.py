"""
C12 equivalence check for AsyncChannel.

The pristine AsyncChannel is embedded below as RefAsyncChannel.  Thousands of seeded
small configurations (1..2 senders x 1..3 items, 1..3 receivers using receive(),
__anext__ or async-for, close() at any point, bounded / unbounded buffers, optional
cancellation / zero-timeout of blocked receivers) are run once against the reference
copy and once against the library class, under
  * the natural asyncio schedule with seeded sleep(0) jitter, and
  * an event loop that pseudo-randomly permutes its ready queue (seeded),
and the complete observable traces (every result / exception of send, send_from,
receive, __anext__, close, and closed()/done() probes after every step, in global
order) must be identical.  In addition the statement of the property itself is
asserted on the library's runs.  Only the public API is used.
"""
import asyncio
import random
import sys
import warnings
from typing import AsyncIterable, AsyncIterator, Iterable, Optional, TypeVar, Union

from betterproto.grpc.util.async_channel import AsyncChannel, ChannelClosed, ChannelDone

# a receive that is cancelled before its task ever started leaves an un-awaited coroutine
warnings.filterwarnings("ignore", message="coroutine .* was never awaited")

T = TypeVar("T")


class RefAsyncChannel(AsyncIterable[T]):
    """Verbatim copy of the reference implementation."""

    def __init__(self, *, buffer_limit: int = 0, close: bool = False):
        self._queue: asyncio.Queue = asyncio.Queue(buffer_limit)
        self._closed = False
        self._waiting_receivers: int = 0
        self._flushed = False

    def __aiter__(self) -> AsyncIterator[T]:
        return self

    async def __anext__(self) -> T:
        if self.done():
            raise StopAsyncIteration
        self._waiting_receivers += 1
        try:
            result = await self._queue.get()
        finally:
            self._waiting_receivers -= 1
        self._queue.task_done()
        if result is self.__flush:
            raise StopAsyncIteration
        return result

    def closed(self) -> bool:
        return self._closed

    def done(self) -> bool:
        return self._closed and self._queue.qsize() <= self._waiting_receivers

    async def send_from(
        self, source: Union[Iterable[T], AsyncIterable[T]], close: bool = False
    ) -> "RefAsyncChannel[T]":
        if self._closed:
            raise ChannelClosed("Cannot send through a closed channel")
        if isinstance(source, AsyncIterable):
            async for item in source:
                await self._queue.put(item)
        else:
            for item in source:
                await self._queue.put(item)
        if close:
            self.close()
        return self

    async def send(self, item: T) -> "RefAsyncChannel[T]":
        if self._closed:
            raise ChannelClosed("Cannot send through a closed channel")
        await self._queue.put(item)
        return self

    async def receive(self) -> Optional[T]:
        if self.done():
            raise ChannelDone("Cannot receive from a closed channel")
        self._waiting_receivers += 1
        try:
            result = await self._queue.get()
        finally:
            self._waiting_receivers -= 1
        self._queue.task_done()
        if result is self.__flush:
            return None
        return result

    def close(self):
        self._closed = True
        asyncio.ensure_future(self._flush_queue())

    async def _flush_queue(self):
        if not self._flushed:
            self._flushed = True
            deadlocked_receivers = max(0, self._waiting_receivers - self._queue.qsize())
            for _ in range(deadlocked_receivers):
                await self._queue.put(self.__flush)

    __flush = object()


# ---------------------------------------------------------------------------
# schedule exploration
# ---------------------------------------------------------------------------
class ShuffleLoop(asyncio.SelectorEventLoop):
    """Event loop that permutes its ready queue with a seeded RNG before each turn."""

    def __init__(self, seed):
        super().__init__()
        self._shuffle_rng = random.Random(seed)

    def _run_once(self):
        if len(self._ready) > 1:
            handles = list(self._ready)
            self._shuffle_rng.shuffle(handles)
            self._ready.clear()
            self._ready.extend(handles)
        super()._run_once()


class Item:
    """Items are identified by (sender, index); some are falsy on purpose."""

    __slots__ = ("sender", "index", "falsy")

    def __init__(self, sender, index, falsy):
        self.sender, self.index, self.falsy = sender, index, falsy

    def __bool__(self):
        return not self.falsy

    def __repr__(self):
        return f"{self.sender}{self.index}"


async def jitter(rng, most=3):
    for _ in range(rng.randrange(most + 1)):
        await asyncio.sleep(0)


async def scenario(cls, seed):
    """Runs one seeded configuration against channel class `cls`; returns its trace and
    bookkeeping needed for the property assertions."""
    cfg = random.Random(seed)
    limit = cfg.choice([0, 0, 1, 2])
    n_senders = cfg.choice([1, 2])
    n_receivers = cfg.choice([1, 2, 3])
    ch = cls(buffer_limit=limit)
    trace = []
    info = {
        "limit": limit,
        "completed_before_close": [],  # items whose send completed before close
        "all_items": [],
        "received": [],  # (receiver, item)
        "dequeued": [],  # items in the global order in which receives returned them
        "close_seen": False,
        "cancel_outcomes": [],
    }

    def probe(who):
        trace.append((who, "probe", ch.closed(), ch.done()))

    def log(who, what, value=None):
        trace.append((who, what, repr(value)))
        probe(who)

    def closed_now():
        return info["close_seen"]

    # ---------------- senders ----------------
    async def sender(name, mode, items, close_flag):
        rng = random.Random(f"{seed}-{name}")
        await jitter(rng)
        try:
            if mode == "send":
                for it in items:
                    await jitter(rng, 2)
                    r = await ch.send(it)
                    assert r is ch
                    if not closed_now():
                        info["completed_before_close"].append(it)
                    log(name, "sent", it)
            else:
                if mode == "list":
                    src = list(items)
                elif mode == "tuple":
                    src = tuple(items)
                elif mode == "gen":
                    src = (it for it in items)
                elif mode == "agen":

                    async def agen():
                        for it in items:
                            await jitter(rng, 1)
                            yield it

                    src = agen()
                else:
                    raise AssertionError(mode)
                r = await ch.send_from(src, close=close_flag)
                assert r is ch
                if close_flag:
                    info["close_seen"] = True
                    info["completed_before_close"].extend(items)
                elif not closed_now():
                    info["completed_before_close"].extend(items)
                log(name, "sent_from", items)
        except ChannelClosed as exc:
            assert closed_now(), "ChannelClosed raised on an open channel"
            log(name, "ChannelClosed", str(exc))

    # ---------------- closer ----------------
    async def closer(times):
        rng = random.Random(f"{seed}-closer")
        for _ in range(times):
            await jitter(rng, 8)
            info["close_seen"] = True
            r = ch.close()
            log("closer", "close", r)

    # ---------------- receivers ----------------
    async def take(op):
        # records the global dequeue order at the moment the receive returns (the
        # operation may run in an inner task when it is to be cancelled / timed out)
        item = await op
        if item is not None:
            info["dequeued"].append(item)
        return item

    async def receiver(name, mode, disturb):
        rng = random.Random(f"{seed}-{name}")
        await jitter(rng)
        if mode == "for":
            async for item in ch:
                info["dequeued"].append(item)
                info["received"].append((name, item))
                log(name, "got", item)
                await jitter(rng, 2)
            log(name, "end")
            return
        while True:
            op = take(ch.receive() if mode == "receive" else ch.__anext__())
            action = None
            if disturb and rng.random() < 0.4:
                action = rng.choice(["cancel", "timeout0"])
            try:
                if action == "cancel":
                    t = asyncio.ensure_future(op)
                    await jitter(rng, 3)
                    was_done = t.done()
                    t.cancel()
                    try:
                        item = await t
                    except asyncio.CancelledError:
                        assert not was_done
                        info["cancel_outcomes"].append("cancelled")
                        log(name, "cancelled")
                        continue
                    assert was_done, "cancellation of a pending receive was swallowed"
                elif action == "timeout0":
                    t = asyncio.ensure_future(op)
                    await jitter(rng, 3)
                    was_done = t.done()
                    try:
                        item = await asyncio.wait_for(t, 0)
                    except asyncio.TimeoutError:
                        assert not was_done
                        info["cancel_outcomes"].append("timeout")
                        log(name, "timeout")
                        continue
                    assert was_done, "timeout of a pending receive was swallowed"
                else:
                    item = await op
            except ChannelDone as exc:
                assert mode == "receive"
                log(name, "ChannelDone", str(exc))
                return
            except StopAsyncIteration:
                assert mode == "anext"
                log(name, "StopAsyncIteration")
                return
            if mode == "receive" and item is None:
                log(name, "None")
                return
            info["received"].append((name, item))
            log(name, "got", item)
            await jitter(rng, 2)

    tasks = []
    single_close = False
    for s in range(n_senders):
        name = "abcd"[s]
        items = [Item(name, i, cfg.random() < 0.3) for i in range(cfg.choice([1, 2, 3]))]
        info["all_items"].extend(items)
        mode = cfg.choice(["send", "list", "tuple", "gen", "agen"])
        close_flag = mode != "send" and n_senders == 1 and cfg.random() < 0.4
        single_close = single_close or close_flag
        tasks.append(asyncio.ensure_future(sender(name, mode, items, close_flag)))
    disturbed = cfg.randrange(n_receivers) if cfg.random() < 0.6 else None
    for r in range(n_receivers):
        mode = cfg.choice(["receive", "anext", "for"])
        tasks.append(
            asyncio.ensure_future(receiver(f"R{r}", mode, disturb=(r == disturbed)))
        )
    if not single_close or cfg.random() < 0.5:
        tasks.append(asyncio.ensure_future(closer(cfg.choice([1, 1, 2]))))

    # Senders blocked on a full bounded buffer after every receiver has left can never
    # finish; wait for the receivers (must terminate) and for the closer, then give the
    # senders a bounded number of turns.
    recv_tasks = [t for t in tasks[n_senders:]]
    await asyncio.wait_for(asyncio.gather(*recv_tasks), 20)
    for _ in range(30):
        await asyncio.sleep(0)
    stuck = [t for t in tasks[:n_senders] if not t.done()]
    trace.append(("main", "stuck_senders", len(stuck)))
    for t in stuck:
        assert limit > 0, "a sender can only block on a bounded buffer"
        t.cancel()
    await asyncio.gather(*stuck, return_exceptions=True)

    # after the close every further send is rejected, every further receive terminates
    assert ch.closed()
    for label, make in (
        ("send", lambda: ch.send("late")),
        ("send_from", lambda: ch.send_from(["late"])),
        ("send_from_empty_close", lambda: ch.send_from([], close=True)),
    ):
        try:
            await make()
        except ChannelClosed as exc:
            trace.append(("main", label, "ChannelClosed", str(exc)))
        else:
            raise AssertionError(f"{label} after close was accepted")
    leftovers = []
    for _ in range(10):
        if ch.done():
            break
        leftovers.append(await asyncio.wait_for(ch.receive(), 5))
    trace.append(("main", "leftovers", repr(leftovers)))
    assert ch.done()
    try:
        await ch.receive()
    except ChannelDone as exc:
        trace.append(("main", "final_receive", "ChannelDone", str(exc)))
    else:
        raise AssertionError("receive on a done channel returned")
    try:
        await ch.__anext__()
    except StopAsyncIteration:
        trace.append(("main", "final_anext", "StopAsyncIteration"))
    else:
        raise AssertionError("__anext__ on a done channel returned")
    info["leftovers"] = leftovers

    # cancel whatever is still pending (e.g. a flush task blocked on a full buffer)
    me = asyncio.current_task()
    rest = [t for t in asyncio.all_tasks() if t is not me and not t.done()]
    for t in rest:
        t.cancel()
    await asyncio.gather(*rest, return_exceptions=True)
    return trace, info


def check_property(info, ctx):
    received = [it for _, it in info["received"]] + [
        it for it in info["leftovers"] if isinstance(it, Item)
    ]
    ids = [id(it) for it in received]
    assert sorted(ids) == sorted(
        [id(it) for it in info["dequeued"]] + [id(it) for it in info["leftovers"] if isinstance(it, Item)]
    ), "a dequeued item never reached its receiver: " + ctx
    assert len(ids) == len(set(ids)), "item received twice: " + ctx
    known = {id(it) for it in info["all_items"]}
    assert all(i in known for i in ids), "invented item: " + ctx
    got = set(ids)
    for it in info["completed_before_close"]:
        assert id(it) in got, f"item {it!r} sent before close was never received: " + ctx
    for sender in "ab":
        seq = [it.index for it in info["dequeued"] if it.sender == sender]
        assert seq == sorted(seq), f"sender {sender} reordered {seq}: " + ctx


async def _settle():
    for _ in range(3):
        await asyncio.sleep(0)


def run(cls, seed, shuffle_seed=None):
    loop = asyncio.new_event_loop() if shuffle_seed is None else ShuffleLoop(shuffle_seed)
    try:
        return loop.run_until_complete(scenario(cls, seed))
    finally:
        # let finalisers of abandoned async-generator sources run before closing
        loop.run_until_complete(_settle())
        loop.run_until_complete(loop.shutdown_asyncgens())
        loop.close()


def normalise(trace):
    return [tuple(str(x) for x in ev) for ev in trace]


# ---------------------------------------------------------------------------
# targeted deterministic checks (touched behaviour: send / send_from)
# ---------------------------------------------------------------------------
class AsyncSrc:
    """Class-based async iterable (no async generator)."""

    def __init__(self, items):
        self._it = iter(items)

    def __aiter__(self):
        return self

    async def __anext__(self):
        try:
            return next(self._it)
        except StopIteration:
            raise StopAsyncIteration


class Both:
    """Iterable AND async iterable: the async protocol must be preferred."""

    def __iter__(self):
        return iter(["sync1", "sync2"])

    def __aiter__(self):
        return AsyncSrc(["async1", "async2"])


class Boom(Exception):
    pass


async def drain(ch, n):
    return [await asyncio.wait_for(ch.receive(), 5) for _ in range(n)]


async def targeted(cls):
    out = []

    # --- send(): the item itself is enqueued, whatever it is; the channel is returned
    inner = cls()
    agen_obj = AsyncSrc([1, 2])
    gen_obj = (x for x in [1, 2])
    odd_items = [
        None, 0, "", (), [], {}, False, 0.0, b"", [1, 2], (3, 4), "str", {"k": 1},
        inner, agen_obj, gen_obj, Both(), Boom("as item"), StopIteration, object(),
        range(3), iter([1]), float("nan"),
    ]
    for limit in (0, 1, 2, -1):
        ch = cls(buffer_limit=limit)
        for it in odd_items:
            r = await asyncio.wait_for(ch.send(it), 5)
            assert r is ch
            got = await asyncio.wait_for(ch.__anext__(), 5)
            assert got is it, (it, got)
        out.append(("odd items ok", limit, ch.done(), ch.closed()))
    # generators / async sources passed to send() were not consumed
    assert list(gen_obj) == [1, 2]
    assert await agen_obj.__anext__() == 1

    # --- send_from with every kind of source, every close flag, every buffer limit
    def sources():
        yield "list", lambda: ["l1", "l2", "l3"], ["l1", "l2", "l3"]
        yield "tuple", lambda: ("t1",), ["t1"]
        yield "empty list", lambda: [], []
        yield "empty tuple", lambda: (), []
        yield "str", lambda: "abc", ["a", "b", "c"]
        yield "dict", lambda: {"k1": 1, "k2": 2}, ["k1", "k2"]
        yield "range", lambda: range(3), [0, 1, 2]
        yield "gen", lambda: (f"g{i}" for i in range(3)), ["g0", "g1", "g2"]
        yield "iter", lambda: iter([None, 0, ""]), [None, 0, ""]
        yield "async class", lambda: AsyncSrc(["x", "y"]), ["x", "y"]
        yield "async empty", lambda: AsyncSrc([]), []
        yield "both", lambda: Both(), ["async1", "async2"]
        yield "channel", None, ["c1", "c2"]

    for limit in (0, 1, 2, 5):
        for close in (False, True):
            for label, make, expect in sources():
                ch = cls(buffer_limit=limit)
                if label == "channel":
                    src = cls()
                    await src.send_from(["c1", "c2"], close=True)
                else:
                    src = make()
                got = []

                async def consume():
                    async for item in ch:
                        got.append(item)

                consumer = asyncio.ensure_future(consume())
                r = await asyncio.wait_for(ch.send_from(src, close=close), 5)
                assert r is ch
                out.append((label, limit, close, ch.closed()))
                assert ch.closed() is close
                if not close:
                    r = await asyncio.wait_for(ch.send("tail"), 5)
                    assert r is ch
                    ch.close()
                await asyncio.wait_for(consumer, 5)
                assert got == expect + ([] if close else ["tail"]), (label, got)
                assert ch.done()

    # --- closed channel: send / send_from rejected before touching source or buffer
    for limit in (0, 1):
        ch = cls(buffer_limit=limit)
        await ch.send("first")  # buffer of the bounded channel is now full
        ch.close()
        consumed = []

        def tracking():
            consumed.append("started")
            yield 1

        for label, coro in (
            ("send", lambda: ch.send("x")),
            ("send None", lambda: ch.send(None)),
            ("send_from list", lambda: ch.send_from(["x"])),
            ("send_from empty", lambda: ch.send_from([])),
            ("send_from gen", lambda: ch.send_from(tracking())),
            ("send_from close", lambda: ch.send_from(["x"], close=True)),
            ("send_from async", lambda: ch.send_from(AsyncSrc(["x"]))),
            ("send_from not iterable", lambda: ch.send_from(5)),
        ):
            try:
                await asyncio.wait_for(coro(), 5)
            except ChannelClosed as exc:
                out.append((label, limit, type(exc).__name__, str(exc), exc.args))
            else:
                raise AssertionError(f"{label} accepted on a closed channel")
        assert consumed == []
        assert await ch.receive() == "first"
        assert ch.done()

    # --- errors of an open channel
    ch = cls()
    for label, coro in (
        ("not iterable", lambda: ch.send_from(5)),
        ("none", lambda: ch.send_from(None)),
    ):
        try:
            await coro()
        except TypeError as exc:
            out.append((label, "TypeError"))
        else:
            raise AssertionError(label)

    def failing():
        yield "before"
        raise Boom("source failed")

    try:
        await ch.send_from(failing(), close=True)
    except Boom as exc:
        out.append(("source error", str(exc), ch.closed()))
    assert not ch.closed()
    assert await ch.receive() == "before"
    r = await ch.send(5)  # a non-iterable item is fine for send()
    assert r is ch and await ch.receive() == 5

    # --- bounded buffer: blocked senders, FIFO, close while blocked, cancellation
    ch = cls(buffer_limit=1)
    await ch.send("s0")
    s1 = asyncio.ensure_future(ch.send("s1"))
    s2 = asyncio.ensure_future(ch.send_from(["s2", "s3"]))
    s3 = asyncio.ensure_future(ch.send("s4"))
    for _ in range(3):
        await asyncio.sleep(0)
    out.append(("blocked", s1.done(), s2.done(), s3.done()))
    assert not (s1.done() or s2.done() or s3.done())
    s3.cancel()
    await asyncio.gather(s3, return_exceptions=True)
    assert s3.cancelled()
    ch.close()  # senders that were already waiting for a slot are not rejected
    late = asyncio.ensure_future(ch.send("late"))
    await asyncio.sleep(0)
    assert isinstance(late.exception(), ChannelClosed)
    got = []
    for _ in range(4):
        got.append(await asyncio.wait_for(ch.receive(), 5))
        await asyncio.sleep(0)
        await asyncio.sleep(0)
    out.append(("bounded order", got))
    assert got == ["s0", "s1", "s2", "s3"], got
    assert (await s1) is ch and (await s2) is ch
    assert ch.done()

    # --- timeout of a blocked send surfaces and enqueues nothing
    ch = cls(buffer_limit=1)
    await ch.send("only")
    try:
        await asyncio.wait_for(ch.send("never"), 0.01)
    except asyncio.TimeoutError:
        out.append("send timeout surfaced")
    else:
        raise AssertionError("no timeout")
    assert await ch.receive() == "only"
    ch.close()
    await asyncio.sleep(0)
    assert ch.done()

    # --- number of event-loop suspensions of send / send_from on a non-full buffer is 0
    ch = cls()
    ticks = []

    async def ticker():
        while True:
            ticks.append(1)
            await asyncio.sleep(0)

    tk = asyncio.ensure_future(ticker())
    await asyncio.sleep(0)
    before = len(ticks)
    await ch.send("a")
    await ch.send_from(["b", "c"])
    await ch.send_from(AsyncSrc(["d"]))
    await ch.send_from([], close=True)
    out.append(("suspensions", len(ticks) - before))
    assert len(ticks) == before
    tk.cancel()
    await asyncio.gather(tk, return_exceptions=True)
    assert [x async for x in ch] == ["a", "b", "c", "d"]
    return [repr(x) for x in out]


def main():
    ref = asyncio.run(targeted(RefAsyncChannel))
    lib = asyncio.run(targeted(AsyncChannel))
    assert ref == lib, (ref, lib)

    n_nat, n_shuf = 2500, 2500
    cancels = 0
    for seed in range(n_nat):
        t_ref, _ = run(RefAsyncChannel, seed)
        t_lib, info = run(AsyncChannel, seed)
        assert normalise(t_ref) == normalise(t_lib), f"trace differs, seed {seed}"
        check_property(info, f"natural seed={seed}")
        cancels += len(info["cancel_outcomes"])
    for seed in range(n_shuf):
        t_ref, _ = run(RefAsyncChannel, seed, shuffle_seed=seed * 7 + 1)
        t_lib, info = run(AsyncChannel, seed, shuffle_seed=seed * 7 + 1)
        assert normalise(t_ref) == normalise(t_lib), f"trace differs, shuffled seed {seed}"
        check_property(info, f"shuffled seed={seed}")
        cancels += len(info["cancel_outcomes"])
    print(f"ok: {n_nat} natural + {n_shuf} shuffled schedules, {cancels} cancellations/timeouts")


if __name__ == "__main__":
    main()
    sys.exit(0)
