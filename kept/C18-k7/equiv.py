"""C18 keep1: betterproto.plugin.parser.traverse (the walk over all messages and enums
of a .proto file that feeds read_protobuf_type) must keep yielding the same items,
in the same order, with the same flattened names and the same source-info paths,
and must stay lazy (children are renamed only after their parent was handed out).

Checked here
 1. against an independent recursive specification on ~600 random descriptor trees
    (empty files, wide levels, nesting up to depth 9, enums everywhere);
 2. every yielded path really addresses the yielded object inside the file
    descriptor (field numbers 4/5 at file level, 3/4 inside a message);
 3. laziness: while an item is being consumed its descendants still carry their
    original proto names, already consumed items keep their flattened name;
 4. against google.protobuf descriptors of a protoc-compiled schema (full names);
 5. end to end (the rendered sources are also pinned by a digest): the plugin is run under all 3 x 2 option combinations on a schema with
    nested messages, nested enums, nested maps, oneofs and comments; every variant
    imports, defines exactly the expected flattened classes with the docstrings taken
    from the right source-info path, and all variants encode equal values equally.

Run:  PYTHONPATH=<worktree>/src /venv/bin/python equiv.py
"""
import dataclasses
import hashlib
import importlib
import itertools
import os
import random
import shutil
import sys
import tempfile

import grpc_tools
from google.protobuf import descriptor_pb2
from grpc_tools import protoc as _protoc

import betterproto
import betterproto.plugin.compiler as plugin_compiler
from betterproto.lib.google.protobuf import (
    DescriptorProto,
    EnumDescriptorProto,
    EnumValueDescriptorProto,
    FileDescriptorProto,
    FileDescriptorSet,
)
from betterproto.lib.google.protobuf.compiler import CodeGeneratorRequest
from betterproto.plugin.models import monkey_patch_oneof_index
from betterproto.plugin.parser import generate_code, traverse

plugin_compiler.subprocess.check_output = lambda cmd, input, encoding: input
monkey_patch_oneof_index()


# --------------------------------------------------------------------------- 1-3
def spec(proto_file):
    """Independent specification: list of (kind, flattened name, path, original name)
    in pre-order, enums of a level before its messages; does not modify anything."""
    out = []

    def level(path, items, prefix):
        for i, item in enumerate(items):
            flat = f"{prefix}_{item.name}"
            is_msg = isinstance(item, DescriptorProto)
            out.append(("message" if is_msg else "enum", flat, [*path, i], item.name))
            if is_msg:
                level([*path, i, 4], item.enum_type, flat)
                level([*path, i, 3], item.nested_type, flat)

    level([5], proto_file.enum_type, "")
    level([4], proto_file.message_type, "")
    return out


def resolve(proto_file, path):
    """Follow a source-info path inside the file descriptor."""
    assert len(path) % 2 == 0
    node = proto_file
    top = True
    for number, index in zip(path[::2], path[1::2]):
        if top:
            container = {4: node.message_type, 5: node.enum_type}[number]
        else:
            container = {3: node.nested_type, 4: node.enum_type}[number]
        node = container[index]
        top = False
    return node


def descendants(item):
    if isinstance(item, DescriptorProto):
        for child in [*item.enum_type, *item.nested_type]:
            yield child
            yield from descendants(child)


def random_enum(rng, names):
    return EnumDescriptorProto(
        name=next(names),
        value=[EnumValueDescriptorProto(name="V", number=0)],
    )


def random_message(rng, names, depth, max_depth):
    msg = DescriptorProto(name=next(names))
    if depth < max_depth:
        for _ in range(rng.choice([0, 0, 1, 2, 3])):
            msg.enum_type.append(random_enum(rng, names))
        for _ in range(rng.choice([0, 1, 1, 2, 3]) if depth < 3 else rng.choice([0, 1])):
            msg.nested_type.append(random_message(rng, names, depth + 1, max_depth))
    return msg


def name_source(rng):
    # names with and without underscores / digits; repeated names on purpose
    pool = ["A", "B", "Inner", "Outer", "my_msg", "E", "Kind", "X1", "_lead", "Entry", "FooEntry"]
    while True:
        yield rng.choice(pool) + rng.choice(["", "", "_", "2", "X"])


def random_file(rng):
    names = name_source(rng)
    f = FileDescriptorProto(name="f.proto", package=rng.choice(["", "pkg", "a.b"]))
    shape = rng.random()
    if shape < 0.05:
        return f  # empty file
    max_depth = rng.choice([0, 1, 2, 3, 5, 9])
    for _ in range(rng.choice([0, 1, 2, 4])):
        f.enum_type.append(random_enum(rng, names))
    for _ in range(rng.choice([0, 1, 2, 3, 6])):
        f.message_type.append(random_message(rng, names, 0, max_depth))
    return f


def check_tree(proto_file):
    expected = spec(proto_file)
    original = bytes(proto_file)
    all_items = []
    for top in [*proto_file.enum_type, *proto_file.message_type]:
        all_items.append(top)
        all_items.extend(descendants(top))
    original_name = {id(x): x.name for x in all_items}

    seen = []
    gen = traverse(proto_file)
    assert iter(gen) is gen  # still a lazily evaluated iterator
    for (item, path), (kind, flat, want_path, orig) in itertools.zip_longest(
        gen, expected, fillvalue=(None, None, None, None)
    ):
        assert item is not None and kind is not None, "different number of items"
        assert isinstance(path, list) and path == want_path, (path, want_path)
        assert isinstance(item, DescriptorProto if kind == "message" else EnumDescriptorProto)
        assert item.name == flat, (item.name, flat)
        assert original_name[id(item)] == orig
        # the path addresses exactly this object
        assert resolve(proto_file, path) is item
        # laziness: nothing below the current item was renamed yet ...
        for d in descendants(item):
            assert d.name == original_name[id(d)], "child renamed before its parent was consumed"
        # ... and everything handed out earlier keeps its flattened name
        for earlier, earlier_flat in seen:
            assert earlier.name == earlier_flat
        seen.append((item, flat))
    assert len(seen) == len(all_items) == len(expected)
    # only names were touched
    for item, _ in seen:
        item.name = original_name[id(item)]
    assert bytes(proto_file) == original
    return len(seen)


def part_random_trees():
    rng = random.Random(1807)
    total = 0
    deepest = 0
    for _ in range(600):
        f = random_file(rng)
        for _, _, path, _ in spec(f):
            deepest = max(deepest, len(path) // 2)
        total += check_tree(f)
    # hand-made boundary shapes
    chain = DescriptorProto(name="L0")
    cur = chain
    for d in range(1, 40):
        nxt = DescriptorProto(name=f"L{d}")
        cur.enum_type.append(EnumDescriptorProto(name=f"E{d}"))
        cur.nested_type.append(nxt)
        cur = nxt
    total += check_tree(FileDescriptorProto(name="deep.proto", message_type=[chain]))
    wide = FileDescriptorProto(
        name="wide.proto",
        enum_type=[EnumDescriptorProto(name=f"E{i}") for i in range(50)],
        message_type=[
            DescriptorProto(
                name=f"M{i}",
                enum_type=[EnumDescriptorProto(name="E")] * 0 + [EnumDescriptorProto(name=f"e{i}")],
                nested_type=[DescriptorProto(name=f"n{j}") for j in range(i % 4)],
            )
            for i in range(50)
        ],
    )
    total += check_tree(wide)
    assert check_tree(FileDescriptorProto(name="empty.proto")) == 0
    assert check_tree(FileDescriptorProto(name="e.proto", enum_type=[EnumDescriptorProto(name="Only")])) == 1
    assert deepest >= 8 and total > 3000, (deepest, total)
    return total


# --------------------------------------------------------------------------- 4-5
PROTOS = {
    "zoo/animals.proto": """
syntax = "proto3";
package zoo;
import "zoo/food/menu.proto";

// top enum
enum Size { SIZE_SMALL = 0; SIZE_BIG = 1; }

// cage doc
message Cage {
  // cage kind doc
  enum Kind { KIND_OPEN = 0; KIND_CLOSED = 1; }
  // animal doc
  message Animal {
    // leg doc
    message Leg {
      // leg side doc
      enum Side { SIDE_LEFT = 0; SIDE_RIGHT = 1; }
      Side side = 1;
      map<string, Side> by_name = 2;
      optional int32 length = 3;
    }
    string name = 1;
    repeated Leg legs = 2;
    map<int32, Leg> leg_by_number = 3;
    oneof mood { string happy = 4; Leg.Side leaning = 5; Leg hurt = 6; }
    Size size = 7;
  }
  // keeper doc
  message Keeper { string name = 1; zoo.food.Menu menu = 2; }
  Kind kind = 1;
  repeated Animal animals = 2;
  map<string, Animal> named = 3;
  Keeper keeper = 4;
  optional Animal.Leg spare = 5;
}

// second top message
message Visitor {
  // ticket doc
  message Ticket { int64 number = 1; Cage.Kind allowed = 2; }
  repeated Ticket tickets = 1;
}

service Zoo {
  rpc Find(Visitor.Ticket) returns (Cage.Animal);
  rpc Stream(Visitor) returns (stream Cage.Animal.Leg);
  rpc Feed(stream zoo.food.Menu) returns (Cage);
  rpc Talk(stream Cage.Keeper) returns (stream zoo.food.Menu);
}
""",
    "zoo/food/menu.proto": """
syntax = "proto3";
package zoo.food;
// menu doc
message Menu {
  // dish doc
  message Dish { string name = 1; }
  repeated Dish dishes = 1;
  map<string, Dish> specials = 2;
}
""",
}

EXPECTED_CLASSES = {
    "zoo": {
        "Size": "top enum",
        "CageKind": "cage kind doc",
        "CageAnimalLegSide": "leg side doc",
        "Cage": "cage doc",
        "CageAnimal": "animal doc",
        "CageAnimalLeg": "leg doc",
        "CageKeeper": "keeper doc",
        "Visitor": "second top message",
        "VisitorTicket": "ticket doc",
    },
    "zoo.food": {"Menu": "menu doc", "MenuDish": "dish doc"},
}
EXPECTED_ORDER = {
    "zoo": ["Size", "CageKind", "CageAnimalLegSide", "Cage", "CageAnimal",
            "CageAnimalLeg", "CageKeeper", "Visitor", "VisitorTicket", "ZooStub", "ZooBase"],
    "zoo.food": ["Menu", "MenuDish"],
}

SOURCES_SHA256 = "5c316dc44ad80ad98910f31e09cac04abd4d7eda8a874d0d8b86fa0c55ca0c54"

TYPING = ["typing.direct", "typing.root", "typing.310"]
CONFIGS = [t + (",pydantic_dataclasses" if p else "") for t in TYPING for p in (False, True)]


def descriptor_set(protos):
    d = tempfile.mkdtemp(prefix="c18proto")
    try:
        for name, text in protos.items():
            path = os.path.join(d, name)
            os.makedirs(os.path.dirname(path), exist_ok=True)
            with open(path, "w") as fh:
                fh.write(text)
        out = os.path.join(d, "set.bin")
        inc = os.path.join(os.path.dirname(grpc_tools.__file__), "_proto")
        rc = _protoc.main(
            ["protoc", f"-I{d}", f"-I{inc}", f"--descriptor_set_out={out}",
             "--include_imports", "--include_source_info", *protos]
        )
        assert rc == 0
        with open(out, "rb") as fh:
            return fh.read()
    finally:
        shutil.rmtree(d)


_counter = itertools.count()


def run_plugin(fds_bytes, names, option):
    fds = FileDescriptorSet().parse(fds_bytes)
    request = CodeGeneratorRequest(file_to_generate=list(names), parameter=option, proto_file=fds.file)
    saved, sys.stderr = sys.stderr, open(os.devnull, "w")
    try:
        response = generate_code(request)
    finally:
        sys.stderr.close()
        sys.stderr = saved
    return {f.name: f.content for f in response.file}


def materialize(files, root):
    pkg = f"c18keep1_{next(_counter)}"
    base = os.path.join(root, pkg)
    os.makedirs(base)
    for name, content in files.items():
        path = os.path.join(base, name)
        os.makedirs(os.path.dirname(path), exist_ok=True)
        with open(path, "w") as fh:
            fh.write(content)
    return pkg


def shape(module):
    out = {}
    for name in module.__all__:
        obj = getattr(module, name)
        if isinstance(obj, type) and issubclass(obj, betterproto.Enum):
            out[name] = tuple((m.name, int(m)) for m in obj)
        elif isinstance(obj, type) and issubclass(obj, betterproto.Message):
            out[name] = tuple(
                (f.name, m.number, m.proto_type, m.map_types, m.group)
                for f in dataclasses.fields(obj)
                for m in [f.metadata["betterproto"]]
            )
    return out


def part_end_to_end(fds_bytes):
    root = tempfile.mkdtemp(prefix="c18gen")
    sys.path.insert(0, root)
    try:
        reference = None
        sources = {}
        for option in CONFIGS:
            files = run_plugin(fds_bytes, list(PROTOS), option)
            assert {"zoo/__init__.py", "zoo/food/__init__.py"} <= set(files), sorted(files)
            assert all(name.endswith("__init__.py") for name in files), sorted(files)
            sources[option] = files
            pkg = materialize(files, root)
            mods = {
                "zoo": importlib.import_module(f"{pkg}.zoo"),
                "zoo.food": importlib.import_module(f"{pkg}.zoo.food"),
            }
            for pkg_name, mod in mods.items():
                assert list(mod.__all__) == EXPECTED_ORDER[pkg_name], (option, mod.__all__)
                for cls_name, doc in EXPECTED_CLASSES[pkg_name].items():
                    cls = getattr(mod, cls_name)
                    assert cls.__doc__.strip() == doc, (option, cls_name, cls.__doc__)
            zoo, food = mods["zoo"], mods["zoo.food"]
            leg = zoo.CageAnimalLeg(side=1, by_name={"l": 0, "r": 1}, length=0)
            animal = zoo.CageAnimal(name="rex", legs=[leg, zoo.CageAnimalLeg()],
                                    leg_by_number={4: leg}, leaning=1, size=1)
            cage = zoo.Cage(
                kind=zoo.CageKind.KIND_CLOSED, animals=[animal], named={"rex": animal},
                keeper=zoo.CageKeeper(name="k", menu=food.Menu(
                    dishes=[food.MenuDish(name="hay")], specials={"x": food.MenuDish()})),
                spare=zoo.CageAnimalLeg(),
            )
            visitor = zoo.Visitor(tickets=[zoo.VisitorTicket(number=2**40, allowed=1)])
            hurt = zoo.CageAnimal(hurt=zoo.CageAnimalLeg(side=zoo.CageAnimalLegSide.SIDE_RIGHT))
            result = (
                shape(zoo), shape(food),
                [(bytes(m), m.to_json()) for m in (leg, animal, cage, visitor, hurt, zoo.Cage())],
            )
            # decode what another variant would send
            again = zoo.Cage().parse(bytes(cage))
            assert bytes(again) == bytes(cage) and again.to_json() == cage.to_json()
            assert again.animals[0].legs[0].side == zoo.CageAnimalLegSide.SIDE_RIGHT
            if reference is None:
                reference = result
                assert set(result[0]) == set(EXPECTED_CLASSES["zoo"])
                assert result[0]["CageAnimalLegSide"] == (("SIDE_LEFT", 0), ("SIDE_RIGHT", 1))
                assert result[0]["CageAnimal"][3] == ("happy", 4, "string", None, "mood")
                assert result[2][5] == (b"", "{}")
            assert result == reference, option
        return sources
    finally:
        shutil.rmtree(root, ignore_errors=True)
        sys.path.remove(root)


def main():
    n = part_random_trees()
    fds = descriptor_set(PROTOS)
    # map entry messages are part of the walk as well (they are skipped later)
    bset = FileDescriptorSet().parse(fds)
    names = [item.name for f in bset.file for item, _ in traverse(f)]
    assert "_Cage_Animal_Leg_ByNameEntry" in names and "_Menu_SpecialsEntry" in names
    assert len(names) == 11 + 4, names
    part_google_checked = part_google(fds)
    sources = part_end_to_end(fds)
    # the rendered modules themselves are pinned (digest taken on the reference tree)
    digest = hashlib.sha256()
    for option in CONFIGS:
        for name in sorted(sources[option]):
            digest.update(name.encode())
            digest.update(sources[option][name].encode())
    assert digest.hexdigest() == SOURCES_SHA256, digest.hexdigest()
    print(f"OK: {n} items in random trees, {part_google_checked} items vs google.protobuf, "
          f"{len(CONFIGS)} configurations end to end")


def part_google(fds_bytes):
    gset = descriptor_pb2.FileDescriptorSet.FromString(fds_bytes)
    bset = FileDescriptorSet().parse(fds_bytes)
    checked = 0
    for gfile, bfile in zip(gset.file, bset.file):
        assert gfile.name == bfile.name
        want = []

        def walk(gmsgs, genums, parents):
            for e in genums:
                want.append(("enum", parents + [e.name]))
            for m in gmsgs:
                want.append(("message", parents + [m.name]))
                walk(m.nested_type, m.enum_type, parents + [m.name])

        walk(gfile.message_type, gfile.enum_type, [])
        got = [
            ("message" if isinstance(item, DescriptorProto) else "enum", item.name)
            for item, _ in traverse(bfile)
        ]
        assert got == [(kind, "".join("_" + p for p in parts)) for kind, parts in want], (got, want)
        checked += len(got)
    return checked


if __name__ == "__main__":
    main()
