"""C18 / keep1: equivalence checks for betterproto.compile.importing.get_type_reference.

Part 1 compares get_type_reference (return value, recorded imports, recorded typing
imports) with a verbatim copy of the reference implementation (``oracle_*`` below) on
every combination of a pool of current packages, source packages, type names, the
``unwrap`` / ``pydantic`` flags and the three typing compilers, plus pinned literals.

Part 2 runs the protoc plugin in-process on a schema whose messages and services
reference siblings, descendants, ancestors, cousins, the root package and the
google well-known types, under all option combinations; every variant has to import,
to have the same shape as the default variant, and to encode the same values to the
same bytes (also compared with google.protobuf) and the same JSON.

Run as:  PYTHONPATH=<worktree>/src /venv/bin/python equiv.py
"""
import atexit
import contextlib
import dataclasses
import importlib
import io
import itertools
import json
import os
import pathlib
import re
import shutil
import sys
import tempfile
import types
import typing
from typing import Dict, List, Set, Tuple, Type

import grpc_tools
from grpc_tools import protoc as _protoc

import betterproto
import betterproto.plugin.compiler as plugin_compiler

plugin_compiler.subprocess.check_output = lambda cmd, input, encoding: input

from betterproto.casing import safe_snake_case
from betterproto.compile.importing import WRAPPER_TYPES, get_type_reference, parse_source_type_name
from betterproto.compile.naming import pythonize_class_name
from betterproto.lib.google.protobuf import FileDescriptorSet
from betterproto.lib.google.protobuf.compiler import CodeGeneratorRequest
from betterproto.plugin.models import monkey_patch_oneof_index
from betterproto.plugin.parser import generate_code
from betterproto.plugin.typing_compiler import (
    DirectImportTypingCompiler,
    NoTyping310TypingCompiler,
    TypingImportTypingCompiler,
)

monkey_patch_oneof_index()


# ----------------------------------------------------------------------------------
# Verbatim copy of the reference implementation (functions renamed oracle_*).
# ----------------------------------------------------------------------------------
def oracle_parse_source_type_name(field_type_name: str) -> Tuple[str, str]:
    """
    Split full source type name into package and type name.
    E.g. 'root.package.Message' -> ('root.package', 'Message')
         'root.Message.SomeEnum' -> ('root', 'Message.SomeEnum')
    """
    package_match = re.match(r"^\.?([^A-Z]+)\.(.+)", field_type_name)
    if package_match:
        package = package_match.group(1)
        name = package_match.group(2)
    else:
        package = ""
        name = field_type_name.lstrip(".")
    return package, name


def oracle_get_type_reference(
    *,
    package: str,
    imports: set,
    source_type: str,
    typing_compiler,
    unwrap: bool = True,
    pydantic: bool = False,
) -> str:
    """
    Return a Python type name for a proto type reference. Adds the import if
    necessary. Unwraps well known type if required.
    """
    if unwrap:
        if source_type in WRAPPER_TYPES:
            wrapped_type = type(WRAPPER_TYPES[source_type]().value)
            return typing_compiler.optional(wrapped_type.__name__)

        if source_type == ".google.protobuf.Duration":
            return "timedelta"

        elif source_type == ".google.protobuf.Timestamp":
            return "datetime"

    source_package, source_type = oracle_parse_source_type_name(source_type)

    current_package: List[str] = package.split(".") if package else []
    py_package: List[str] = source_package.split(".") if source_package else []
    py_type: str = pythonize_class_name(source_type)

    compiling_google_protobuf = current_package == ["google", "protobuf"]
    importing_google_protobuf = py_package == ["google", "protobuf"]
    if importing_google_protobuf and not compiling_google_protobuf:
        py_package = (
            ["betterproto", "lib"] + (["pydantic"] if pydantic else []) + py_package
        )

    if py_package[:1] == ["betterproto"]:
        return oracle_reference_absolute(imports, py_package, py_type)

    if py_package == current_package:
        return oracle_reference_sibling(py_type)

    if py_package[: len(current_package)] == current_package:
        return oracle_reference_descendent(current_package, imports, py_package, py_type)

    if current_package[: len(py_package)] == py_package:
        return oracle_reference_ancestor(current_package, imports, py_package, py_type)

    return oracle_reference_cousin(current_package, imports, py_package, py_type)


def oracle_reference_absolute(imports: Set[str], py_package: List[str], py_type: str) -> str:
    """
    Returns a reference to a python type located in the root, i.e. sys.path.
    """
    string_import = ".".join(py_package)
    string_alias = safe_snake_case(string_import)
    imports.add(f"import {string_import} as {string_alias}")
    return f'"{string_alias}.{py_type}"'


def oracle_reference_sibling(py_type: str) -> str:
    """
    Returns a reference to a python type within the same package as the current package.
    """
    return f'"{py_type}"'


def oracle_reference_descendent(
    current_package: List[str], imports: Set[str], py_package: List[str], py_type: str
) -> str:
    """
    Returns a reference to a python type in a package that is a descendent of the
    current package, and adds the required import that is aliased to avoid name
    conflicts.
    """
    importing_descendent = py_package[len(current_package) :]
    string_from = ".".join(importing_descendent[:-1])
    string_import = importing_descendent[-1]
    if string_from:
        string_alias = "_".join(importing_descendent)
        imports.add(f"from .{string_from} import {string_import} as {string_alias}")
        return f'"{string_alias}.{py_type}"'
    else:
        imports.add(f"from . import {string_import}")
        return f'"{string_import}.{py_type}"'


def oracle_reference_ancestor(
    current_package: List[str], imports: Set[str], py_package: List[str], py_type: str
) -> str:
    """
    Returns a reference to a python type in a package which is an ancestor to the
    current package, and adds the required import that is aliased (if possible) to avoid
    name conflicts.

    Adds trailing __ to avoid name mangling (python.org/dev/peps/pep-0008/#id34).
    """
    distance_up = len(current_package) - len(py_package)
    if py_package:
        string_import = py_package[-1]
        string_alias = f"_{'_' * distance_up}{string_import}__"
        string_from = f"..{'.' * distance_up}"
        imports.add(f"from {string_from} import {string_import} as {string_alias}")
        return f'"{string_alias}.{py_type}"'
    else:
        string_alias = f"{'_' * distance_up}{py_type}__"
        imports.add(f"from .{'.' * distance_up} import {py_type} as {string_alias}")
        return f'"{string_alias}"'


def oracle_reference_cousin(
    current_package: List[str], imports: Set[str], py_package: List[str], py_type: str
) -> str:
    """
    Returns a reference to a python type in a package that is not descendent, ancestor
    or sibling, and adds the required import that is aliased to avoid name conflicts.
    """
    shared_ancestry = os.path.commonprefix([current_package, py_package])  # type: ignore
    distance_up = len(current_package) - len(shared_ancestry)
    string_from = f".{'.' * distance_up}" + ".".join(
        py_package[len(shared_ancestry) : -1]
    )
    string_import = py_package[-1]
    # Add trailing __ to avoid name mangling (python.org/dev/peps/pep-0008/#id34)
    string_alias = (
        f"{'_' * distance_up}"
        + safe_snake_case(".".join(py_package[len(shared_ancestry) :]))
        + "__"
    )
    imports.add(f"from {string_from} import {string_import} as {string_alias}")
    return f'"{string_alias}.{py_type}"'


# ----------------------------------------------------------------------------------
# Part 1: get_type_reference against the oracle
# ----------------------------------------------------------------------------------
PACKAGES = [
    "", "a", "a.b", "a.b.c", "a.b.c.d", "a.bc", "a.x", "a.x.c", "ab", "b", "b.a", "x.y.z",
    "google", "google.protobuf", "google.protobuf.compiler", "google.type", "google.api",
    "betterproto", "betterproto.lib", "betterproto.lib.google.protobuf",
    "betterproto.lib.pydantic.google.protobuf", "protobuf", "my.google.protobuf",
    "with_underscore.sub_pkg", "v1", "a.v1", "a.v1beta2",
]
TYPE_NAMES = [
    "Msg", "Outer.Inner", "Outer.Inner.Leaf", "HTTPRequest", "snake_name", "lower",
    "Empty", "Struct", "Any", "Duration", "Timestamp", "Int32Value", "BoolValue", "EnumValue",
    "Class", "None", "Type", "X",
]
COMPILERS = [DirectImportTypingCompiler, TypingImportTypingCompiler, NoTyping310TypingCompiler]


def source_type(package: str, name: str) -> str:
    return f".{package}.{name}" if package else f".{name}"


def both(package, src, compiler_cls, unwrap, pydantic):
    results = []
    for fn in (get_type_reference, oracle_get_type_reference):
        imports: Set[str] = set()
        compiler = compiler_cls()
        try:
            ref = fn(package=package, imports=imports, source_type=src,
                     typing_compiler=compiler, unwrap=unwrap, pydantic=pydantic)
        except Exception as exc:  # must fail alike, if at all
            ref = ("raised", type(exc).__name__, str(exc))
        results.append((ref, frozenset(imports), compiler.imports()))
    return results


checked = 0
for package, src_package, name in itertools.product(PACKAGES, PACKAGES, TYPE_NAMES):
    src = source_type(src_package, name)
    for compiler_cls, unwrap, pydantic in itertools.product(COMPILERS, (True, False), (True, False)):
        new, old = both(package, src, compiler_cls, unwrap, pydantic)
        assert new == old, (package, src, compiler_cls.__name__, unwrap, pydantic, new, old)
        checked += 1
# source types without the leading dot, and the wrapper table itself
for package, src_package, name in itertools.product(PACKAGES[:8], PACKAGES[:8], TYPE_NAMES[:6]):
    src = source_type(src_package, name).lstrip(".")
    for compiler_cls, unwrap, pydantic in itertools.product(COMPILERS, (True, False), (True, False)):
        new, old = both(package, src, compiler_cls, unwrap, pydantic)
        assert new == old, (package, src, new, old)
        checked += 1
for package in PACKAGES:
    for src in list(WRAPPER_TYPES) + [".google.protobuf.Duration", ".google.protobuf.Timestamp"]:
        for compiler_cls, unwrap, pydantic in itertools.product(COMPILERS, (True, False), (True, False)):
            new, old = both(package, src, compiler_cls, unwrap, pydantic)
            assert new == old, (package, src, new, old)
            checked += 1
assert checked > 100_000, checked


def ref(package, src, *, unwrap=True, pydantic=False, compiler=DirectImportTypingCompiler):
    imports: Set[str] = set()
    out = get_type_reference(package=package, imports=imports, source_type=src,
                             typing_compiler=compiler(), unwrap=unwrap, pydantic=pydantic)
    return out, imports


# Pinned literals: one for every kind of relation between the two packages.
assert ref("a.b", ".a.b.Msg") == ('"Msg"', set())
assert ref("", ".Msg") == ('"Msg"', set())
assert ref("a.b", ".a.b.Outer.Inner") == ('"OuterInner"', set())
assert ref("a", ".a.b.Msg") == ('"b.Msg"', {"from . import b"})
assert ref("a", ".a.b.c.Msg") == ('"b_c.Msg"', {"from .b import c as b_c"})
assert ref("", ".a.Msg") == ('"a.Msg"', {"from . import a"})
assert ref("", ".a.b.Msg") == ('"a_b.Msg"', {"from .a import b as a_b"})
assert ref("a.b", ".a.Msg") == ('"__a__.Msg"', {"from ... import a as __a__"})
assert ref("a.b.c", ".a.Msg") == ('"___a__.Msg"', {"from .... import a as ___a__"})
assert ref("a.b.c", ".a.b.Msg") == ('"__b__.Msg"', {"from ... import b as __b__"})
assert ref("a.b", ".Msg") == ('"__Msg__"', {"from ... import Msg as __Msg__"})
assert ref("a", ".Msg") == ('"_Msg__"', {"from .. import Msg as _Msg__"})
assert ref("a.b", ".a.x.Msg") == ('"_x__.Msg"', {"from .. import x as _x__"})
assert ref("a.b", ".x.y.z.Msg") == ('"__x_y_z__.Msg"', {"from ...x.y import z as __x_y_z__"})
assert ref("a.bc", ".a.b.Msg") == ('"_b__.Msg"', {"from .. import b as _b__"})
assert ref("ab", ".a.Msg") == ('"_a__.Msg"', {"from .. import a as _a__"})
assert ref("a", ".google.protobuf.Empty") == (
    '"betterproto_lib_google_protobuf.Empty"',
    {"import betterproto.lib.google.protobuf as betterproto_lib_google_protobuf"},
)
assert ref("a", ".google.protobuf.Empty", pydantic=True) == (
    '"betterproto_lib_pydantic_google_protobuf.Empty"',
    {"import betterproto.lib.pydantic.google.protobuf as betterproto_lib_pydantic_google_protobuf"},
)
assert ref("google.protobuf", ".google.protobuf.Empty", pydantic=True) == ('"Empty"', set())
assert ref("google.protobuf.compiler", ".google.protobuf.FileDescriptorProto") == (
    '"betterproto_lib_google_protobuf.FileDescriptorProto"',
    {"import betterproto.lib.google.protobuf as betterproto_lib_google_protobuf"},
)
assert ref("google.protobuf", ".google.protobuf.compiler.Version") == (
    '"compiler.Version"', {"from . import compiler"})
assert ref("a", ".google.type.Date") == ('"_google_type__.Date"', {"from ..google import type as _google_type__"})
assert ref("a", ".betterproto.lib.google.protobuf.Empty") == (
    '"betterproto_lib_google_protobuf.Empty"',
    {"import betterproto.lib.google.protobuf as betterproto_lib_google_protobuf"},
)
assert ref("a", ".google.protobuf.Duration") == ("timedelta", set())
assert ref("a", ".google.protobuf.Timestamp") == ("datetime", set())
assert ref("google.protobuf", ".google.protobuf.Timestamp") == ("datetime", set())
assert ref("google.protobuf", ".google.protobuf.Timestamp", unwrap=False) == ('"Timestamp"', set())
assert ref("a", ".google.protobuf.Duration", unwrap=False, pydantic=True)[0] == (
    '"betterproto_lib_pydantic_google_protobuf.Duration"')
assert ref("a", ".google.protobuf.Int32Value") == ("Optional[int]", set())
assert ref("a", ".google.protobuf.BytesValue", compiler=TypingImportTypingCompiler) == (
    "typing.Optional[bytes]", set())
assert ref("a", ".google.protobuf.StringValue", compiler=NoTyping310TypingCompiler) == (
    '"str | None"', set())
assert ref("a", ".google.protobuf.BoolValue", unwrap=False)[0] == '"betterproto_lib_google_protobuf.BoolValue"'
assert ref("a", ".google.protobuf.EnumValue")[0] == '"betterproto_lib_google_protobuf.EnumValue"'
assert parse_source_type_name(".a.b.Outer.Inner") == oracle_parse_source_type_name(".a.b.Outer.Inner") == ("a.b", "Outer.Inner")
print(f"part 1: {checked} combinations agree with the reference implementation")


# ----------------------------------------------------------------------------------
# Part 2: whole generated packages with every kind of cross-package reference
# ----------------------------------------------------------------------------------
from google.protobuf import descriptor_pb2, descriptor_pool, json_format, message_factory

WKT = str(pathlib.Path(grpc_tools.__file__).parent / "_proto")
ROOT = tempfile.mkdtemp(prefix="c18_keep1_")
atexit.register(shutil.rmtree, ROOT, ignore_errors=True)
sys.path.insert(0, ROOT)
_counter = itertools.count()

CONFIGS = [""] + [
    ",".join(opt for opt in (typing_opt, dataclass_opt) if opt)
    for typing_opt in ("typing.direct", "typing.root", "typing.310")
    for dataclass_opt in ("", "pydantic_dataclasses")
]

PROTOS = {
    "rootless.proto": """
syntax = "proto3";
import "top/mid/mid.proto";
message RootMsg { string name = 1; top.mid.Mid deep = 2; repeated top.mid.Mid.Kind kinds = 3; }
""",
    "top/top.proto": """
syntax = "proto3";
package top;
import "top/mid/leaf/leaf.proto";
message T { int32 n = 1; top.mid.leaf.L far = 2; map<string, top.mid.leaf.L> by_name = 3; }
""",
    "top/mid/leaf/leaf.proto": """
syntax = "proto3";
package top.mid.leaf;
message L { sint64 z = 1; enum Mode { OFF = 0; ON = 1; } Mode mode = 2; }
""",
    "top/other/other.proto": """
syntax = "proto3";
package top.other;
message O { bytes raw = 1; }
""",
    "zed/zed.proto": """
syntax = "proto3";
package zed.v1;
message Z { double d = 1; }
""",
    "top/mid/mid.proto": """
syntax = "proto3";
package top.mid;
import "top/top.proto";
import "top/mid/leaf/leaf.proto";
import "top/other/other.proto";
import "zed/zed.proto";
import "google/protobuf/empty.proto";
import "google/protobuf/struct.proto";
import "google/protobuf/any.proto";
import "google/protobuf/timestamp.proto";
import "google/protobuf/duration.proto";
import "google/protobuf/wrappers.proto";
message Sibling { uint32 u = 1; }
message Mid {
  enum Kind { NONE = 0; SOME = 1; }
  Sibling sibling = 1;
  top.mid.leaf.L descendant = 2;
  top.T ancestor = 3;
  top.other.O cousin = 4;
  zed.v1.Z stranger = 5;
  google.protobuf.Empty empty = 6;
  google.protobuf.Value value = 7;
  google.protobuf.Timestamp at = 8;
  google.protobuf.Duration took = 9;
  google.protobuf.Int64Value big = 10;
  repeated top.other.O cousins = 11;
  map<int32, zed.v1.Z> strangers = 12;
  optional top.mid.leaf.L.Mode mode = 13;
  oneof pick {
    top.T pick_ancestor = 14;
    top.mid.leaf.L pick_descendant = 15;
    google.protobuf.Any pick_any = 16;
    Kind pick_kind = 17;
  }
  map<string, google.protobuf.BoolValue> flags = 18;
}
service Hub {
  rpc Up(top.T) returns (zed.v1.Z);
  rpc Down(stream top.mid.leaf.L) returns (top.other.O);
  rpc Fan(google.protobuf.Empty) returns (stream top.T);
  rpc Chat(stream zed.v1.Z) returns (stream google.protobuf.Empty);
  rpc Same(Sibling) returns (Mid);
}
""",
}
VALUES = [
    ("top.mid", "top.mid.Mid", {}),
    ("top.mid", "top.mid.Mid", dict(
        sibling={"u": 7}, descendant={"z": "-3", "mode": "ON"},
        ancestor={"n": 1, "far": {"z": "2"}, "byName": {"k": {"z": "9"}}},
        cousin={"raw": "AAE="}, stranger={"d": 1.5}, at="2021-03-04T05:06:07Z", took="3.500s",
        big="123", cousins=[{"raw": "eA=="}, {}], strangers={"4": {"d": -0.5}}, mode="OFF",
        pickDescendant={"z": "1"}, flags={"t": {"value": True}})),
    ("top.mid", "top.mid.Mid", dict(pickAncestor={})),
    ("top.mid", "top.mid.Mid", dict(pickKind="NONE")),
    ("top.mid", "top.mid.Mid", dict(pickKind="SOME", mode="ON")),
    ("top", "top.T", dict(n=-1, far={"mode": "ON"})),
    ("", "RootMsg", dict(name="r", deep={"sibling": {"u": 1}}, kinds=["SOME", "NONE"])),
    ("zed.v1", "zed.v1.Z", dict(d=2.25)),
]
# google.protobuf spells these two JSON forms differently from a plain field dict
GOOGLE_JSON_FIXUPS = {"flags": {"t": True}}


def descriptor_set(protos):
    src = tempfile.mkdtemp(dir=ROOT)
    for name, text in protos.items():
        path = pathlib.Path(src, name)
        path.parent.mkdir(parents=True, exist_ok=True)
        path.write_text(text)
    out = os.path.join(src, "ds.bin")
    rc = _protoc.main(["protoc", f"-I{src}", f"-I{WKT}", f"--descriptor_set_out={out}",
                       "--include_imports", "--include_source_info", *protos])
    assert rc == 0, "protoc failed"
    with open(out, "rb") as fh:
        return fh.read()


DESCRIPTORS = descriptor_set(PROTOS)


def build(options):
    fds = FileDescriptorSet().parse(DESCRIPTORS)
    request = CodeGeneratorRequest(file_to_generate=list(PROTOS), parameter=options, proto_file=fds.file)
    with contextlib.redirect_stderr(io.StringIO()):
        response = generate_code(request)
    root = f"gen{next(_counter)}"
    for f in response.file:
        path = pathlib.Path(ROOT, root, f.name)
        path.parent.mkdir(parents=True, exist_ok=True)
        path.write_text(f.content)
    return root, {f.name: f.content for f in response.file}


def norm_type(t, root):
    if t is type(None):
        return "None"
    origin = typing.get_origin(t)
    if origin is typing.Union or origin is types.UnionType:
        return "|".join(sorted({norm_type(a, root) for a in typing.get_args(t)} - {"None"}))
    if origin is not None:
        return f"{origin.__name__}[{', '.join(norm_type(a, root) for a in typing.get_args(t))}]"
    assert isinstance(t, type), t
    mod = t.__module__
    if mod == root or mod.startswith(root + "."):
        mod = mod[len(root):]
    mod = mod.replace("betterproto.lib.pydantic.", "betterproto.lib.").replace("betterproto.lib.std.", "betterproto.lib.")
    return f"{mod}.{t.__qualname__}"


def shape(module, root):
    out = {}
    for name in module.__all__:
        obj = getattr(module, name)
        if isinstance(obj, type) and issubclass(obj, betterproto.Message):
            hints = obj._type_hints()
            out[name] = {
                f.name: (m.number, m.proto_type, m.map_types, m.group, m.wraps, norm_type(hints[f.name], root))
                for f in dataclasses.fields(obj) for m in [betterproto.FieldMetadata.get(f)]
            }
        elif isinstance(obj, type) and issubclass(obj, betterproto.Enum):
            out[name] = {member.name: member.value for member in obj}
        elif name.endswith("Base"):
            mapping = obj().__mapping__()
            out[name] = {
                route: (h.cardinality.name, norm_type(h.request_type, root), norm_type(h.reply_type, root))
                for route, h in mapping.items()
            }
        else:
            out[name] = sorted(k for k, v in vars(obj).items() if callable(v) and not k.startswith("_"))
    return out


# google.protobuf as an independent oracle for the wire format
pool = descriptor_pool.DescriptorPool()
for file_proto in descriptor_pb2.FileDescriptorSet.FromString(DESCRIPTORS).file:
    pool.Add(file_proto)


def google_bytes(full_name, value):
    cls = message_factory.GetMessageClass(pool.FindMessageTypeByName(full_name))
    value = {**value, **{k: v for k, v in GOOGLE_JSON_FIXUPS.items() if k in value}}
    return json_format.ParseDict(value, cls()).SerializeToString(deterministic=True)


PACKAGES_OUT = ["", "top", "top.mid", "top.mid.leaf", "top.other", "zed.v1"]
reference = None
reference_sources = None
for options in CONFIGS:
    root, sources = build(options)
    observed = {}
    for package in PACKAGES_OUT:
        module = importlib.import_module(f"{root}.{package}" if package else root)
        observed[package] = shape(module, root)
    for i, (package, full_name, value) in enumerate(VALUES):
        module = importlib.import_module(f"{root}.{package}" if package else root)
        cls = getattr(module, full_name.rsplit(".", 1)[-1])
        message = cls.from_dict(value)
        data = bytes(message)
        assert data == google_bytes(full_name, value), (options, full_name, value, data.hex())
        assert bytes(cls().parse(data)) == data
        assert cls().parse(data).to_json() == message.to_json()
        observed["value", i] = (data, message.to_json())
    if reference is None:
        reference, reference_sources = observed, sources
        # sanity: the expected relations really occur in the generated source
        mid_src = sources["top/mid/__init__.py"]
        for line in ("from . import leaf", "from ... import top as __top__", "from .. import other as _other__",
                     "from ...zed import v1 as __zed_v1__",
                     "import betterproto.lib.google.protobuf as betterproto_lib_google_protobuf"):
            assert line in mid_src, line
        assert "from .top import mid as top_mid" in sources["__init__.py"]
        assert "from .mid import leaf as mid_leaf" in sources["top/__init__.py"]
        continue
    assert observed.keys() == reference.keys()
    for key in reference:
        assert observed[key] == reference[key], (options, key, observed[key], reference[key])
    if "pydantic_dataclasses" in options:
        assert ("import betterproto.lib.pydantic.google.protobuf as betterproto_lib_pydantic_google_protobuf"
                in sources["top/mid/__init__.py"])
    if options == "typing.direct":
        assert sources == reference_sources  # typing.direct is the default
print(f"part 2: {len(CONFIGS)} configurations import, agree with each other and with google.protobuf")
