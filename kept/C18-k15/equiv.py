"""C18 keep1: annotations of generated fields (builtin-shadowing field names, wrapper
fields, maps, repeated / optional / oneof members, Timestamp / Duration imports) are
unchanged under every plugin option combination.

Checks, for 3 typing options x {standard, pydantic}:
  * every generated field line carries the annotation an independent oracle predicts
    from the descriptors,
  * the headers import builtins / datetime / timedelta exactly when the oracle says so,
  * the generated sources are byte-identical to the digests recorded from the
    reference tree,
  * every variant imports, defines the same classes and encodes equal values to the
    same bytes and JSON.

Run: PYTHONPATH=<worktree>/src /venv/bin/python equiv.py
"""
import atexit
import builtins
import contextlib
import dataclasses
import datetime as dt
import hashlib
import importlib
import io
import os
import re
import shutil
import sys
import tempfile
import warnings

import grpc_tools
from grpc_tools import protoc as _protoc

import betterproto
from betterproto.casing import safe_snake_case
from betterproto.lib.google.protobuf import FileDescriptorSet
from betterproto.lib.google.protobuf.compiler import CodeGeneratorRequest
from betterproto.plugin import compiler as plugin_compiler
from betterproto.plugin.models import monkey_patch_oneof_index
from betterproto.plugin.parser import generate_code

plugin_compiler.subprocess.check_output = lambda cmd, input, encoding: input
monkey_patch_oneof_index()
warnings.simplefilter("ignore")

WORK = tempfile.mkdtemp(prefix="c18_keep1_")
atexit.register(shutil.rmtree, WORK, ignore_errors=True)
sys.path.insert(0, WORK)
sys.dont_write_bytecode = True
WKT = os.path.join(os.path.dirname(grpc_tools.__file__), "_proto")

CONFIGS = [
    (typing_opt, pydantic)
    for typing_opt in ("typing.direct", "typing.root", "typing.310")
    for pydantic in (False, True)
]

SCALARS = [
    ("double", "float"), ("float", "float"), ("int32", "int"), ("int64", "int"),
    ("uint32", "int"), ("uint64", "int"), ("sint32", "int"), ("sint64", "int"),
    ("fixed32", "int"), ("fixed64", "int"), ("sfixed32", "int"), ("sfixed64", "int"),
    ("bool", "bool"), ("string", "str"), ("bytes", "bytes"),
]
WRAPPERS = {
    "DoubleValue": "float", "FloatValue": "float", "Int32Value": "int", "Int64Value": "int",
    "UInt32Value": "int", "UInt64Value": "int", "BoolValue": "bool", "StringValue": "str",
    "BytesValue": "bytes",
}


def shadow_schema() -> str:
    """Messages whose field names hide 0..5 of the builtin scalar types."""
    lines = ['syntax = "proto3";', "package zoo;",
             'import "google/protobuf/timestamp.proto";',
             'import "google/protobuf/duration.proto";',
             'import "google/protobuf/wrappers.proto";',
             "enum Kind { KIND_NONE = 0; KIND_CAT = 1; }",
             "message Leaf { int32 n = 1; }",
             "message MyDatetimedelta { int32 n = 1; }"]
    # which names each message hides (proto field names; 'Int' / 'BYTES' pythonize to int / bytes)
    hidden_sets = [
        [], ["int"], ["float"], ["bool"], ["str"], ["bytes"], ["Int", "BYTES"],
        ["int", "float", "bool", "str", "bytes"], ["id", "type", "max"], ["str", "bool"],
    ]
    for index, hidden in enumerate(hidden_sets):
        n = 0

        def num():
            nonlocal n
            n += 1
            return n

        body = []
        # the hiding fields themselves: same type as their name where possible, plus a twist
        for name in hidden:
            proto_type = {"int": "int32", "Int": "sint64", "float": "double", "bool": "bool",
                          "str": "string", "bytes": "bytes", "BYTES": "bytes"}.get(name, "uint32")
            if index == 9:  # name and type disagree
                proto_type = {"str": "bool", "bool": "string"}[name]
            body.append(f"{proto_type} {name} = {num()};")
        for proto_type, _ in SCALARS:
            body.append(f"{proto_type} plain_{proto_type} = {num()};")
        for proto_type in ("int32", "double", "bool", "string", "bytes"):
            body.append(f"optional {proto_type} opt_{proto_type} = {num()};")
            body.append(f"repeated {proto_type} rep_{proto_type} = {num()};")
        for wrapper in WRAPPERS:
            body.append(f"google.protobuf.{wrapper} w_{wrapper.lower()} = {num()};")
        body.append(f"repeated google.protobuf.Int32Value rep_w = {num()};")
        body.append(f"optional google.protobuf.StringValue opt_w = {num()};")
        body.append(f"map<string, int32> m_si = {num()};")
        body.append(f"map<int64, bytes> m_ib = {num()};")
        body.append(f"map<bool, double> m_bf = {num()};")
        body.append(f"map<string, Leaf> m_leaf = {num()};")
        body.append(f"map<string, Kind> m_kind = {num()};")
        body.append(f"map<string, google.protobuf.Timestamp> m_ts = {num()};")
        body.append(f"map<string, google.protobuf.BytesValue> m_w = {num()};")
        body.append(f"google.protobuf.Timestamp ts = {num()};")
        body.append(f"optional google.protobuf.Duration dur = {num()};")
        body.append(f"repeated google.protobuf.Timestamp stamps = {num()};")
        body.append(f"Leaf leaf = {num()};")
        body.append(f"optional Leaf opt_leaf = {num()};")
        body.append(f"repeated Kind kinds = {num()};")
        body.append(f"MyDatetimedelta odd = {num()};")
        body.append(
            "oneof pick { "
            f"int32 one_int = {num()}; string one_str = {num()}; bytes one_bytes = {num()}; "
            f"Leaf one_leaf = {num()}; Kind one_kind = {num()}; "
            f"google.protobuf.BoolValue one_w = {num()}; google.protobuf.Duration one_dur = {num()}; }}"
        )
        lines.append(f"message Holder{index} {{\n  " + "\n  ".join(body) + "\n}")
    # a message whose only datetime use is a false positive of the substring test
    lines.append("message OnlyOdd { MyDatetimedelta odd = 1; }")
    return "\n".join(lines) + "\n"


SCHEMAS = {
    "shadow": {"zoo/zoo.proto": shadow_schema()},
    # no timestamp anywhere: neither datetime nor timedelta may be imported
    "plain": {"plain/p.proto": """
syntax = "proto3";
package plain;
message P { int32 int = 1; repeated int32 xs = 2; map<string, int32> m = 3; optional int32 o = 4; }
message Q { string s = 1; }
"""},
    # timedelta only, through a map value; cross-package message and enum references
    "cross": {"app/main.proto": """
syntax = "proto3";
package app;
import "google/protobuf/duration.proto";
import "lib/util.proto";
message Job {
  map<string, google.protobuf.Duration> waits = 1;
  lib.Tag tag = 2;
  repeated lib.Tag tags = 3;
  optional lib.Level level = 4;
  map<int32, lib.Tag> by_id = 5;
  oneof o { lib.Tag t = 6; lib.Level l = 7; }
  bytes bytes = 8;
  repeated bytes chunks = 9;
  map<string, bytes> blobs = 10;
}
""", "lib/util.proto": """
syntax = "proto3";
package lib;
message Tag { string name = 1; }
enum Level { LEVEL_LOW = 0; LEVEL_HIGH = 1; }
"""},
}


def descriptor_set(name, protos) -> bytes:
    src = os.path.join(WORK, "src_" + name)
    for fn, text in protos.items():
        os.makedirs(os.path.dirname(os.path.join(src, fn)), exist_ok=True)
        with open(os.path.join(src, fn), "w") as fh:
            fh.write(text)
    out = os.path.join(src, "set.bin")
    rc = _protoc.main(["protoc", f"-I{src}", f"-I{WKT}", "--include_imports",
                       "--include_source_info", f"--descriptor_set_out={out}", *protos])
    assert rc == 0, "protoc failed"
    with open(out, "rb") as fh:
        return fh.read()


def generate(fds: bytes, protos, typing_opt, pydantic) -> dict:
    params = [typing_opt] + (["pydantic_dataclasses"] if pydantic else [])
    request = CodeGeneratorRequest(file_to_generate=list(protos), parameter=",".join(params),
                                   proto_file=FileDescriptorSet().parse(fds).file)
    with contextlib.redirect_stderr(io.StringIO()):
        response = generate_code(request)
    return {f.name: f.content for f in response.file}


def install(root, files) -> None:
    base = os.path.join(WORK, root)
    os.makedirs(base)
    open(os.path.join(base, "__init__.py"), "w").close()
    for path, content in files.items():
        full = os.path.join(base, path)
        os.makedirs(os.path.dirname(full), exist_ok=True)
        with open(full, "w") as fh:
            fh.write(content)
    importlib.invalidate_caches()


# --------------------------------------------------------------------------------------
# independent oracle for the annotation of a field (single-package schemas)
# --------------------------------------------------------------------------------------
class Spell:
    def __init__(self, typing_opt):
        self.kind = typing_opt.split(".")[1]

    @staticmethod
    def _bare(text):
        return text[1:-1] if text.startswith('"') else text

    def optional(self, inner):
        if self.kind == "310":
            return f'"{self._bare(inner)} | None"'
        return ("typing." if self.kind == "root" else "") + f"Optional[{inner}]"

    def list(self, inner):
        if self.kind == "310":
            return f'"list[{self._bare(inner)}]"'
        return ("typing." if self.kind == "root" else "") + f"List[{inner}]"

    def dict(self, key, value):
        if self.kind == "310":
            return f'"dict[{key}, {self._bare(value)}]"'
        return ("typing." if self.kind == "root" else "") + f"Dict[{key}, {value}]"


SCALAR_BY_NUMBER = {1: "float", 2: "float", 3: "int", 4: "int", 5: "int", 6: "int", 7: "int",
                    8: "bool", 9: "str", 12: "bytes", 13: "int", 15: "int", 16: "int",
                    17: "int", 18: "int"}
BUILTIN_NAMES = set(dir(builtins))


def expected_annotation(field, message, spell, pydantic):
    hidden = {safe_snake_case(f.name) for f in message.field} & BUILTIN_NAMES

    def q(name):
        return f"builtins.{name}" if name in hidden else name

    def base_of(f):
        if f.type in SCALAR_BY_NUMBER:
            return q(SCALAR_BY_NUMBER[f.type])
        short = f.type_name.split(".")[-1]
        if f.type_name.startswith(".google.protobuf.") and short in WRAPPERS:
            return spell.optional(q(WRAPPERS[short]))
        if f.type_name == ".google.protobuf.Timestamp":
            return "datetime"
        if f.type_name == ".google.protobuf.Duration":
            return "timedelta"
        return f'"{short}"'

    entry = next((n for n in message.nested_type
                  if n.options.map_entry and n.name.lower() == field.name.replace("_", "").lower() + "entry"
                  and field.type_name.endswith("." + n.name)), None)
    if entry is not None:
        key, value = entry.field
        if value.type_name.startswith(".google.protobuf.") and value.type_name.split(".")[-1] in WRAPPERS:
            lib = "betterproto_lib_pydantic_google_protobuf" if pydantic else "betterproto_lib_google_protobuf"
            v = f'"{lib}.{value.type_name.split(".")[-1]}"'
        else:
            v = base_of(value)
        return spell.dict(base_of(key), v)
    base = base_of(field)
    if field.label == 3:
        return spell.list(base)
    in_real_oneof = (not field.proto3_optional
                     and betterproto.which_one_of(field, "oneof_index")[0] == "oneof_index")
    if field.proto3_optional or (pydantic and in_real_oneof):
        return spell.optional(base)
    return base


FIELD_LINE = re.compile(r"^    (\w+): (.+) = betterproto\.\w+_field\((\d+)")


def parse_generated(source: str):
    """{class name: {field number: (py name, annotation)}} of a rendered module."""
    classes, current = {}, None
    for line in source.splitlines():
        header = re.match(r"^class (\w+)\(betterproto\.Message\):", line)
        if header:
            current = classes.setdefault(header.group(1), {})
            continue
        if line.startswith("class "):
            current = None
        match = FIELD_LINE.match(line)
        if match and current is not None:
            current[int(match.group(3))] = (match.group(1), match.group(2))
    return classes


def check_annotations(fds, files, package_file, typing_opt, pydantic):
    spell = Spell(typing_opt)
    descriptor = next(f for f in FileDescriptorSet().parse(fds).file if f.name == package_file)
    path = "/".join(descriptor.package.split(".")) + "/__init__.py"
    rendered = parse_generated(files[path])
    header = files[path].split("import betterproto\n")[0]
    checked = 0
    need_builtins = False
    all_annotations = []
    for message in descriptor.message_type:
        fields = rendered[message.name]
        assert len(fields) == len(message.field), (message.name, len(fields), len(message.field))
        for field in message.field:
            py_name, annotation = fields[field.number]
            assert py_name == safe_snake_case(field.name), (py_name, field.name)
            want = expected_annotation(field, message, spell, pydantic)
            assert annotation == want, (typing_opt, pydantic, message.name, field.name, annotation, want)
            need_builtins = need_builtins or "builtins." in annotation
            all_annotations.append(annotation)
            checked += 1
    # header side of the same decisions
    assert ("import builtins\n" in header) == need_builtins, (typing_opt, pydantic, package_file)
    names = sorted(n for n in ("datetime", "timedelta") if any(n in a for a in all_annotations))
    line = next((l for l in header.splitlines() if l.startswith("from datetime import ")), None)
    if names:
        assert line == "from datetime import " + ", ".join(names), (line, names)
    else:
        assert line is None, line
    return checked


# --------------------------------------------------------------------------------------
# reference digests of the rendered sources (recorded on the reference tree)
# --------------------------------------------------------------------------------------
GOLDEN = {
    # filled in below: (schema, typing option, pydantic) -> sha256 over all rendered files
}


def digest(files) -> str:
    h = hashlib.sha256()
    for name in sorted(files):
        h.update(name.encode() + b"\0" + files[name].encode() + b"\0")
    return h.hexdigest()


def shape(module):
    out = {}
    for name in module.__all__:
        obj = getattr(module, name)
        if isinstance(obj, type) and issubclass(obj, betterproto.Message):
            out[name] = sorted((m.number, f.name, m.proto_type, m.map_types, m.group, m.wraps)
                               for f in dataclasses.fields(obj)
                               for m in [betterproto.FieldMetadata.get(f)])
        elif isinstance(obj, type) and issubclass(obj, betterproto.Enum):
            out[name] = sorted((member.name, int(member)) for member in obj)
    return out


UTC = dt.timezone.utc


def values_for(schema, root):
    if schema == "shadow":
        zoo = importlib.import_module(root + ".zoo")
        out = []
        for index in range(10):
            cls = getattr(zoo, f"Holder{index}")
            bytes_wrapper = cls._betterproto.cls_by_field["m_w.value"]
            kwargs = dict(
                plain_int32=-index, plain_double=0.5, plain_bool=True, plain_string="x", plain_bytes=b"\x00y",
                plain_uint64=2**63, plain_sint64=-(2**62), plain_fixed32=9, plain_float=1.5,
                opt_int32=0, opt_string="", opt_bytes=b"", rep_int32=[1, 0, -1], rep_double=[0.0, 2.5],
                rep_bool=[True, False], rep_string=["", "a"], rep_bytes=[b"", b"b"],
                w_int32value=0, w_stringvalue="s", w_bytesvalue=b"q", w_boolvalue=False, w_doublevalue=1.25,
                rep_w=[1, 2], opt_w="", m_si={"a": 1, "": 0}, m_ib={5: b"z"}, m_bf={True: 1.5},
                m_leaf={"l": zoo.Leaf(n=3)}, m_kind={"k": zoo.Kind.CAT},
                m_ts={"t": dt.datetime(2020, 5, 6, tzinfo=UTC)}, m_w={"w": bytes_wrapper(value=b"v")},
                ts=dt.datetime(2001, 2, 3, 4, 5, 6, tzinfo=UTC), dur=dt.timedelta(seconds=90),
                stamps=[dt.datetime(1999, 1, 1, tzinfo=UTC)], leaf=zoo.Leaf(n=1), opt_leaf=zoo.Leaf(),
                kinds=[zoo.Kind.CAT, zoo.Kind.NONE], odd=zoo.MyDatetimedelta(n=2),
            )
            kwargs = {safe_snake_case(name): value for name, value in kwargs.items()}
            hidden = {f.name for f in dataclasses.fields(cls)} & {"int", "float", "bool", "str", "bytes", "id", "type", "max"}
            for name in hidden:
                proto_type = cls._betterproto.meta_by_field_name[name].proto_type
                kwargs[name] = {"int32": 7, "sint64": -7, "double": 2.5, "bool": True, "string": "h",
                                "bytes": b"h", "uint32": 4}[proto_type]
            for pick in ({"one_int": 0}, {"one_str": "p"}, {"one_bytes": b""}, {"one_leaf": zoo.Leaf()},
                         {"one_kind": zoo.Kind.CAT}, {"one_w": True}, {"one_dur": dt.timedelta(0)}, {}):
                out.append(cls(**kwargs, **pick))
            out.append(cls())
        out.append(zoo.OnlyOdd(odd=zoo.MyDatetimedelta(n=1)))
        return [zoo], out
    if schema == "plain":
        plain = importlib.import_module(root + ".plain")
        return [plain], [plain.P(int=3, xs=[1, 2], m={"a": 0}, o=0), plain.P(), plain.Q(s="q")]
    app = importlib.import_module(root + ".app")
    lib = importlib.import_module(root + ".lib")
    return [app, lib], [
        app.Job(waits={"w": dt.timedelta(milliseconds=1500)}, tag=lib.Tag(name="t"), tags=[lib.Tag(), lib.Tag(name="u")],
                level=lib.Level.LOW, by_id={3: lib.Tag(name="three")}, l=lib.Level.HIGH, bytes=b"raw",
                chunks=[b"a", b""], blobs={"b": b"\xff"}),
        app.Job(t=lib.Tag()),
        app.Job(),
    ]


def run(record=False):
    checked = 0
    recorded = {}
    for schema, protos in SCHEMAS.items():
        fds = descriptor_set(schema, protos)
        results = {}
        for typing_opt, pydantic in CONFIGS:
            files = generate(fds, protos, typing_opt, pydantic)
            key = (schema, typing_opt, pydantic)
            # the trailing cross-package imports are rendered from a set (order depends on the hash
            # seed), so the digest is taken over the sorted lines of every file
            recorded[key] = digest({k: "\n".join(sorted(v.splitlines())) for k, v in files.items()})
            if not record:
                assert GOLDEN[key] == recorded[key], f"rendered sources changed for {key}"
            if schema != "cross":
                checked += check_annotations(fds, files, next(iter(protos)), typing_opt, pydantic)
            root = f"k1_{schema}_" + typing_opt.replace(".", "_") + ("_pyd" if pydantic else "_std")
            install(root, files)
            modules, values = values_for(schema, root)
            results[(typing_opt, pydantic)] = (
                [shape(m) for m in modules],
                [bytes(v) for v in values],
                [v.to_json() for v in values],
            )
            # decoding what was encoded gives the same bytes again
            for v in values:
                assert bytes(type(v)().parse(bytes(v))) == bytes(v)
        reference = results[("typing.direct", False)]
        for config, got in results.items():
            assert got[0] == reference[0], (schema, config, "classes differ")
            assert got[1] == reference[1], (schema, config, "bytes differ")
            assert got[2] == reference[2], (schema, config, "JSON differs")
    return checked, recorded


GOLDEN.update({
('shadow', 'typing.direct', False): '0fbf522d1bee19f9ff12b9a6882027f3e6ba8d4acf41741a8906e7e77be2633d',
    ('shadow', 'typing.direct', True): '5a2fc2c08c706e7c32b37d576a53d60d9bb444014104db12c2f19ac5af873f72',
    ('shadow', 'typing.root', False): '9022198ecb2d865c42442f02350eb8fe1abb99581b55fce5206b28bd00cf27f4',
    ('shadow', 'typing.root', True): '97622e681a4e4e0e2e55ef40bd17094927ab658ea017815e8e6657d4e5e78b42',
    ('shadow', 'typing.310', False): '3178c4c1ab2d20fff7f95b18b0664ca9772ed3d40e43f727cea16a34c40d6bf9',
    ('shadow', 'typing.310', True): 'c13b6ce30e6b5200911db47b0acbedf07ed71d393093379804f9480758352633',
    ('plain', 'typing.direct', False): '3848c36e7002ea2d84438cb428a7bf84e655815e4ab20ad40cbe611883fd294e',
    ('plain', 'typing.direct', True): '31951f04bd9e27de5ab088a562fb9627bc52dd12511290fd9ec3ddb56aabb955',
    ('plain', 'typing.root', False): 'db24f7f1f1027445e40625d0a77a8d4fae58faa4605ca38adda7193a345b24c2',
    ('plain', 'typing.root', True): '3479b86e51914cca0f5809afcf628005da1bd25186a875e9b6c081543424d984',
    ('plain', 'typing.310', False): 'f7a55d8df4a2bb8d1dc1355b3b8472b8528589776e51669c49cadae19a8baf3a',
    ('plain', 'typing.310', True): '48e3ebc24da078f90d8f2715992fa0116349cd0db38d03515b70e8789b8cb9f6',
    ('cross', 'typing.direct', False): '3ec8519d11fff92adeb3730978600f3f2948afd37c1e31ac21ee36dafa35af92',
    ('cross', 'typing.direct', True): '1156d0e321298d00b171a3cb1c7aeeddb5036e51eb12c57619d17bf88681bcf3',
    ('cross', 'typing.root', False): '942d1f697564d2f6efa90bc939fa334a005ccefb729bb4975cf148404fd6dd1a',
    ('cross', 'typing.root', True): '7893ad0395e3cd45f96b7ffcee8ca86f33ae4222e2638d8470ab5674fbc1f062',
    ('cross', 'typing.310', False): 'cb3e8139eebace036aa85d0f14e7981c09f5e13777068a2632bd70b06b780cbe',
    ('cross', 'typing.310', True): '05c1e06f2e5517fe51c24333f8f4ce5ff0430c822e4d7cd1c5116636bf4a64a5',
})

if __name__ == "__main__":
    if os.environ.get("C18_RECORD"):
        _, recorded = run(record=True)
        for key, value in recorded.items():
            print(f"    {key!r}: {value!r},")
    else:
        checked, _ = run()
        assert checked > 3000, checked
        print(f"OK: {checked} field annotations match the oracle; sources match the reference digests; "
              f"{len(CONFIGS)} configurations agree on classes, bytes and JSON")
