"""Shared part of the C02 equivalence scripts (copied verbatim into each equiv.py).

A schema that covers every scalar type, repeated / packed fields, maps, a oneof,
proto3 optional fields, nested messages, Timestamp / Duration / wrappers and multi-byte
keys is defined twice: for google.protobuf (built from a FileDescriptorProto) and for
betterproto (hand written dataclasses).  Random + boundary values are pushed through
  D1  bytes(betterproto)            -> google.protobuf FromString
  D2  google.protobuf serialization -> betterproto parse
  D3  spec level re-encodings of the reference bytes (field permutation, packed <->
      unpacked, packed runs split into chunks, padded varints, duplicated singular /
      oneof records, interleaved unknown fields) -> betterproto parse
and the decoded messages are compared field by field, including presence.
"""
import math
import random
import struct
import sys
from dataclasses import dataclass
from datetime import datetime, timedelta, timezone
from typing import Dict, List, Optional

import betterproto
from google.protobuf import descriptor_pb2, descriptor_pool, message_factory
from google.protobuf import duration_pb2, timestamp_pb2, wrappers_pb2  # noqa: F401

PKG = "c02equiv" + "".join(random.Random().choice("abcdefghij") for _ in range(6))
F = descriptor_pb2.FieldDescriptorProto
T = {
    "int32": F.TYPE_INT32, "int64": F.TYPE_INT64, "uint32": F.TYPE_UINT32,
    "uint64": F.TYPE_UINT64, "sint32": F.TYPE_SINT32, "sint64": F.TYPE_SINT64,
    "bool": F.TYPE_BOOL, "enum": F.TYPE_ENUM, "fixed32": F.TYPE_FIXED32,
    "fixed64": F.TYPE_FIXED64, "sfixed32": F.TYPE_SFIXED32, "sfixed64": F.TYPE_SFIXED64,
    "float": F.TYPE_FLOAT, "double": F.TYPE_DOUBLE, "string": F.TYPE_STRING,
    "bytes": F.TYPE_BYTES,
}
VARINT_T = ("int32", "int64", "uint32", "uint64", "sint32", "sint64", "bool", "enum")
FIX32_T = ("fixed32", "sfixed32", "float")
FIX64_T = ("fixed64", "sfixed64", "double")
MAXNUM = 536870911

# (name, number, kind, type, extra)  kind: s singular, r repeated, o oneof, p optional,
#                                          m map (type=(ktype, vtype)), x special message
SUB_FIELDS = [
    ("x", 1, "s", "int32"), ("s", 2, "s", "string"), ("r", 3, "r", "sint64"),
]
ALL_FIELDS = [
    ("i32", 1, "s", "int32"), ("i64", 2, "s", "int64"), ("u32", 3, "s", "uint32"),
    ("u64", 4, "s", "uint64"), ("s32", 5, "s", "sint32"), ("s64", 6, "s", "sint64"),
    ("b", 7, "s", "bool"), ("e", 8, "s", "enum"), ("f32", 9, "s", "fixed32"),
    ("f64", 10, "s", "fixed64"), ("sf32", 11, "s", "sfixed32"),
    ("sf64", 12, "s", "sfixed64"), ("fl", 13, "s", "float"), ("db", 14, "s", "double"),
    ("st", 15, "s", "string"), ("by", 16, "s", "bytes"), ("sub", 17, "s", "Sub"),
    ("ri32", 18, "r", "int32"), ("rs32", 19, "r", "sint32"), ("rb", 20, "r", "bool"),
    ("re", 21, "r", "enum"), ("rf32", 22, "r", "fixed32"), ("rdb", 23, "r", "double"),
    ("rst", 24, "r", "string"), ("rby", 25, "r", "bytes"), ("rsub", 26, "r", "Sub"),
    ("ru64", 27, "r", "uint64"), ("rsf64", 28, "r", "sfixed64"),
    ("rfl", 29, "r", "float"), ("ri64", 2047, "r", "int64"),
    ("ru32", 2048, "r", "uint32"), ("rs64", 300000, "r", "sint64"),
    ("m_si", 30, "m", ("string", "int32")), ("m_is", 31, "m", ("int64", "string")),
    ("m_bs", 32, "m", ("bool", "Sub")), ("m_se", 33, "m", ("sint32", "enum")),
    ("m_fd", 34, "m", ("fixed64", "double")), ("m_sb", 35, "m", ("string", "bytes")),
    ("o_i", 40, "o", "int32"), ("o_s", 41, "o", "string"), ("o_sub", 42, "o", "Sub"),
    ("o_b", 43, "o", "bool"), ("o_by", 44, "o", "bytes"), ("o_e", 45, "o", "enum"),
    ("o_db", 46, "o", "double"),
    ("opt_i", 50, "p", "int32"), ("opt_s", 51, "p", "string"), ("opt_b", 52, "p", "bool"),
    ("opt_f", 53, "p", "float"), ("opt_e", 54, "p", "enum"),
    ("ts", 60, "x", "Timestamp"), ("du", 61, "x", "Duration"),
    ("w_i", 62, "x", "Int32Value"), ("w_s", 63, "x", "StringValue"),
    ("w_b", 64, "x", "BoolValue"), ("w_d", 65, "x", "DoubleValue"),
    ("w_u", 66, "x", "UInt64Value"), ("w_by", 67, "x", "BytesValue"),
    ("big", MAXNUM, "s", "int32"),
]
WRAP_SCALAR = {"Int32Value": "int32", "StringValue": "string", "BoolValue": "bool",
               "DoubleValue": "double", "UInt64Value": "uint64", "BytesValue": "bytes"}
SCHEMA = {"Sub": SUB_FIELDS, "All": ALL_FIELDS}


# ------------------------------------------------------------------ reference schema
def _build_reference():
    fdp = descriptor_pb2.FileDescriptorProto(
        name=PKG + ".proto", package=PKG, syntax="proto3")
    for dep in ("timestamp", "duration", "wrappers"):
        fdp.dependency.append(f"google/protobuf/{dep}.proto")
    en = fdp.enum_type.add(name="Color")
    for n, v in (("ZERO", 0), ("RED", 1), ("BLUE", 2), ("NEG", -1), ("BIG", 2**31 - 1)):
        en.value.add(name=n, number=v)

    def set_type(fd, typ):
        if typ in T:
            fd.type = T[typ]
            if typ == "enum":
                fd.type_name = f".{PKG}.Color"
        elif typ == "Sub":
            fd.type, fd.type_name = F.TYPE_MESSAGE, f".{PKG}.Sub"
        else:
            fd.type, fd.type_name = F.TYPE_MESSAGE, f".google.protobuf.{typ}"

    for mname, fields in SCHEMA.items():
        md = fdp.message_type.add(name=mname)
        if any(k == "o" for _, _, k, _ in fields):
            md.oneof_decl.add(name="choice")
        for name, number, kind, typ in fields:
            if kind == "p":
                md.oneof_decl.add(name="_" + name)
        n_syn = len(md.oneof_decl) - sum(1 for f in fields if f[2] == "p")
        for name, number, kind, typ in fields:
            fd = md.field.add(name=name, number=number, label=F.LABEL_OPTIONAL)
            if kind == "m":
                ename = "".join(p.capitalize() for p in name.split("_")) + "Entry"
                ed = md.nested_type.add(name=ename)
                ed.options.map_entry = True
                set_type(ed.field.add(name="key", number=1, label=F.LABEL_OPTIONAL), typ[0])
                set_type(ed.field.add(name="value", number=2, label=F.LABEL_OPTIONAL), typ[1])
                fd.type, fd.type_name = F.TYPE_MESSAGE, f".{PKG}.{mname}.{ename}"
                fd.label = F.LABEL_REPEATED
                continue
            set_type(fd, typ)
            if kind == "r":
                fd.label = F.LABEL_REPEATED
            elif kind == "o":
                fd.oneof_index = 0
            elif kind == "p":
                fd.proto3_optional = True
                fd.oneof_index = n_syn
                n_syn += 1
    pool = descriptor_pool.Default()
    pool.Add(fdp)
    return {m: message_factory.GetMessageClass(pool.FindMessageTypeByName(f"{PKG}.{m}"))
            for m in SCHEMA}


REF = _build_reference()


# ---------------------------------------------------------------- betterproto schema
class Color(betterproto.Enum):
    ZERO = 0
    RED = 1
    BLUE = 2
    NEG = -1
    BIG = 2**31 - 1


@dataclass(eq=False, repr=False)
class Sub(betterproto.Message):
    x: int = betterproto.int32_field(1)
    s: str = betterproto.string_field(2)
    r: List[int] = betterproto.sint64_field(3)


@dataclass(eq=False, repr=False)
class All(betterproto.Message):
    i32: int = betterproto.int32_field(1)
    i64: int = betterproto.int64_field(2)
    u32: int = betterproto.uint32_field(3)
    u64: int = betterproto.uint64_field(4)
    s32: int = betterproto.sint32_field(5)
    s64: int = betterproto.sint64_field(6)
    b: bool = betterproto.bool_field(7)
    e: Color = betterproto.enum_field(8)
    f32: int = betterproto.fixed32_field(9)
    f64: int = betterproto.fixed64_field(10)
    sf32: int = betterproto.sfixed32_field(11)
    sf64: int = betterproto.sfixed64_field(12)
    fl: float = betterproto.float_field(13)
    db: float = betterproto.double_field(14)
    st: str = betterproto.string_field(15)
    by: bytes = betterproto.bytes_field(16)
    sub: Sub = betterproto.message_field(17)
    ri32: List[int] = betterproto.int32_field(18)
    rs32: List[int] = betterproto.sint32_field(19)
    rb: List[bool] = betterproto.bool_field(20)
    re: List[Color] = betterproto.enum_field(21)
    rf32: List[int] = betterproto.fixed32_field(22)
    rdb: List[float] = betterproto.double_field(23)
    rst: List[str] = betterproto.string_field(24)
    rby: List[bytes] = betterproto.bytes_field(25)
    rsub: List[Sub] = betterproto.message_field(26)
    ru64: List[int] = betterproto.uint64_field(27)
    rsf64: List[int] = betterproto.sfixed64_field(28)
    rfl: List[float] = betterproto.float_field(29)
    ri64: List[int] = betterproto.int64_field(2047)
    ru32: List[int] = betterproto.uint32_field(2048)
    rs64: List[int] = betterproto.sint64_field(300000)
    m_si: Dict[str, int] = betterproto.map_field(
        30, betterproto.TYPE_STRING, betterproto.TYPE_INT32)
    m_is: Dict[int, str] = betterproto.map_field(
        31, betterproto.TYPE_INT64, betterproto.TYPE_STRING)
    m_bs: Dict[bool, Sub] = betterproto.map_field(
        32, betterproto.TYPE_BOOL, betterproto.TYPE_MESSAGE)
    m_se: Dict[int, Color] = betterproto.map_field(
        33, betterproto.TYPE_SINT32, betterproto.TYPE_ENUM)
    m_fd: Dict[int, float] = betterproto.map_field(
        34, betterproto.TYPE_FIXED64, betterproto.TYPE_DOUBLE)
    m_sb: Dict[str, bytes] = betterproto.map_field(
        35, betterproto.TYPE_STRING, betterproto.TYPE_BYTES)
    o_i: int = betterproto.int32_field(40, group="choice")
    o_s: str = betterproto.string_field(41, group="choice")
    o_sub: Sub = betterproto.message_field(42, group="choice")
    o_b: bool = betterproto.bool_field(43, group="choice")
    o_by: bytes = betterproto.bytes_field(44, group="choice")
    o_e: Color = betterproto.enum_field(45, group="choice")
    o_db: float = betterproto.double_field(46, group="choice")
    opt_i: Optional[int] = betterproto.int32_field(50, optional=True)
    opt_s: Optional[str] = betterproto.string_field(51, optional=True)
    opt_b: Optional[bool] = betterproto.bool_field(52, optional=True)
    opt_f: Optional[float] = betterproto.float_field(53, optional=True)
    opt_e: Optional[Color] = betterproto.enum_field(54, optional=True)
    ts: datetime = betterproto.message_field(60)
    du: timedelta = betterproto.message_field(61)
    w_i: Optional[int] = betterproto.message_field(62, wraps=betterproto.TYPE_INT32)
    w_s: Optional[str] = betterproto.message_field(63, wraps=betterproto.TYPE_STRING)
    w_b: Optional[bool] = betterproto.message_field(64, wraps=betterproto.TYPE_BOOL)
    w_d: Optional[float] = betterproto.message_field(65, wraps=betterproto.TYPE_DOUBLE)
    w_u: Optional[int] = betterproto.message_field(66, wraps=betterproto.TYPE_UINT64)
    w_by: Optional[bytes] = betterproto.message_field(67, wraps=betterproto.TYPE_BYTES)
    big: int = betterproto.int32_field(MAXNUM)


BP = {"Sub": Sub, "All": All}
EPOCH = datetime(1970, 1, 1, tzinfo=timezone.utc)
US = timedelta(microseconds=1)


# ------------------------------------------------------------------ value generation
def f32(x):
    return struct.unpack("<f", struct.pack("<f", x))[0]


BOUNDS = {
    "int32": [0, 1, -1, 127, 128, 2**31 - 1, -(2**31), 16383, 16384],
    "int64": [0, 1, -1, 2**63 - 1, -(2**63), 2**31, -(2**31) - 1, 2**56],
    "uint32": [0, 1, 127, 128, 2**32 - 1, 2**31],
    "uint64": [0, 1, 2**64 - 1, 2**63, 2**32, 2**56 - 1],
    "sint32": [0, 1, -1, 63, -64, 64, 2**31 - 1, -(2**31)],
    "sint64": [0, 1, -1, 2**63 - 1, -(2**63), 2**31, -(2**31) - 1],
    "bool": [False, True],
    "enum": [0, 1, 2, -1, 2**31 - 1, 77, -(2**31)],
    "fixed32": [0, 1, 2**32 - 1, 2**31],
    "fixed64": [0, 1, 2**64 - 1, 2**63],
    "sfixed32": [0, 1, -1, 2**31 - 1, -(2**31)],
    "sfixed64": [0, 1, -1, 2**63 - 1, -(2**63)],
    "float": [0.0, 1.5, -2.25, float("inf"), float("-inf"), float("nan"),
              f32(3.4e38), f32(1e-45), f32(0.1)],
    "double": [0.0, 1.5, -2.25, float("inf"), float("-inf"), float("nan"),
               1.7976931348623157e308, 5e-324, 0.1, 2.0**53 + 2],
    "string": ["", "a", "héllo", "日本語", "\U0001f600 emoji", "x" * 127, "y" * 128,
               "z" * 300, "\x00nul"],
    "bytes": [b"", b"\x00", b"\xff\xfe", bytes(range(256)), b"q" * 127, b"q" * 128],
}
RANGES = {
    "int32": (-(2**31), 2**31 - 1), "int64": (-(2**63), 2**63 - 1),
    "uint32": (0, 2**32 - 1), "uint64": (0, 2**64 - 1),
    "sint32": (-(2**31), 2**31 - 1), "sint64": (-(2**63), 2**63 - 1),
    "fixed32": (0, 2**32 - 1), "fixed64": (0, 2**64 - 1),
    "sfixed32": (-(2**31), 2**31 - 1), "sfixed64": (-(2**63), 2**63 - 1),
}


def gen_scalar(rng, typ, nonzero_ok=True):
    if rng.random() < 0.5:
        return rng.choice(BOUNDS[typ])
    if typ in RANGES:
        lo, hi = RANGES[typ]
        if rng.random() < 0.5:
            return rng.randint(max(lo, -300), min(hi, 300))
        return rng.randint(lo, hi)
    if typ == "bool":
        return rng.random() < 0.5
    if typ == "enum":
        return rng.choice([0, 1, 2, -1, rng.randint(-1000, 1000)])
    if typ == "float":
        return f32(rng.uniform(-1e6, 1e6))
    if typ == "double":
        return rng.uniform(-1e12, 1e12)
    if typ == "string":
        return "".join(rng.choice("abc é日\U0001f600") for _ in range(rng.randint(0, 12)))
    if typ == "bytes":
        return bytes(rng.randrange(256) for _ in range(rng.randint(0, 12)))
    raise AssertionError(typ)


def gen_value(rng, typ, depth=0):
    if typ == "Sub":
        return gen_spec(rng, "Sub", depth + 1)
    return gen_scalar(rng, typ)


def gen_key(rng, typ):
    v = gen_scalar(rng, typ)
    return v


def gen_spec(rng, mname, depth=0):
    """A plain description of a message: {field name: value}; absent = not set."""
    spec = {}
    fields = SCHEMA[mname]
    density = rng.choice([0.15, 0.5, 0.9])
    oneofs = [f for f in fields if f[2] == "o"]
    for name, number, kind, typ in fields:
        if kind == "o" or rng.random() > density:
            continue
        if kind in ("s", "p"):
            spec[name] = gen_value(rng, typ, depth)
        elif kind == "r":
            n = rng.choice([0, 1, 2, 3, 8, 40]) if typ != "Sub" else rng.choice([0, 1, 3])
            spec[name] = [gen_value(rng, typ, depth) for _ in range(n)]
        elif kind == "m":
            n = rng.choice([0, 1, 2, 5])
            spec[name] = {gen_key(rng, typ[0]): gen_value(rng, typ[1], depth)
                          for _ in range(n)}
        elif typ == "Timestamp":
            us = rng.choice([0, 1, -1, 10**6, -(10**6) - 1, 253402300799999999,
                             -62135596800000000, rng.randint(-(10**15), 4 * 10**15)])
            spec[name] = EPOCH + us * US
        elif typ == "Duration":
            us = rng.choice([0, 1, -1, 1500000, -1500000, 10**6, -(10**6),
                             315576000000 * 10**6, -315576000000 * 10**6,
                             rng.randint(-(10**16), 10**16)])
            spec[name] = us * US
        else:
            spec[name] = gen_scalar(rng, WRAP_SCALAR[typ])
    if oneofs and rng.random() < 0.7:
        name, number, kind, typ = rng.choice(oneofs)
        spec[name] = gen_value(rng, typ, depth)
    if mname == "Sub" and not spec:
        spec["x"] = 0  # Sub(x=0): set, but nothing but defaults inside
    return spec


# ---------------------------------------------------------- spec -> messages, views
def to_bp(mname, spec):
    kwargs = {}
    for name, number, kind, typ in SCHEMA[mname]:
        if name not in spec:
            continue
        v = spec[name]
        if typ == "Sub":
            if kind == "r":
                v = [to_bp("Sub", s) for s in v]
            else:
                v = to_bp("Sub", v)
        elif kind == "m" and typ[1] == "Sub":
            v = {k: to_bp("Sub", s) for k, s in v.items()}
        elif kind == "m":
            v = dict(v)
        elif kind == "r":
            v = list(v)
        kwargs[name] = v
    return BP[mname](**kwargs)


def fill_ref(msg, mname, spec):
    msg.SetInParent()
    for name, number, kind, typ in SCHEMA[mname]:
        if name not in spec:
            continue
        v = spec[name]
        if kind == "m":
            target = getattr(msg, name)
            for k, item in v.items():
                if typ[1] == "Sub":
                    fill_ref(target[k], "Sub", item)
                else:
                    target[k] = item
        elif kind == "r":
            target = getattr(msg, name)
            for item in v:
                if typ == "Sub":
                    fill_ref(target.add(), "Sub", item)
                else:
                    target.append(item)
        elif typ == "Sub":
            fill_ref(getattr(msg, name), "Sub", v)
        elif typ == "Timestamp":
            getattr(msg, name).FromDatetime(v)
        elif typ == "Duration":
            getattr(msg, name).FromTimedelta(v)
        elif kind == "x":
            getattr(msg, name).SetInParent()
            getattr(msg, name).value = v
        else:
            setattr(msg, name, v)
    return msg


def to_ref(mname, spec):
    return fill_ref(REF[mname](), mname, spec)


def norm(v):
    if isinstance(v, float):
        return "nan" if math.isnan(v) else v
    if isinstance(v, bool):
        return v
    if isinstance(v, int):
        return int(v)
    return v


def view_ref(msg, mname):
    out = {}
    for name, number, kind, typ in SCHEMA[mname]:
        if kind == "m":
            out[name] = {norm(k): (view_ref(v, "Sub") if typ[1] == "Sub" else norm(v))
                         for k, v in getattr(msg, name).items()}
        elif kind == "r":
            out[name] = [view_ref(v, "Sub") if typ == "Sub" else norm(v)
                         for v in getattr(msg, name)]
        elif kind == "o":
            continue
        elif kind == "p":
            out[name] = norm(getattr(msg, name)) if msg.HasField(name) else None
        elif typ == "Sub":
            out[name] = view_ref(getattr(msg, name), "Sub") if msg.HasField(name) else None
        elif typ == "Timestamp":
            ts = getattr(msg, name)
            assert ts.nanos % 1000 == 0
            out[name] = ts.seconds * 10**6 + ts.nanos // 1000
        elif typ == "Duration":
            du = getattr(msg, name)
            assert du.nanos % 1000 == 0
            assert du.seconds * du.nanos >= 0, ("Duration of mixed sign", du)
            out[name] = du.seconds * 10**6 + du.nanos // 1000
        elif kind == "x":
            out[name] = norm(getattr(msg, name).value) if msg.HasField(name) else None
        else:
            out[name] = norm(getattr(msg, name))
    if any(f[2] == "o" for f in SCHEMA[mname]):
        which = msg.WhichOneof("choice")
        if which is None:
            out["choice"] = None
        else:
            v = getattr(msg, which)
            out["choice"] = (which, view_ref(v, "Sub") if which == "o_sub" else norm(v))
    return out


def view_bp(msg, mname):
    out = {}
    for name, number, kind, typ in SCHEMA[mname]:
        if kind == "o":
            continue
        v = getattr(msg, name)
        if kind == "m":
            out[name] = {norm(k): (view_bp(x, "Sub") if typ[1] == "Sub" else norm(x))
                         for k, x in v.items()}
        elif kind == "r":
            out[name] = [view_bp(x, "Sub") if typ == "Sub" else norm(x) for x in v]
        elif kind == "p":
            out[name] = None if v is None else norm(v)
        elif typ == "Sub":
            out[name] = view_bp(v, "Sub") if betterproto.serialized_on_wire(v) else None
        elif typ == "Timestamp":
            out[name] = (v - EPOCH) // US
        elif typ == "Duration":
            out[name] = v // US
        elif kind == "x":
            out[name] = None if v is None else norm(v)
        else:
            out[name] = norm(v)
    if any(f[2] == "o" for f in SCHEMA[mname]):
        which, v = betterproto.which_one_of(msg, "choice")
        if not which:
            out["choice"] = None
        else:
            out["choice"] = (which, view_bp(v, "Sub") if which == "o_sub" else norm(v))
    return out


def explain(a, b):
    for k in a:
        if a[k] != b.get(k, "<missing>"):
            return f"{k}: {a[k]!r} != {b.get(k)!r}"
    return "?"


# ------------------------------------------------------- independent wire re-encoder
def enc_varint(v, pad_to=0):
    assert 0 <= v < 2**64
    out = bytearray()
    while True:
        b = v & 0x7F
        v >>= 7
        if v or len(out) + 1 < pad_to:
            out.append(b | 0x80)
        else:
            out.append(b)
            return bytes(out)


def dec_varint(buf, pos):
    result = shift = 0
    while True:
        b = buf[pos]
        pos += 1
        result |= (b & 0x7F) << shift
        shift += 7
        if not b & 0x80:
            return result & (2**64 - 1), pos


def split_records(buf):
    pos, out = 0, []
    while pos < len(buf):
        key, pos = dec_varint(buf, pos)
        number, wt = key >> 3, key & 7
        if wt == 0:
            v, pos = dec_varint(buf, pos)
        elif wt == 1:
            v, pos = buf[pos:pos + 8], pos + 8
        elif wt == 5:
            v, pos = buf[pos:pos + 4], pos + 4
        elif wt == 2:
            n, pos = dec_varint(buf, pos)
            v, pos = buf[pos:pos + n], pos + n
        else:
            raise AssertionError(wt)
        out.append((number, wt, v))
    assert pos == len(buf)
    return out


def pad(rng, v, limit=10):
    """Varint of v, minimal most of the time, otherwise padded (at most `limit` bytes)."""
    minimal = len(enc_varint(v))
    if rng.random() < 0.6 or minimal >= limit:
        return enc_varint(v)
    return enc_varint(v, rng.randint(minimal, limit))


def emit(rng, number, wt, v):
    key = pad(rng, (number << 3) | wt, 5)
    if wt == 0:
        return key + pad(rng, v, 10)
    if wt in (1, 5):
        return key + v
    return key + pad(rng, len(v), 5) + v


def wire_of(typ):
    return 0 if typ in VARINT_T else 5 if typ in FIX32_T else 1 if typ in FIX64_T else 2


def enc_scalar_payload(typ, v):
    """Spec level encoding of a scalar -> (wire type, varint int or raw bytes)."""
    if typ in ("int32", "int64", "enum"):
        return 0, v & (2**64 - 1)
    if typ in ("uint32", "uint64"):
        return 0, v
    if typ == "bool":
        return 0, int(v)
    if typ in ("sint32", "sint64"):
        return 0, ((v << 1) ^ (v >> 63)) & (2**64 - 1)
    fmt = {"fixed32": "<I", "sfixed32": "<i", "float": "<f", "fixed64": "<Q",
           "sfixed64": "<q", "double": "<d"}.get(typ)
    if fmt:
        return wire_of(typ), struct.pack(fmt, v)
    if typ == "string":
        return 2, v.encode()
    return 2, v


def unknown_record(rng):
    number = rng.choice([100, 101, 999, 70000, MAXNUM - 1])
    wt = rng.choice([0, 1, 2, 5])
    if wt == 0:
        v = rng.choice([0, 1, 2**64 - 1, rng.randrange(2**64)])
    elif wt == 1:
        v = bytes(rng.randrange(256) for _ in range(8))
    elif wt == 5:
        v = bytes(rng.randrange(256) for _ in range(4))
    else:
        v = bytes(rng.randrange(256) for _ in range(rng.choice([0, 1, 5, 200])))
    return number, wt, v


def reencode(rng, buf, mname):
    """Another legal encoding of the message encoded in `buf`."""
    fields = {number: (name, kind, typ) for name, number, kind, typ in SCHEMA[mname]}
    queues = {}  # field number (or oneof / unknown slot) -> records in order

    def put(slot, rec):
        queues.setdefault(slot, []).append(rec)

    for number, wt, v in split_records(buf):
        name, kind, typ = fields[number]
        slot = "choice" if kind == "o" else number
        if kind == "r" and typ in T and typ not in ("string", "bytes"):
            # a repeated scalar: collect the elements, whatever form they came in
            ewt = wire_of(typ)
            if wt == 2:
                pos, elems = 0, []
                while pos < len(v):
                    if ewt == 0:
                        x, pos = dec_varint(v, pos)
                    else:
                        width = 4 if ewt == 5 else 8
                        x, pos = v[pos:pos + width], pos + width
                    elems.append(x)
            else:
                elems = [v]
            mode = rng.choice(["packed", "unpacked", "chunks", "mixed"])
            i = 0
            if mode == "packed" and not elems:
                put(slot, (number, 2, b""))
            while i < len(elems):
                if mode == "unpacked" or (mode == "mixed" and rng.random() < 0.5):
                    put(slot, (number, ewt, elems[i]))
                    i += 1
                    continue
                n = len(elems) - i if mode == "packed" else rng.randint(0, len(elems) - i)
                chunk = b"".join(
                    pad(rng, x, 10) if ewt == 0 else x for x in elems[i:i + n])
                put(slot, (number, 2, chunk))
                i += n
            continue
        if wt == 2 and (typ == "Sub" or kind == "m") and rng.random() < 0.7:
            if kind == "m":
                v = reencode_entry(rng, v, typ)
            else:
                v = reencode(rng, v, "Sub")
        if kind in ("s", "p", "o") and typ in T and rng.random() < 0.4:
            # an earlier occurrence of the same singular scalar: the last one wins
            dwt, dv = enc_scalar_payload(typ, gen_scalar(rng, typ))
            put(slot, (number, dwt, dv))
        if kind == "o" and rng.random() < 0.5:
            # an earlier occurrence of another member of the oneof
            oname, onumber, _, otyp = rng.choice([f for f in SCHEMA[mname] if f[2] == "o"])
            if onumber != number:
                if otyp == "Sub":
                    put(slot, (onumber, 2, bytes(to_ref("Sub", gen_spec(rng, "Sub", 1))
                                                 .SerializeToString())))
                else:
                    dwt, dv = enc_scalar_payload(otyp, gen_scalar(rng, otyp))
                    put(slot, (onumber, dwt, dv))
        put(slot, (number, wt, v))

    for i in range(rng.choice([0, 0, 1, 3])):
        put(("unknown", i), unknown_record(rng))

    # any interleaving that keeps the order of the records of one field / oneof
    out = bytearray()
    slots = [s for s in queues if queues[s]]
    if rng.random() < 0.3:
        slots.sort(key=str)
        order = [s for s in slots for _ in queues[s]]
    else:
        order = [s for s in slots for _ in queues[s]]
        rng.shuffle(order)
    cursor = dict.fromkeys(queues, 0)
    for s in order:
        number, wt, v = queues[s][cursor[s]]
        cursor[s] += 1
        out += emit(rng, number, wt, v)
    return bytes(out)


def reencode_entry(rng, buf, types):
    recs = []
    for number, wt, v in split_records(buf):
        typ = types[number - 1]
        if typ == "Sub":
            v = reencode(rng, v, "Sub")
        elif rng.random() < 0.3:
            dwt, dv = enc_scalar_payload(typ, gen_scalar(rng, typ))
            recs.append((number, dwt, dv))  # overridden by the later occurrence
        recs.append((number, wt, v))
    if rng.random() < 0.5:
        # value before key is fine as long as duplicates keep their relative order
        recs = [r for r in recs if r[0] == 2] + [r for r in recs if r[0] == 1]
    return b"".join(emit(rng, *r) for r in recs)


# ---------------------------------------------------------------------- the checks
def check_interop(seed, rounds, variants=4):
    rng = random.Random(seed)
    n = 0
    for _ in range(rounds):
        spec = gen_spec(rng, "All")
        bp, ref = to_bp("All", spec), to_ref("All", spec)
        want = view_ref(ref, "All")
        got = view_bp(bp, "All")
        assert got == want, ("harness", explain(got, want))

        # D1 betterproto bytes -> reference
        data = bytes(bp)
        got = view_ref(REF["All"].FromString(data), "All")
        assert got == want, ("bp->ref", explain(got, want))
        assert len(bp) == len(data)

        # D2 reference bytes -> betterproto
        rdata = ref.SerializeToString()
        back = All().parse(rdata)
        got = view_bp(back, "All")
        assert got == want, ("ref->bp", explain(got, want))
        # ... and what betterproto re-emits is again understood by the reference
        got = view_ref(REF["All"].FromString(bytes(back)), "All")
        assert got == want, ("ref->bp->ref", explain(got, want))

        # D3 alternative encodings -> betterproto (and the reference, as a sanity check)
        for _ in range(variants):
            alt = reencode(rng, rdata, "All")
            got = view_ref(REF["All"].FromString(alt), "All")
            assert got == want, ("re-encoder produced something else", explain(got, want))
            got = view_bp(All().parse(alt), "All")
            assert got == want, ("alt->bp", explain(got, want), alt.hex())
            got = view_bp(All.FromString(alt), "All")
            assert got == want
            n += 1
    return n


# ------------------------------------------------- sized / delimited loading (keep1)
from io import BytesIO


def load_error(data, size, into=None):
    msg = into if into is not None else All()
    stream = BytesIO(data)
    try:
        msg.load(stream, size)
    except (ValueError, EOFError) as e:
        return type(e).__name__, str(e), stream.tell(), msg
    return None, None, stream.tell(), msg


def check_sized(seed, rounds):
    rng = random.Random(seed)
    for _ in range(rounds):
        specs = [gen_spec(rng, "All") if rng.random() < 0.8 else {} for _ in range(4)]
        refs = [to_ref("All", s) for s in specs]
        wants = [view_ref(r, "All") for r in refs]
        blobs = [reencode(rng, r.SerializeToString(), "All") if rng.random() < 0.5
                 else r.SerializeToString() for r in refs]

        # a stream of length-prefixed messages written by "the reference"
        stream = BytesIO(b"".join(pad(rng, len(b), 5) + b for b in blobs) + b"tail")
        for want in wants:
            got = view_bp(All().load(stream, betterproto.SIZE_DELIMITED), "All")
            assert got == want, explain(got, want)
        assert stream.read() == b"tail"

        # the same with explicit sizes; nothing beyond the size is consumed
        stream = BytesIO(b"".join(blobs) + b"tail")
        for want, blob in zip(wants, blobs):
            before = stream.tell()
            got = view_bp(All().load(stream, len(blob)), "All")
            assert got == want, explain(got, want)
            assert stream.tell() == before + len(blob)
        assert stream.read() == b"tail"

        # a stream written by betterproto, split by hand and read by the reference
        out = BytesIO()
        bps = [to_bp("All", s) for s in specs]
        for m in bps:
            m.dump(out, betterproto.SIZE_DELIMITED)
        buf, pos = out.getvalue(), 0
        for want in wants:
            n, pos = dec_varint(buf, pos)
            got = view_ref(REF["All"].FromString(buf[pos:pos + n]), "All")
            assert got == want, explain(got, want)
            pos += n
        assert pos == len(buf)

        # sizes that do not fall on a record boundary / exceed the data
        blob = blobs[0]
        # record boundaries, computed independently of betterproto
        ends, pos = [0], 0
        while pos < len(blob):
            key, p = dec_varint(blob, pos)
            wt = key & 7
            if wt == 0:
                _, p = dec_varint(blob, p)
            elif wt == 1:
                p += 8
            elif wt == 5:
                p += 4
            else:
                n, p = dec_varint(blob, p)
                p += n
            pos = p
            ends.append(pos)
        for size in sorted({0, 1, 2, 3, len(blob) // 2, len(blob) - 1, len(blob),
                            len(blob) + 1, len(blob) + 50}
                           | set(rng.sample(range(len(blob) + 1), min(6, len(blob) + 1)))):
            if size < 0:
                continue
            kind, text, told, msg = load_error(blob + b"", size)
            if size in ends:
                assert kind is None, (size, kind, text)
                assert told == size
                # exactly the records below `size` were taken
                want = view_bp(All().parse(blob[:size]), "All")
                assert view_bp(msg, "All") == want
            elif size > len(blob):
                assert kind == "ValueError", (size, kind, text)
                assert text == (
                    f"Expected message of size {size}, but was only able to "
                    f"read {len(blob)} bytes - the stream may have ended too soon,"
                    " or the expected size may have been incorrect."), text
                assert told == len(blob)
                assert view_bp(msg, "All") == wants[0]  # everything had been decoded
            else:
                lo = max(e for e in ends if e < size)
                hi = min(e for e in ends if e > size)
                assert kind == "ValueError", (size, kind, text)
                assert text == (
                    f"Expected message of size {size}, can only read "
                    f"either {lo} or {hi} bytes - there is no "
                    "message of the expected size in the stream."), text
                assert told == hi
                # the record that overshoots is not applied
                want = view_bp(All().parse(blob[:lo]), "All")
                assert view_bp(msg, "All") == want
            assert betterproto.serialized_on_wire(msg)

        # truncated data without a size: clean end only at a record boundary
        for cut in rng.sample(range(len(blob) + 1), min(8, len(blob) + 1)):
            kind, text, told, msg = load_error(blob[:cut], None)
            if cut in ends:
                assert kind is None
            else:
                assert kind in ("EOFError", "ValueError"), (cut, kind)
                if kind == "ValueError":
                    # only from a payload that itself is a truncated nested message
                    assert "Expected message" not in text


def check_sized_fixed():
    @dataclass(eq=False, repr=False)
    class Small(betterproto.Message):
        a: int = betterproto.int32_field(1)
        s: str = betterproto.string_field(2)
        r: List[int] = betterproto.int32_field(3)

    data = bytes(Small(a=5, s="hey", r=[1, 2, 300]))
    assert data == bytes.fromhex("0805" "1203686579" "1a040102ac02")
    unknown = bytes.fromhex("f80601" "fa060161")  # fields 111 (varint) and 111 (bytes)
    whole = data[:2] + unknown + data[2:]
    # size 0 reads nothing, even from an empty or a foreign stream
    for content in (b"", data, b"\xff\xff"):
        st = BytesIO(content)
        m = Small().load(st, 0)
        assert st.tell() == 0 and bytes(m) == b"" and betterproto.serialized_on_wire(m)
    st = BytesIO(b"\x00" + data)
    m = Small().load(st, betterproto.SIZE_DELIMITED)
    assert st.tell() == 1 and bytes(m) == b""
    # unknown fields count towards the size and are kept
    st = BytesIO(whole + data)
    m = Small().load(st, len(whole))
    assert st.tell() == len(whole)
    assert (m.a, m.s, m.r) == (5, "hey", [1, 2, 300])
    assert m._unknown_fields == unknown
    assert bytes(m) == data + unknown
    # the remaining message merges into an existing instance
    m.load(st, len(data))
    assert (m.a, m.s, m.r) == (5, "hey", [1, 2, 300, 1, 2, 300])
    assert st.read() == b""
    # errors: inside the unknown field, and past the end
    kind, text, told, m = load_error(whole, 4, Small())
    assert (kind, told) == ("ValueError", 5), (kind, told)
    assert text == ("Expected message of size 4, can only read either 2 or 5 bytes - "
                    "there is no message of the expected size in the stream.")
    assert (m.a, m.s, m.r, m._unknown_fields) == (5, "", [], b"")
    kind, text, told, m = load_error(whole, len(whole) + 1, Small())
    assert kind == "ValueError" and told == len(whole)
    assert text == (f"Expected message of size {len(whole) + 1}, but was only able to "
                    f"read {len(whole)} bytes - the stream may have ended too soon,"
                    " or the expected size may have been incorrect.")
    assert (m.a, m.s, m.r, m._unknown_fields) == (5, "hey", [1, 2, 300], unknown)
    # a size that ends inside a record which itself is cut short by the end of input
    kind, text, told, m = load_error(data[:-1], len(data), Small())
    assert kind == "EOFError", kind
    assert (m.a, m.s, m.r) == (5, "hey", [])
    # negative sizes other than SIZE_DELIMITED read nothing
    st = BytesIO(data)
    m = Small().load(st, -7)
    assert st.tell() == 0 and bytes(m) == b""
    # errors from malformed records pass through unchanged
    for bad, exc in ((b"\x00\x01", ValueError), (b"\x0b", ValueError),
                     (b"\x08", EOFError), (b"\x12\x05ab", EOFError),
                     (b"\x08" + b"\xff" * 10 + b"\x01", ValueError)):
        for size in (None, len(bad), len(bad) + 3):
            try:
                Small().load(BytesIO(bad), size)
            except exc:
                pass
            else:
                raise AssertionError((bad, size))


if __name__ == "__main__":
    n = check_interop(20260, 220)
    check_sized_fixed()
    check_sized(777, 60)
    print(f"ok: interop on {n} alternative encodings, sized/delimited loading agrees")
