"""Equivalence check for the ProtoClassMetadata.__init__ refactor (C19).

The per-class metadata (field table, number table, one-of tables, sorted names and
the JSON key table) is compared, including dict insertion order, with a reference
model spelled out here (the original single-pass algorithm), for hand-written
classes, randomly generated classes and all message classes shipped in
betterproto.lib; then the JSON key round trip is exercised exhaustively.
"""
import dataclasses
import inspect
import itertools
import keyword
import random
from dataclasses import dataclass
from typing import Dict, List, Optional

import betterproto
from betterproto import Casing, FieldMetadata, casing
from betterproto.compile import naming


def reference(cls):
    """The metadata tables as the one-pass loop builds them."""
    by_field, by_group, by_field_name, by_field_number = {}, {}, {}, {}
    for field in dataclasses.fields(cls):
        meta = field.metadata["betterproto"]
        if meta.group:
            by_field[field.name] = meta.group
            by_group.setdefault(meta.group, set()).add(field)
        by_field_name[field.name] = meta
        by_field_number[meta.number] = field.name
    sorted_names = tuple(by_field_number[n] for n in sorted(by_field_number))
    by_key = {}
    for field_name in by_field_name:
        for c in (casing.camel_case, casing.snake_case):
            by_key.setdefault(c(field_name).rstrip("_"), field_name)
    by_key.update((f, f) for f in by_field_name)
    return by_field, by_group, by_field_number, by_field_name, sorted_names, by_key


def check_class(cls):
    by_field, by_group, by_number, by_name, sorted_names, by_key = reference(cls)
    meta = betterproto.ProtoClassMetadata(cls)
    for got, want in (
        (meta.oneof_group_by_field, by_field),
        (meta.oneof_field_by_group, by_group),
        (meta.field_name_by_number, by_number),
        (meta.meta_by_field_name, by_name),
        (meta.field_name_by_key, by_key),
    ):
        assert type(got) is dict
        assert list(got.items()) == list(want.items()), (cls, got, want)
    for name, m in meta.meta_by_field_name.items():
        assert m is by_name[name]
    for group, members in meta.oneof_field_by_group.items():
        assert type(members) is set and members == by_group[group]
    assert type(meta.sorted_field_names) is tuple
    assert meta.sorted_field_names == sorted_names, cls
    assert set(meta.default_gen) == set(by_name)
    # the lazily created class metadata is the same thing
    cached = cls._betterproto
    assert list(cached.field_name_by_key.items()) == list(by_key.items())
    assert cached.sorted_field_names == sorted_names
    assert list(cached.meta_by_field_name) == list(by_name)


# ---------------------------------------------------------------- hand-written classes
@dataclass(eq=False, repr=False)
class Inner(betterproto.Message):
    x_y_z: int = betterproto.int32_field(1)
    address_line_1: str = betterproto.string_field(2)


@dataclass(eq=False, repr=False)
class Sample(betterproto.Message):
    zeta: int = betterproto.int32_field(9)
    address_line_1: str = betterproto.string_field(2)
    x_y_z: int = betterproto.int32_field(7)
    class_: int = betterproto.int32_field(3)
    _1: int = betterproto.int32_field(4)
    ipv4_address: str = betterproto.string_field(5, group="addr")
    ipv6_address: str = betterproto.string_field(6, group="addr")
    http_status: int = betterproto.int32_field(1, group="result")
    inner: Inner = betterproto.message_field(8, group="result")
    a_1_b: int = betterproto.int32_field(10, group="addr")
    items: List[Inner] = betterproto.message_field(11)
    by_name: Dict[str, Inner] = betterproto.map_field(
        12, betterproto.TYPE_STRING, betterproto.TYPE_MESSAGE
    )
    maybe: Optional[int] = betterproto.int32_field(13, optional=True)


@dataclass(eq=False, repr=False)
class Empty(betterproto.Message):
    pass


@dataclass(eq=False, repr=False)
class OnlyOneof(betterproto.Message):
    b_2: int = betterproto.int32_field(2, group="g")
    a_1: int = betterproto.int32_field(1, group="g")


for c in (Inner, Sample, Empty, OnlyOneof):
    check_class(c)

assert Sample._betterproto.sorted_field_names[0] == "http_status"
assert Sample._betterproto.oneof_group_by_field == {
    "ipv4_address": "addr",
    "ipv6_address": "addr",
    "http_status": "result",
    "inner": "result",
    "a_1_b": "addr",
}
assert list(Sample._betterproto.oneof_field_by_group) == ["addr", "result"]
assert {f.name for f in Sample._betterproto.oneof_field_by_group["addr"]} == {
    "ipv4_address",
    "ipv6_address",
    "a_1_b",
}

# one-of behaviour built on those tables
s = Sample(ipv4_address="1.2.3.4")
assert betterproto.which_one_of(s, "addr") == ("ipv4_address", "1.2.3.4")
s.a_1_b = 5
assert betterproto.which_one_of(s, "addr") == ("a_1_b", 5)
assert betterproto.which_one_of(s, "result") == ("", None)
s.http_status = 0
assert betterproto.which_one_of(s, "result") == ("http_status", 0)
assert Sample().parse(bytes(s)).to_dict() == s.to_dict() == {"a1B": 5, "httpStatus": 0}

full = Sample(
    zeta=1,
    address_line_1="a",
    x_y_z=2,
    class_=3,
    _1=4,
    ipv6_address="::1",
    inner=Inner(x_y_z=5, address_line_1="b"),
    items=[Inner(x_y_z=6)],
    by_name={"k": Inner(address_line_1="c")},
    maybe=0,
)
for c in (Casing.CAMEL, Casing.SNAKE):
    d = full.to_dict(casing=c)
    assert len(d) == 10, d
    assert Sample.from_dict(d) == full
    assert Sample().from_dict(d) == full
    no_msg_oneof = Sample(address_line_1='a', x_y_z=2, class_=3, _1=4, a_1_b=1)
    assert Sample().from_pydict(no_msg_oneof.to_pydict(casing=c)) == no_msg_oneof
    assert Sample().from_json(full.to_json(casing=c)) == full
assert set(full.to_dict()) == {
    "zeta", "addressLine1", "xYZ", "class", "1", "ipv6Address", "inner", "items",
    "byName", "maybe",
}
orig = {"zeta": 1, "address_line_1": "a", "x_y_z": 2, "class": 3, "_1": 4,
        "ipv6Address": "::1", "Inner": {"xYZ": 5, "addressLine_1": "b"}}
got = Sample.from_dict(orig)
assert (got.zeta, got.address_line_1, got.x_y_z, got.class_, got._1) == (1, "a", 2, 3, 4)
assert got.ipv6_address == "::1" and got.inner == Inner(x_y_z=5, address_line_1="b")
assert Sample.from_dict({"nope": 1, "x_yz": 2, "addressLine2": "q"}) == Sample()

# ---------------------------------------------------------------- library classes
import betterproto.lib.google.protobuf as pb
import betterproto.lib.google.protobuf.compiler as pbc

lib_classes = [
    obj
    for mod in (pb, pbc)
    for obj in vars(mod).values()
    if inspect.isclass(obj)
    and issubclass(obj, betterproto.Message)
    and dataclasses.is_dataclass(obj)
    and obj is not betterproto.Message
]
assert len(lib_classes) > 40
for c in lib_classes:
    check_class(c)

# ---------------------------------------------------------------- random classes
rng = random.Random(19)
NAMES = [
    "a", "b", "a_b", "a_1", "a1", "x_y_z", "x_yz", "address_line_1", "address_line1",
    "ipv4_address", "http_status", "class_", "import_", "_1", "_", "foo_bar_baz",
    "get_u_int64", "u_int32", "a_1_b", "a_b_1", "type", "match", "v1_beta_2", "id",
    "i_d", "n_1_2_3", "foo_1a", "foo_1_a", "xy_z", "x_y", "none_", "list", "field_9",
]
for n in range(400):
    k = rng.randint(1, 12)
    names = rng.sample(NAMES, k)
    numbers = rng.sample(range(1, 60), k)
    if rng.random() < 0.1 and k > 1:
        numbers[-1] = numbers[0]  # degenerate: duplicated number, last one wins
    specs = []
    for name, number in zip(names, numbers):
        group = rng.choice([None, None, "g1", "g2", "g3"])
        specs.append((name, int, betterproto.int32_field(number, group=group)))
    cls = dataclasses.make_dataclass(
        f"R{n}", specs, bases=(betterproto.Message,), eq=False, repr=False
    )
    check_class(cls)
    # distinct fields may legitimately share a key (a_1 / a1): no round trip then
    unambiguous = len({casing.camel_case(n_) for n_ in names}) == k
    if len(set(numbers)) == k and unambiguous:
        msg = cls()
        expect = {}
        seen_groups = {}
        for name, _, f in specs:
            seen_groups[f.metadata["betterproto"].group or name] = name
        for name in seen_groups.values():
            setattr(msg, name, 3)
        for name, _, f in specs:
            g = f.metadata["betterproto"].group
            if g:
                assert (betterproto.which_one_of(msg, g)[0] == name) == (
                    seen_groups[g] == name
                )
        for c in (Casing.CAMEL, Casing.SNAKE):
            d = msg.to_dict(casing=c)
            assert len(d) == len(seen_groups)
            back = cls.from_dict(d)
            for name in seen_groups.values():
                assert getattr(back, name) == 3, (names, c, name)
        assert cls().parse(bytes(msg)).to_dict() == msg.to_dict()

# ---------------------------------------------------------------- exhaustive identifiers
ALPHA = "abAB1_"
idents = [
    "".join(t)
    for n in range(1, 7)
    for t in itertools.product(ALPHA, repeat=n)
    if not t[0].isdigit()
]
idents += sorted(keyword.kwlist) + sorted(keyword.softkwlist)
idents += ["address_line_1", "ipv4_address", "x_y_z", "HTTPStatus", "addressLine1"]
classes = {}
for ident in idents:
    field_name = naming.pythonize_field_name(ident)
    assert field_name.isidentifier() and not keyword.iskeyword(field_name)
    cls = classes.get(field_name)
    if cls is None:
        cls = classes[field_name] = dataclasses.make_dataclass(
            "M",
            [
                ("pad_1", int, betterproto.int32_field(2)),
                (field_name, int, betterproto.int32_field(1, group="g")),
                ("pad_2", int, betterproto.int32_field(3, group="g")),
            ],
            bases=(betterproto.Message,),
            eq=False,
            repr=False,
        )
        meta = cls._betterproto
        assert list(meta.meta_by_field_name) == ["pad_1", field_name, "pad_2"]
        assert meta.sorted_field_names == (field_name, "pad_1", "pad_2")
        assert meta.oneof_group_by_field == {field_name: "g", "pad_2": "g"}
        assert meta.field_name_by_key[field_name] == field_name
    msg = cls(**{field_name: 7})
    for c in (Casing.CAMEL, Casing.SNAKE):
        d = msg.to_dict(casing=c)
        assert len(d) == 1
        assert getattr(cls.from_dict(d), field_name) == 7, (ident, d)
        assert getattr(cls().from_pydict(msg.to_pydict(casing=c)), field_name) == 7
    assert getattr(cls.from_dict({ident: 7}), field_name) == 7, ident
    assert getattr(cls().from_pydict({ident: 7}), field_name) == 7, ident
print("ok:", len(lib_classes), "library classes,", len(classes), "generated classes,",
      len(idents), "identifiers")
