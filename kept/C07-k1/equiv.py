"""Equivalence check for the __getattribute__ / __setattr__ restructuring (C07).

A seeded random state-machine test: histories of constructions, assignments, decodes,
dict loads, copies, deep copies and pickle round trips over a message with three oneof
groups (scalar, string, bytes, enum and message members).  After every step the message
is compared with a simple model and with google.protobuf (dynamic message built from
the same schema): which_one_of, attribute access (including the exact AttributeError
text), raw slot state, binary encoding, len() and to_dict().
"""
import copy
import pickle
import random
import sys
from dataclasses import dataclass

from google.protobuf import descriptor_pb2, descriptor_pool, json_format, message_factory

import betterproto
from betterproto import PLACEHOLDER, which_one_of


class Colour(betterproto.Enum):
    ZERO = 0
    RED = 1
    BLUE = 2


@dataclass(eq=False, repr=False)
class Sub(betterproto.Message):
    val: int = betterproto.int32_field(1)
    name: str = betterproto.string_field(2)


@dataclass(eq=False, repr=False)
class Msg(betterproto.Message):
    plain: int = betterproto.int32_field(1)
    a_int: int = betterproto.int32_field(2, group="first")
    a_str: str = betterproto.string_field(3, group="first")
    a_sub: Sub = betterproto.message_field(4, group="first")
    a_enum: Colour = betterproto.enum_field(5, group="first")
    label: str = betterproto.string_field(6)
    b_bool: bool = betterproto.bool_field(7, group="second")
    b_bytes: bytes = betterproto.bytes_field(8, group="second")
    b_sub: Sub = betterproto.message_field(9, group="second")
    b_dbl: float = betterproto.double_field(10, group="second")
    c_only: int = betterproto.sint64_field(11, group="third")


# ---------------------------------------------------------------- google twin
def _build_google():
    fdp = descriptor_pb2.FileDescriptorProto(
        name="c07_equiv_keep1.proto", package="c07k1", syntax="proto3"
    )
    enum = fdp.enum_type.add(name="Colour")
    for n, v in (("ZERO", 0), ("RED", 1), ("BLUE", 2)):
        enum.value.add(name=n, number=v)
    sub = fdp.message_type.add(name="Sub")
    F = descriptor_pb2.FieldDescriptorProto
    sub.field.add(name="val", number=1, type=F.TYPE_INT32, label=F.LABEL_OPTIONAL)
    sub.field.add(name="name", number=2, type=F.TYPE_STRING, label=F.LABEL_OPTIONAL)
    msg = fdp.message_type.add(name="Msg")
    for g in ("first", "second", "third"):
        msg.oneof_decl.add(name=g)
    spec = [
        ("plain", 1, F.TYPE_INT32, None, None),
        ("a_int", 2, F.TYPE_INT32, 0, None),
        ("a_str", 3, F.TYPE_STRING, 0, None),
        ("a_sub", 4, F.TYPE_MESSAGE, 0, ".c07k1.Sub"),
        ("a_enum", 5, F.TYPE_ENUM, 0, ".c07k1.Colour"),
        ("label", 6, F.TYPE_STRING, None, None),
        ("b_bool", 7, F.TYPE_BOOL, 1, None),
        ("b_bytes", 8, F.TYPE_BYTES, 1, None),
        ("b_sub", 9, F.TYPE_MESSAGE, 1, ".c07k1.Sub"),
        ("b_dbl", 10, F.TYPE_DOUBLE, 1, None),
        ("c_only", 11, F.TYPE_SINT64, 2, None),
    ]
    for name, number, typ, oneof, type_name in spec:
        f = msg.field.add(name=name, number=number, type=typ, label=F.LABEL_OPTIONAL)
        if oneof is not None:
            f.oneof_index = oneof
        if type_name:
            f.type_name = type_name
    pool = descriptor_pool.DescriptorPool()
    pool.Add(fdp)
    return (
        message_factory.GetMessageClass(pool.FindMessageTypeByName("c07k1.Msg")),
        message_factory.GetMessageClass(pool.FindMessageTypeByName("c07k1.Sub")),
    )


GMsg, GSub = _build_google()

GROUPS = {
    "first": ("a_int", "a_str", "a_sub", "a_enum"),
    "second": ("b_bool", "b_bytes", "b_sub", "b_dbl"),
    "third": ("c_only",),
}
GROUP_OF = {m: g for g, ms in GROUPS.items() for m in ms}
DECL_ORDER = [
    "plain", "a_int", "a_str", "a_sub", "a_enum", "label",
    "b_bool", "b_bytes", "b_sub", "b_dbl", "c_only",
]
NUMBER = {n: i + 1 for i, n in enumerate(DECL_ORDER)}
JSON_KEY = {n: betterproto.Casing.CAMEL(n) for n in DECL_ORDER}

VALUES = {
    "a_int": [0, 1, -1, 2**31 - 1, -(2**31)],
    "a_str": ["", "x", "héllo", "0"],
    "a_sub": [(0, ""), (5, ""), (0, "n"), (-3, "zz")],
    "a_enum": [Colour.ZERO, Colour.RED, Colour.BLUE],
    "b_bool": [False, True],
    "b_bytes": [b"", b"\x00", b"abc"],
    "b_sub": [(0, ""), (7, "q")],
    "b_dbl": [0.0, 1.5, -2.25, 1e300],
    "c_only": [0, 1, -1, 2**63 - 1, -(2**63)],
    "plain": [0, 1, -7, 123456],
    "label": ["", "lbl"],
}


def mk(member, v):
    """model value -> betterproto value"""
    if member.endswith("_sub"):
        return Sub(val=v[0], name=v[1])
    return v


def norm(member, v):
    """betterproto value -> model value"""
    if member.endswith("_sub"):
        return (v.val, v.name)
    return v


def google_of(model):
    g = GMsg()
    for name, v in model.items():
        if v is None:
            continue
        if name.endswith("_sub"):
            getattr(g, name).SetInParent()
            getattr(g, name).val = v[0]
            getattr(g, name).name = v[1]
        elif name == "a_enum":
            g.a_enum = int(v)
        else:
            setattr(g, name, v)
    return g


def encode_field(member, v):
    """wire bytes of one field, produced by google.protobuf"""
    g = GMsg()
    if member.endswith("_sub"):
        getattr(g, member).SetInParent()
        getattr(g, member).val = v[0]
        getattr(g, member).name = v[1]
    elif member == "a_enum":
        g.a_enum = int(v)
    elif member in GROUP_OF:
        setattr(g, member, v)
    else:
        setattr(g, member, v)
        if not v:
            return b""
    return g.SerializeToString()


def expect_attr_error(msg, member, group, selected):
    try:
        getattr(msg, member)
    except AttributeError as exc:
        text = f"{group!r} is set to {selected!r}, not {member!r}"
        assert exc.args == (text,), (exc.args, text)
        if sys.version_info >= (3, 10):
            assert exc.name == member and exc.obj is msg
    else:
        raise AssertionError(f"{member} is readable although {selected!r} is selected")
    assert not hasattr(msg, member)
    assert getattr(msg, member, "fallback") == "fallback"


def check(msg, model, raw_reset_groups=()):
    # model: name -> value (None = unset member); plain/label always concrete
    assert type(msg) is Msg and msg.__class__ is Msg
    assert msg._betterproto is Msg._betterproto
    for group, members in GROUPS.items():
        selected = [m for m in members if model[m] is not None]
        assert len(selected) <= 1
        sel = selected[0] if selected else None
        name, value = which_one_of(msg, group)
        if sel is None:
            assert (name, value) == ("", None), (group, name, value)
        else:
            assert name == sel, (group, name, sel)
            assert norm(sel, value) == model[sel], (sel, value, model[sel])
            if sel != "a_enum":  # from_dict keeps a plain int given for an enum
                assert type(norm(sel, value)) is type(model[sel])
            assert norm(sel, getattr(msg, sel)) == model[sel]
            assert hasattr(msg, sel)
            assert object.__getattribute__(msg, sel) is not PLACEHOLDER
        assert msg._group_current[group] == sel
        for m in members:
            if m != sel:
                expect_attr_error(msg, m, group, sel)
                if group in raw_reset_groups:
                    assert object.__getattribute__(msg, m) is PLACEHOLDER, m
    assert msg.plain == model["plain"] and msg.label == model["label"]
    assert list(msg._group_current) == ["first", "second", "third"]

    g = google_of(model)
    for group in GROUPS:
        assert (g.WhichOneof(group) or "") == which_one_of(msg, group)[0]
    data = bytes(msg)
    assert data == g.SerializeToString(), (data, g.SerializeToString(), model)
    assert len(msg) == len(data)
    assert msg.SerializeToString() == data
    numbers = [f.number for f in betterproto.parse_fields(data)]
    want = [NUMBER[n] for n in DECL_ORDER if model[n] is not None and (n in GROUP_OF or model[n])]
    assert numbers == want, (numbers, want)

    as_dict = msg.to_dict()
    assert as_dict == json_format.MessageToDict(g), (as_dict, json_format.MessageToDict(g))
    for n in GROUP_OF:
        assert (JSON_KEY[n] in as_dict) == (model[n] is not None), (n, as_dict)
    py = msg.to_pydict()
    for n in GROUP_OF:
        assert (JSON_KEY[n] in py) == (model[n] is not None), (n, py)


def empty_model():
    model = {n: None for n in DECL_ORDER}
    model["plain"] = 0
    model["label"] = ""
    return model


def select(model, member, v):
    for m in GROUPS[GROUP_OF[member]]:
        model[m] = None
    model[member] = v


def run_history(rng, steps):
    model = empty_model()
    msg = Msg()
    check(msg, model)
    for _ in range(steps):
        op = rng.choice(
            ["ctor", "set", "set", "set", "plain", "parse", "parse_fresh", "from_dict",
             "from_dict_cls", "copy", "deepcopy", "pickle", "same_again"]
        )
        reset = ()
        if op == "ctor":
            model = empty_model()
            kwargs = {}
            for group, members in GROUPS.items():
                k = rng.choice([0, 1, 1, 2]) if len(members) > 1 else rng.choice([0, 1])
                chosen = rng.sample(members, k)
                for m in chosen:
                    kwargs[m] = mk(m, rng.choice(VALUES[m]))
                if chosen:
                    # several members of one group: the last declared one wins
                    last = max(chosen, key=DECL_ORDER.index)
                    model[last] = norm(last, kwargs[last])
            if rng.random() < 0.5:
                model["plain"] = kwargs["plain"] = rng.choice(VALUES["plain"])
            items = list(kwargs.items())
            rng.shuffle(items)
            msg = Msg(**dict(items))
        elif op == "set":
            member = rng.choice(list(GROUP_OF))
            v = rng.choice(VALUES[member])
            setattr(msg, member, mk(member, v))
            select(model, member, v)
            reset = (GROUP_OF[member],)
        elif op == "same_again":
            # re-assign the currently selected member (possibly with its default)
            group = rng.choice(list(GROUPS))
            current = which_one_of(msg, group)[0]
            if current:
                v = rng.choice(VALUES[current])
                setattr(msg, current, mk(current, v))
                select(model, current, v)
                reset = (group,)
        elif op == "plain":
            if rng.random() < 0.5:
                model["plain"] = msg.plain = rng.choice(VALUES["plain"])
            else:
                model["label"] = msg.label = rng.choice(VALUES["label"])
        elif op in ("parse", "parse_fresh"):
            if op == "parse_fresh":
                msg, model = Msg(), empty_model()
            chunks = []
            touched = set()
            for _ in range(rng.randrange(0, 5)):
                member = rng.choice(list(GROUP_OF) + ["plain"])
                v = rng.choice(VALUES[member])
                chunk = encode_field(member, v)
                chunks.append(chunk)
                if member in GROUP_OF:
                    select(model, member, v)
                    touched.add(GROUP_OF[member])
                elif chunk:
                    model[member] = v
            assert msg.parse(b"".join(chunks)) is msg
            reset = tuple(touched)
        elif op == "from_dict":
            members = rng.sample(list(GROUP_OF), rng.randrange(0, 4))
            d = {}
            for m in members:
                v = rng.choice(VALUES[m])
                d[rng.choice([m, JSON_KEY[m]])] = mk(m, v).to_dict() if m.endswith("_sub") else (
                    __import__("base64").b64encode(v).decode() if m == "b_bytes"
                    else (v.name if m == "a_enum" and rng.random() < 0.5 else
                          (str(v) if m == "c_only" and rng.random() < 0.5 else
                           (int(v) if m == "a_enum" else v)))
                )
                select(model, m, v)  # instance from_dict assigns in dict order
            assert msg.from_dict(d) is msg
            reset = tuple({GROUP_OF[m] for m in members})
        elif op == "from_dict_cls":
            d = msg.to_dict()
            msg = Msg.from_dict(d)
        elif op == "copy":
            old = msg
            msg = copy.copy(old)
            assert msg is not old and msg._group_current is not old._group_current
            check(old, model)
        elif op == "deepcopy":
            old = msg
            msg = copy.deepcopy(old)
            assert msg is not old and msg._group_current is not old._group_current
            # mutating the original must not affect the copy
            for group in GROUPS:
                m = rng.choice(GROUPS[group])
                setattr(old, m, mk(m, rng.choice(VALUES[m])))
        elif op == "pickle":
            msg = pickle.loads(pickle.dumps(msg))
        check(msg, model, reset)


def fixed_cases():
    # attribute access before __post_init__ has run: no selection table yet
    bare = Msg.__new__(Msg)
    assert bare.a_int == 0 and bare.a_str == "" and bare.plain == 0
    assert bare.__class__ is Msg and bare._betterproto is Msg._betterproto
    assert not hasattr(bare, "_group_current")
    bare.a_int = 5  # plain object attribute set: nothing to switch yet
    bare.a_str = "kept"
    assert object.__getattribute__(bare, "a_int") == 5
    assert object.__getattribute__(bare, "a_str") == "kept"
    try:
        bare.no_such_attribute
    except AttributeError:
        pass
    else:
        raise AssertionError

    # unknown attribute names on an initialised message
    msg = Msg(a_int=0)
    for name in ("nope", "first", "second", "_nope"):
        try:
            getattr(msg, name)
        except AttributeError as exc:
            assert "is set to" not in str(exc)
        else:
            raise AssertionError(name)
    # a non-field attribute can be set and read back; selections untouched
    msg.first = "not a field"
    assert msg.first == "not a field"
    assert which_one_of(msg, "first") == ("a_int", 0)
    assert betterproto.serialized_on_wire(msg)

    # assigning a default value selects (every member, every default)
    for member, group in GROUP_OF.items():
        msg = Msg()
        assert not betterproto.serialized_on_wire(msg)
        setattr(msg, member, mk(member, VALUES[member][0]))
        assert betterproto.serialized_on_wire(msg)
        model = empty_model()
        model[member] = VALUES[member][0]
        check(msg, model, (group,))
        # selecting every other member in turn
        for other in GROUPS[group]:
            setattr(msg, other, mk(other, VALUES[other][0]))
            select(model, other, VALUES[other][0])
            check(msg, model, (group,))

    # constructor with several members of one group, then assignments
    msg = Msg(a_int=1, a_str="s", a_enum=Colour.RED, b_dbl=0.0, b_bool=True)
    model = empty_model()
    model["a_enum"] = Colour.RED
    model["b_dbl"] = 0.0
    check(msg, model)
    assert object.__getattribute__(msg, "a_int") == 1  # sibling kwarg left in place
    msg.a_enum = Colour.ZERO
    model["a_enum"] = Colour.ZERO
    check(msg, model, ("first",))
    msg.a_int = 1
    select(model, "a_int", 1)
    check(msg, model, ("first",))


if __name__ == "__main__":
    fixed_cases()
    rng = random.Random(20260407)
    for i in range(400):
        run_history(rng, rng.randrange(1, 25))
    print("ok")
