"""Equivalence checks for the varint codec (dump_varint / load_varint) and the
stream field reader (load_fields), and for SIZE_DELIMITED streams built on them.
Must pass on the pristine tree and with the refactor applied."""
import random
from dataclasses import dataclass
from io import BytesIO
from typing import Dict, List, Optional

import betterproto
from betterproto import (
    SIZE_DELIMITED,
    ParsedField,
    decode_varint,
    dump_varint,
    encode_varint,
    load_fields,
    load_varint,
    parse_fields,
    size_varint,
)
from google.protobuf.internal import decoder as gdec
from google.protobuf.internal import encoder as genc

rnd = random.Random(0xC10)


# ---------------------------------------------------------------- reference
def ref_varint(value: int) -> bytes:
    assert value >= -(1 << 63)
    if value < 0:
        value += 1 << 64
    out = bytearray()
    while True:
        b = value & 0x7F
        value >>= 7
        if value:
            out.append(b | 0x80)
        else:
            out.append(b)
            return bytes(out)


class Recorder:
    """Write-only stream remembering each chunk."""

    def __init__(self):
        self.chunks = []

    def write(self, data):
        assert isinstance(data, bytes)
        self.chunks.append(data)
        return len(data)


class CountingReader:
    """Read-only stream remembering how many bytes were handed out."""

    def __init__(self, data: bytes):
        self.data, self.pos = data, 0

    def read(self, n: int = -1) -> bytes:
        if n is None or n < 0:
            n = len(self.data) - self.pos
        out = self.data[self.pos : self.pos + n]
        self.pos += len(out)
        return out


# ---------------------------------------------------------------- varints
interesting = set()
for k in range(0, 71):
    for d in (-2, -1, 0, 1, 2):
        interesting.add((1 << k) + d)
        interesting.add(-(1 << k) + d)
for k in range(1, 11):
    interesting.add((1 << (7 * k)) - 1)
    interesting.add(1 << (7 * k))
interesting |= {rnd.getrandbits(rnd.randint(1, 64)) for _ in range(3000)}
interesting |= {-rnd.getrandbits(rnd.randint(1, 63)) for _ in range(1000)}
interesting |= set(range(0, 300)) | {True, False}

n_checked = 0
for v in sorted(interesting, key=int):
    if v < -(1 << 63):
        for fn in (lambda: encode_varint(v), lambda: dump_varint(v, BytesIO()), lambda: size_varint(v)):
            try:
                fn()
            except ValueError as e:
                assert "Negative value is not representable" in str(e)
            else:
                raise AssertionError(v)
        continue
    exp = ref_varint(v)
    assert encode_varint(v) == exp, v
    rec = Recorder()
    assert dump_varint(v, rec) is None
    assert b"".join(rec.chunks) == exp, v
    assert all(len(c) == 1 for c in rec.chunks), rec.chunks
    if v < (1 << 64):
        assert size_varint(v) == len(exp), v
        assert len(exp) <= 10
        u = v + (1 << 64) if v < 0 else int(v)
        assert exp == genc._VarintBytes(u), v
        assert gdec._DecodeVarint(exp, 0) == (u, len(exp))
        # reading back, with trailing garbage that must not be touched
        tail = bytes([rnd.randrange(256) for _ in range(3)])
        r = CountingReader(exp + tail)
        assert load_varint(r) == (u, exp), v
        assert r.pos == len(exp)
        r = CountingReader(exp[1:] + tail)
        assert load_varint(r, exp[:1]) == (u, exp), v
        assert r.pos == len(exp) - 1
        assert decode_varint(b"\xff" + exp + tail, 1) == (u, 1 + len(exp))
        # every proper prefix is an EOFError
        for cut in range(len(exp)):
            try:
                load_varint(BytesIO(exp[:cut]))
            except EOFError:
                pass
            else:
                raise AssertionError((v, cut))
            if cut:
                try:
                    load_varint(BytesIO(exp[1:cut]), exp[:1])
                except EOFError:
                    pass
                else:
                    raise AssertionError((v, cut))
    else:
        assert len(exp) > 10 or exp[-1] > 1
    n_checked += 1
assert n_checked > 4000

# over-long / non-canonical varints
for n in range(1, 14):
    raw = b"\x80" * (n - 1) + b"\x01"
    r = CountingReader(raw + b"\x07\x07")
    if n <= 10:
        assert load_varint(r) == (1 << (7 * (n - 1)), raw)
        assert r.pos == n
    else:
        try:
            load_varint(r)
        except ValueError as e:
            assert str(e) == "Too many bytes when decoding varint."
        else:
            raise AssertionError(n)
        assert r.pos == 10, r.pos  # the 11th byte is never requested
    # ten continuation bytes and then the end of the stream
for n in range(0, 13):
    r = CountingReader(b"\xff" * n)
    try:
        load_varint(r)
    except EOFError:
        assert n < 10
    except ValueError:
        assert n >= 10 and r.pos == 10
    else:
        raise AssertionError(n)
assert load_varint(BytesIO(b"\x80\x00\x55")) == (0, b"\x80\x00")
assert load_varint(BytesIO(b"\xff\xff\xff\xff\xff\xff\xff\xff\xff\x7f")) == (
    (1 << 70) - 1,
    b"\xff" * 9 + b"\x7f",
)


# ---------------------------------------------------------------- load_fields
def tag(number, wt):
    return ref_varint((number << 3) | wt)


def rand_field():
    number = rnd.choice([1, 2, 15, 16, 17, 2047, 2048, 2**21, 2**29 - 1, rnd.randint(1, 2**29 - 1)])
    wt = rnd.choice([0, 1, 2, 5])
    if wt == 0:
        v = rnd.choice([0, 1, 127, 128, 2**32 - 1, 2**63, 2**64 - 1, rnd.getrandbits(64)])
        raw = tag(number, 0) + ref_varint(v)
        return ParsedField(number, 0, v, raw)
    if wt == 1:
        p = bytes(rnd.randrange(256) for _ in range(8))
        return ParsedField(number, 1, p, tag(number, 1) + p)
    if wt == 5:
        p = bytes(rnd.randrange(256) for _ in range(4))
        return ParsedField(number, 5, p, tag(number, 5) + p)
    ln = rnd.choice([0, 1, 2, 127, 128, 129, 300, rnd.randint(0, 40)])
    p = bytes(rnd.randrange(256) for _ in range(ln))
    return ParsedField(number, 2, p, tag(number, 2) + ref_varint(ln) + p)


def outcome(fn):
    try:
        return ("ok", fn())
    except Exception as e:  # noqa
        return (type(e).__name__, str(e))


for _ in range(400):
    fields = [rand_field() for _ in range(rnd.randint(0, 6))]
    blob = b"".join(f.raw for f in fields)
    assert list(load_fields(BytesIO(blob))) == fields
    assert list(parse_fields(blob)) == fields
    # laziness: after k fields exactly the bytes of those k fields are consumed
    r = CountingReader(blob + b"\x08\x01")
    gen = load_fields(r)
    consumed = 0
    for f in fields:
        assert r.pos == consumed
        assert next(gen) == f
        consumed += len(f.raw)
        assert r.pos == consumed
    gen.close()
    assert r.pos == consumed
    # every truncation: the fields before the cut come out, then either a
    # clean stop (cut on a boundary) or EOFError (cut inside a field)
    bounds = [0]
    for f in fields:
        bounds.append(bounds[-1] + len(f.raw))
    for cut in range(len(blob) + 1):
        got = []
        err = None
        try:
            for f in load_fields(BytesIO(blob[:cut])):
                got.append(f)
        except EOFError as e:
            err = e
        nfull = max(i for i, b in enumerate(bounds) if b <= cut)
        assert got == fields[:nfull], (cut, bounds)
        assert (err is None) == (cut in bounds), (cut, bounds, err)

# malformed tags
for blob, exc, msg in [
    (b"\x00\x00", ValueError, "Invalid field number 0."),
    (b"\x05\x00\x00\x00\x00", ValueError, "Invalid field number 0."),
    (b"\x0b", ValueError, "Unsupported wire type 3 in field 1."),
    (b"\x0c", ValueError, "Unsupported wire type 4 in field 1."),
    (b"\x0e", ValueError, "Unsupported wire type 6 in field 1."),
    (b"\x87\x01", ValueError, "Unsupported wire type 7 in field 16."),
    (b"\x08", EOFError, "Stream ended unexpectedly while attempting to load varint."),
    (b"\x80", EOFError, "Stream ended unexpectedly while attempting to load varint."),
    (b"\x0a", EOFError, "Stream ended unexpectedly while attempting to load varint."),
    (b"\x0a\x03ab", EOFError, "Stream ended unexpectedly: expected 3 bytes but got 2."),
    (b"\x09\x01\x02\x03", EOFError, "Stream ended unexpectedly: expected 8 bytes but got 3."),
    (b"\x0d\x01", EOFError, "Stream ended unexpectedly: expected 4 bytes but got 1."),
    (b"\x0d", EOFError, "Stream ended unexpectedly: expected 4 bytes but got 0."),
]:
    for prefix in (b"", b"\x08\x05", b"\x12\x00"):
        res = outcome(lambda: list(load_fields(BytesIO(prefix + blob))))
        assert res == (exc.__name__, msg), (blob, res)
assert list(load_fields(BytesIO(b""))) == []


# ---------------------------------------------------------------- delimited streams
@dataclass(eq=False, repr=False)
class Sub(betterproto.Message):
    a: int = betterproto.sint64_field(1)
    b: str = betterproto.string_field(20)


@dataclass(eq=False, repr=False)
class Big(betterproto.Message):
    i32: int = betterproto.int32_field(1)
    u64: int = betterproto.uint64_field(2)
    s: str = betterproto.string_field(3)
    raw: bytes = betterproto.bytes_field(4)
    d: float = betterproto.double_field(5)
    f32: int = betterproto.fixed32_field(6)
    sub: Sub = betterproto.message_field(7)
    rep: List[int] = betterproto.int64_field(16)
    names: List[str] = betterproto.string_field(17)
    subs: List[Sub] = betterproto.message_field(18)
    m: Dict[str, int] = betterproto.map_field(19, betterproto.TYPE_STRING, betterproto.TYPE_SINT32)
    opt: Optional[int] = betterproto.uint32_field(300, optional=True, group="_opt")
    x: int = betterproto.sfixed64_field(2000, group="one")
    y: str = betterproto.string_field(2001, group="one")


@dataclass(eq=False, repr=False)
class Old(betterproto.Message):
    """An older version of Big."""

    i32: int = betterproto.int32_field(1)
    s: str = betterproto.string_field(3)
    rep: List[int] = betterproto.int64_field(16)


@dataclass(eq=False, repr=False)
class Nothing(betterproto.Message):
    pass


def rand_sub():
    return Sub(a=rnd.choice([0, -1, 63, -64, 64, -65, 2**62, -(2**63)]), b=rnd.choice(["", "x", "é" * 70]))


def rand_big():
    kw = {}
    if rnd.random() < 0.6:
        kw["i32"] = rnd.choice([0, 1, -1, 127, 128, 2**31 - 1, -(2**31)])
    if rnd.random() < 0.5:
        kw["u64"] = rnd.choice([0, 2**63, 2**64 - 1, 300])
    if rnd.random() < 0.5:
        kw["s"] = rnd.choice(["", "a", "b" * 127, "c" * 128, "d" * 20000])
    if rnd.random() < 0.4:
        kw["raw"] = bytes(rnd.randrange(256) for _ in range(rnd.choice([0, 1, 126, 130])))
    if rnd.random() < 0.3:
        kw["d"] = rnd.choice([0.0, -1.5, 1e300])
    if rnd.random() < 0.3:
        kw["f32"] = rnd.choice([0, 1, 2**32 - 1])
    if rnd.random() < 0.4:
        kw["sub"] = rand_sub()
    if rnd.random() < 0.4:
        kw["rep"] = [rnd.choice([0, -1, 2**40, 127, 128]) for _ in range(rnd.randint(0, 40))]
    if rnd.random() < 0.3:
        kw["names"] = [rnd.choice(["", "n", "nn" * 80]) for _ in range(rnd.randint(0, 4))]
    if rnd.random() < 0.3:
        kw["subs"] = [rnd.choice([Sub(), rand_sub()]) for _ in range(rnd.randint(0, 3))]
    if rnd.random() < 0.3:
        kw["m"] = {rnd.choice(["", "k", "kk"]): rnd.choice([0, -1, 5]) for _ in range(rnd.randint(0, 3))}
    if rnd.random() < 0.3:
        kw["opt"] = rnd.choice([0, 7])
    r = rnd.random()
    if r < 0.2:
        kw["x"] = rnd.choice([0, -5])
    elif r < 0.4:
        kw["y"] = rnd.choice(["", "why"])
    return Big(**kw)


def rand_msg():
    r = rnd.random()
    if r < 0.1:
        return Nothing()
    if r < 0.2:
        return Big()
    if r < 0.3:
        return rand_sub()
    if r < 0.4:
        # what an old reader got from a new writer (unknown fields inside)
        return Old().parse(bytes(rand_big()))
    return rand_big()


def frame(payload: bytes) -> bytes:
    return ref_varint(len(payload)) + payload


for it in range(150):
    msgs = [rand_msg() for _ in range(rnd.randint(0, 6))]
    out = BytesIO()
    for m in msgs:
        assert len(m) == len(bytes(m))
        m.dump(out, SIZE_DELIMITED)
    data = out.getvalue()
    frames = [frame(bytes(m)) for m in msgs]
    assert data == b"".join(frames)

    # full read back, with the same classes
    r = CountingReader(data)
    pos = 0
    for m, fr in zip(msgs, frames):
        got = type(m)().load(r, SIZE_DELIMITED)
        pos += len(fr)
        assert r.pos == pos
        assert got == m and bytes(got) == bytes(m)
    assert outcome(lambda: Nothing().load(r, SIZE_DELIMITED))[0] == "EOFError"

    # read back with the older schema / the empty schema: same frames consumed
    for reader in (Old, Nothing):
        r = CountingReader(data)
        pos = 0
        for m, fr in zip(msgs, frames):
            got = reader().load(r, SIZE_DELIMITED)
            pos += len(fr)
            assert r.pos == pos
            if reader is Nothing:
                # everything is an unknown field and is kept verbatim
                assert bytes(got) == bytes(m)
            elif isinstance(m, (Big, Old)):
                # nothing is lost: known fields first, unknown ones after them
                assert sorted(f.number for f in parse_fields(bytes(got))) == sorted(
                    f.number for f in parse_fields(bytes(m))
                )

    # truncation at (a sample of) cut points: complete frames read back, the
    # cut one raises
    cuts = range(len(data) + 1) if len(data) < 400 else sorted(
        set(rnd.sample(range(len(data) + 1), 150))
        | {0, len(data)}
        | set(__import__("itertools").accumulate(len(f) for f in frames))
    )
    ends = list(__import__("itertools").accumulate(len(f) for f in frames))
    for cut in cuts:
        s = BytesIO(data[:cut])
        for m, end in zip(msgs, ends):
            res = outcome(lambda: type(m)().load(s, SIZE_DELIMITED))
            if end <= cut:
                assert res[0] == "ok" and bytes(res[1]) == bytes(m), (cut, end, res)
                assert s.tell() == end
            else:
                assert res[0] in ("EOFError", "ValueError"), (cut, end, res)
                break

# exact error outcomes of a few hand-made broken frames (messages included)
for blob in [
    b"",
    b"\x80",
    b"\x02\x08",
    b"\x02\x08\x80",
    b"\x03\x08\x01",
    b"\x01\x08\x01",
    b"\x03\x1a\x05abc",
    b"\x05\x1a\x05abc",
    b"\x02\x08\x01\x08\x02",
    b"\x00\x08\x01",
    b"\x04\x08\x01\x08",
    b"\x06\x08\x01\x85\x01\x00\x00",
    b"\x07\x08\x01\x85\x01\x00\x00\x00\x00",
    b"\x08\x08\x01\x85\x01\x00\x00\x00\x00\x08",
    b"\x02\x00\x00",
    b"\x02\x0b\x00",
]:
    for cls in (Big, Old, Nothing):
        s = BytesIO(blob)
        res = outcome(lambda: cls().load(s, SIZE_DELIMITED))
        exp = {
            b"": "EOFError",
            b"\x80": "EOFError",
            b"\x02\x08": "EOFError",
            b"\x02\x08\x80": "EOFError",
            b"\x03\x08\x01": "ValueError",
            b"\x01\x08\x01": "ValueError",
            b"\x03\x1a\x05abc": "EOFError",
            b"\x05\x1a\x05abc": "EOFError",
            b"\x02\x08\x01\x08\x02": "ok",
            b"\x00\x08\x01": "ok",
            b"\x04\x08\x01\x08": "EOFError",
            b"\x06\x08\x01\x85\x01\x00\x00": "EOFError",
            b"\x07\x08\x01\x85\x01\x00\x00\x00\x00": "ValueError",
            b"\x08\x08\x01\x85\x01\x00\x00\x00\x00\x08": "ok",
            b"\x02\x00\x00": "ValueError",
            b"\x02\x0b\x00": "ValueError",
        }[blob]
        assert res[0] == exp, (blob, cls, res)
        if blob == b"\x02\x08\x01\x08\x02":
            assert s.tell() == 3
        if blob == b"\x00\x08\x01":
            assert s.tell() == 1 and bytes(res[1]) == b""

print("C10 keep1 equiv: OK")
