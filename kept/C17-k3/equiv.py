"""Exercises Message._postprocess_single (through Message.parse) for every wire type /
proto type combination: varint interpretation at all boundaries, fixed-width payloads,
strings (valid / invalid UTF-8), nested messages, maps, wrappers, Timestamp / Duration,
packed runs, wire-type mismatches, truncations and random byte strings.  Results are
compared with independently written expectations and with google.protobuf.
"""
import random
import struct
from dataclasses import dataclass
from datetime import datetime, timedelta, timezone
from typing import Dict, List, Optional

import betterproto
from google.protobuf import descriptor_pb2, descriptor_pool, message_factory
from google.protobuf.message import DecodeError


class Color(betterproto.Enum):
    ZERO = 0
    ONE = 1
    NEG = -1
    BIG = 2147483647
    SMALL = -2147483648


@dataclass(eq=False, repr=False)
class Inner(betterproto.Message):
    x: int = betterproto.int32_field(1)
    s: str = betterproto.string_field(2)


@dataclass(eq=False, repr=False)
class Msg(betterproto.Message):
    f_int32: int = betterproto.int32_field(1)
    f_int64: int = betterproto.int64_field(2)
    f_uint32: int = betterproto.uint32_field(3)
    f_uint64: int = betterproto.uint64_field(4)
    f_sint32: int = betterproto.sint32_field(5)
    f_sint64: int = betterproto.sint64_field(6)
    f_bool: bool = betterproto.bool_field(7)
    f_enum: Color = betterproto.enum_field(8)
    f_fixed32: int = betterproto.fixed32_field(9)
    f_sfixed32: int = betterproto.sfixed32_field(10)
    f_float: float = betterproto.float_field(11)
    f_fixed64: int = betterproto.fixed64_field(12)
    f_sfixed64: int = betterproto.sfixed64_field(13)
    f_double: float = betterproto.double_field(14)
    f_string: str = betterproto.string_field(15)
    f_bytes: bytes = betterproto.bytes_field(16)
    f_msg: Inner = betterproto.message_field(17)
    f_map: Dict[int, str] = betterproto.map_field(
        18, betterproto.TYPE_INT32, betterproto.TYPE_STRING
    )
    f_wrap: Optional[int] = betterproto.message_field(
        19, wraps=betterproto.TYPE_INT64
    )
    f_ts: datetime = betterproto.message_field(20)
    f_dur: timedelta = betterproto.message_field(21)
    r_int32: List[int] = betterproto.int32_field(31)
    r_int64: List[int] = betterproto.int64_field(32)
    r_uint32: List[int] = betterproto.uint32_field(33)
    r_uint64: List[int] = betterproto.uint64_field(34)
    r_sint32: List[int] = betterproto.sint32_field(35)
    r_sint64: List[int] = betterproto.sint64_field(36)
    r_bool: List[bool] = betterproto.bool_field(37)
    r_enum: List[Color] = betterproto.enum_field(38)
    r_fixed32: List[int] = betterproto.fixed32_field(39)
    r_sfixed32: List[int] = betterproto.sfixed32_field(40)
    r_float: List[float] = betterproto.float_field(41)
    r_fixed64: List[int] = betterproto.fixed64_field(42)
    r_sfixed64: List[int] = betterproto.sfixed64_field(43)
    r_double: List[float] = betterproto.double_field(44)
    r_string: List[str] = betterproto.string_field(45)
    r_msg: List[Inner] = betterproto.message_field(47)


# ---------------------------------------------------------------- google twin
FD = descriptor_pb2.FieldDescriptorProto
GTYPES = {
    "int32": FD.TYPE_INT32, "int64": FD.TYPE_INT64, "uint32": FD.TYPE_UINT32,
    "uint64": FD.TYPE_UINT64, "sint32": FD.TYPE_SINT32, "sint64": FD.TYPE_SINT64,
    "bool": FD.TYPE_BOOL, "enum": FD.TYPE_ENUM, "fixed32": FD.TYPE_FIXED32,
    "sfixed32": FD.TYPE_SFIXED32, "float": FD.TYPE_FLOAT, "fixed64": FD.TYPE_FIXED64,
    "sfixed64": FD.TYPE_SFIXED64, "double": FD.TYPE_DOUBLE, "string": FD.TYPE_STRING,
    "bytes": FD.TYPE_BYTES,
}
SCALARS = list(GTYPES)


def build_google():
    fdp = descriptor_pb2.FileDescriptorProto(
        name="c17_keep1.proto", package="c17k1", syntax="proto3"
    )
    en = fdp.enum_type.add(name="Color")
    for n, v in [("ZERO", 0), ("ONE", 1), ("NEG", -1), ("BIG", 2147483647),
                 ("SMALL", -2147483648)]:
        en.value.add(name=n, number=v)
    inner = fdp.message_type.add(name="Inner")
    inner.field.add(name="x", number=1, type=FD.TYPE_INT32, label=FD.LABEL_OPTIONAL)
    inner.field.add(name="s", number=2, type=FD.TYPE_STRING, label=FD.LABEL_OPTIONAL)
    m = fdp.message_type.add(name="Msg")
    for i, t in enumerate(SCALARS, start=1):
        f = m.field.add(name="f_" + t, number=i, type=GTYPES[t], label=FD.LABEL_OPTIONAL)
        if t == "enum":
            f.type_name = ".c17k1.Color"
    m.field.add(name="f_msg", number=17, type=FD.TYPE_MESSAGE,
                type_name=".c17k1.Inner", label=FD.LABEL_OPTIONAL)
    entry = m.nested_type.add(name="FMapEntry")
    entry.options.map_entry = True
    entry.field.add(name="key", number=1, type=FD.TYPE_INT32, label=FD.LABEL_OPTIONAL)
    entry.field.add(name="value", number=2, type=FD.TYPE_STRING, label=FD.LABEL_OPTIONAL)
    m.field.add(name="f_map", number=18, type=FD.TYPE_MESSAGE,
                type_name=".c17k1.Msg.FMapEntry", label=FD.LABEL_REPEATED)
    for i, t in enumerate(SCALARS[:15], start=31):
        f = m.field.add(name="r_" + t, number=i, type=GTYPES[t], label=FD.LABEL_REPEATED)
        if t == "enum":
            f.type_name = ".c17k1.Color"
    m.field.add(name="r_msg", number=47, type=FD.TYPE_MESSAGE,
                type_name=".c17k1.Inner", label=FD.LABEL_REPEATED)
    pool = descriptor_pool.DescriptorPool()
    pool.Add(fdp)
    return message_factory.GetMessageClass(pool.FindMessageTypeByName("c17k1.Msg"))


GMsg = build_google()


# ---------------------------------------------------------------- wire helpers
def varint(n: int) -> bytes:
    assert n >= 0
    out = bytearray()
    while True:
        b = n & 0x7F
        n >>= 7
        if n:
            out.append(b | 0x80)
        else:
            out.append(b)
            return bytes(out)


def tag(number: int, wt: int) -> bytes:
    return varint((number << 3) | wt)


def ld(number: int, payload: bytes) -> bytes:
    return tag(number, 2) + varint(len(payload)) + payload


def bp_parse(data: bytes):
    try:
        return Msg().parse(data)
    except Exception as e:  # noqa
        return e


def g_parse(data: bytes):
    g = GMsg()
    try:
        g.ParseFromString(data)
        return g
    except DecodeError as e:
        return e


def same_float(a: float, b: float) -> bool:
    return a == b or (a != a and b != b)


# ---------------------------------------------------------------- 1. varints
def expect_varint(kind: str, raw: int):
    """Independent model of how an unsigned varint number becomes a field value."""
    if kind in ("int32", "enum"):
        raw &= 0xFFFFFFFF
        return raw - (1 << 32) if raw >= (1 << 31) else raw
    if kind == "int64":
        raw &= 0xFFFFFFFFFFFFFFFF
        return raw - (1 << 64) if raw >= (1 << 63) else raw
    if kind in ("sint32", "sint64"):
        return -((raw + 1) // 2) if raw % 2 else raw // 2
    if kind == "bool":
        return raw != 0
    return raw


BOUNDS = set()
for p in (0, 1, 6, 7, 8, 14, 15, 16, 30, 31, 32, 33, 62, 63, 64):
    for d in (-2, -1, 0, 1, 2):
        v = (1 << p) + d
        if 0 <= v < (1 << 64):
            BOUNDS.add(v)
BOUNDS |= {0, 1, 2, 127, 128, 300, (1 << 64) - 1, (1 << 63), (1 << 63) - 1,
           0xFFFFFFFF80000000, 0xFFFFFFFF7FFFFFFF, 0xFFFFFFFFFFFFFFFE}
rnd = random.Random(1717)
for _ in range(300):
    BOUNDS.add(rnd.getrandbits(rnd.choice([7, 14, 31, 32, 33, 63, 64])))
BOUNDS = sorted(BOUNDS)
# 10-byte varints whose last byte carries more than one bit (value >= 2**64)
OVERFLOW = [(1 << 64) + 5, (1 << 69) | 1, (1 << 70) - 1, (0x7F << 63) | (1 << 31)]

VARINT_KINDS = SCALARS[:8]
checked = 0
for idx, kind in enumerate(VARINT_KINDS, start=1):
    for raw in BOUNDS + OVERFLOW:
        data = tag(idx, 0) + varint(raw)
        m = bp_parse(data)
        assert isinstance(m, Msg), (kind, raw, m)
        got = getattr(m, "f_" + kind)
        exp = expect_varint(kind, raw)
        if kind == "bool":
            assert got is exp, (kind, raw, got)
        elif kind == "enum":
            assert isinstance(got, Color) and int(got) == exp, (kind, raw, got)
            if exp in (0, 1, -1, 2147483647, -2147483648):
                assert got is Color(exp) and got.name is not None
            else:
                assert got.name is None
        else:
            assert type(got) is int and got == exp, (kind, raw, got, exp)
        # can be encoded again and is stable
        again = Msg().parse(bytes(m))
        assert getattr(again, "f_" + kind) == got
        if raw < (1 << 64):
            g = g_parse(data)
            assert not isinstance(g, Exception)
            # google truncates 32-bit kinds to 32 bits; betterproto only does so
            # for int32 / enum -> compare where both are defined alike
            if kind in ("uint32", "sint32") and raw >= (1 << 32):
                pass
            else:
                assert getattr(g, "f_" + kind) == (int(got) if kind != "bool" else got), (kind, raw)
        # the same number inside a packed run and as an unpacked repeated element
        for data2 in (ld(30 + idx, varint(1) + varint(raw) + varint(0)),
                      tag(30 + idx, 0) + varint(1) + tag(30 + idx, 0) + varint(raw)
                      + tag(30 + idx, 0) + varint(0)):
            m2 = bp_parse(data2)
            assert isinstance(m2, Msg)
            lst = getattr(m2, "r_" + kind)
            assert len(lst) == 3
            assert lst[1] == got and type(lst[1]) is type(got), (kind, raw, lst)
            assert lst[0] == expect_varint(kind, 1) and lst[2] == expect_varint(kind, 0)
        checked += 1
assert checked == len(VARINT_KINDS) * (len(BOUNDS) + len(OVERFLOW))

# ---------------------------------------------------------------- 2. fixed width
F32 = [b"\x00\x00\x00\x00", b"\x01\x00\x00\x00", b"\xff\xff\xff\x7f", b"\x00\x00\x00\x80",
       b"\xff\xff\xff\xff", b"\x00\x00\x80\x7f", b"\x00\x00\x80\xff", b"\x00\x00\xc0\x7f",
       b"\x00\x00\x80\x3f", b"\x01\x00\x00\x80"] + [rnd.randbytes(4) for _ in range(60)]
F64 = [b"\x00" * 8, b"\x01" + b"\x00" * 7, b"\xff" * 7 + b"\x7f", b"\x00" * 7 + b"\x80",
       b"\xff" * 8, b"\x00" * 6 + b"\xf0\x7f", b"\x00" * 6 + b"\xf0\xff",
       b"\x00" * 6 + b"\xf8\x7f", b"\x00" * 6 + b"\xf0\x3f"] + [rnd.randbytes(8) for _ in range(60)]
FIXED = [("fixed32", 9, 5, "<I", F32), ("sfixed32", 10, 5, "<i", F32), ("float", 11, 5, "<f", F32),
         ("fixed64", 12, 1, "<Q", F64), ("sfixed64", 13, 1, "<q", F64), ("double", 14, 1, "<d", F64)]
for kind, num, wt, fmt, payloads in FIXED:
    for p in payloads:
        exp = struct.unpack(fmt, p)[0]
        m = bp_parse(tag(num, wt) + p)
        assert isinstance(m, Msg)
        got = getattr(m, "f_" + kind)
        assert type(got) is type(exp) and same_float(got, exp), (kind, p, got)
        g = g_parse(tag(num, wt) + p)
        assert same_float(getattr(g, "f_" + kind), exp)
        m2 = bp_parse(ld(num + 30, p + p) + tag(num + 30, wt) + p)
        lst = getattr(m2, "r_" + kind)
        assert len(lst) == 3 and all(same_float(v, exp) for v in lst)
        Msg().parse(bytes(m2))
    # packed run whose length is no multiple of the width is rejected (both decoders)
    width = len(payloads[0])
    for extra in range(1, width):
        bad = ld(num + 30, payloads[1] + b"\x01" * extra)
        assert isinstance(bp_parse(bad), Exception), (kind, extra)
        assert isinstance(g_parse(bad), Exception)

# ---------------------------------------------------------------- 3. length delimited
for text in ["", "a", "héllo", "€", "\U0001f600", "x" * 200, "\x00"]:
    enc = text.encode("utf-8")
    m = bp_parse(ld(15, enc) + ld(45, enc) + ld(45, b"z"))
    assert m.f_string == text and type(m.f_string) is str and m.r_string == [text, "z"]
    g = g_parse(ld(15, enc))
    assert g.f_string == text
for bad in [b"\xff", b"\xc3", b"\xe2\x82", b"\xed\xa0\x80", b"a\x80b", b"\xf8\x88\x80\x80\x80"]:
    for num in (15, 45):
        r = bp_parse(ld(num, bad))
        assert isinstance(r, UnicodeDecodeError), (bad, r)
        assert isinstance(g_parse(ld(num, bad)), Exception)
    # ... but fine as bytes, and invalid inside a nested message / map value is rejected
    m = bp_parse(ld(16, bad))
    assert m.f_bytes == bad and type(m.f_bytes) is bytes
    assert isinstance(bp_parse(ld(17, ld(2, bad))), UnicodeDecodeError)
    assert isinstance(bp_parse(ld(18, tag(1, 0) + b"\x01" + ld(2, bad))), UnicodeDecodeError)

# nested messages
m = bp_parse(ld(17, b""))
assert isinstance(m.f_msg, Inner) and m.f_msg.x == 0 and betterproto.serialized_on_wire(m.f_msg)
assert bytes(m) == ld(17, b"")
m = bp_parse(ld(17, tag(1, 0) + varint((1 << 64) - 1) + ld(2, b"hi")))
assert m.f_msg.x == -1 and m.f_msg.s == "hi" and betterproto.serialized_on_wire(m.f_msg)
m = bp_parse(ld(47, tag(1, 0) + b"\x05") + ld(47, b"") + ld(47, ld(2, b"q")))
assert [(i.x, i.s) for i in m.r_msg] == [(5, ""), (0, ""), (0, "q")]
assert all(type(i) is Inner and betterproto.serialized_on_wire(i) for i in m.r_msg)
g = g_parse(bytes(m))
assert [(i.x, i.s) for i in g.r_msg] == [(5, ""), (0, ""), (0, "q")]
# malformed inner payloads are rejected, not decoded into a partial message
for inner in [b"\x08", b"\x08\x80", b"\x12\x05ab", b"\x00\x00", b"\x0b", b"\x0f\x00", b"\x0d\x01\x02"]:
    for num in (17, 47):
        assert isinstance(bp_parse(ld(num, inner)), Exception), inner
        assert isinstance(g_parse(ld(num, inner)), Exception), inner

# maps
m = bp_parse(ld(18, tag(1, 0) + b"\x01" + ld(2, b"one")) + ld(18, ld(2, b"zero"))
             + ld(18, tag(1, 0) + varint((1 << 64) - 2)) + ld(18, tag(1, 0) + b"\x01" + ld(2, b"uno")))
assert m.f_map == {1: "uno", 0: "zero", -2: ""}, m.f_map
assert all(type(k) is int and type(v) is str for k, v in m.f_map.items())
g = g_parse(bytes(m))
assert dict(g.f_map) == m.f_map
assert isinstance(bp_parse(ld(18, tag(1, 0))), Exception)

# wrappers, Timestamp, Duration
for raw in (0, 1, (1 << 63) - 1, 1 << 63, (1 << 64) - 1):
    m = bp_parse(ld(19, tag(1, 0) + varint(raw)))
    assert m.f_wrap == expect_varint("int64", raw) and type(m.f_wrap) is int
    assert Msg().parse(bytes(m)).f_wrap == m.f_wrap
m = bp_parse(ld(19, b""))
assert m.f_wrap == 0 and type(m.f_wrap) is int
assert isinstance(bp_parse(ld(19, b"\x08")), Exception)
m = bp_parse(ld(20, tag(1, 0) + varint(1700000000) + tag(2, 0) + varint(123456000)))
assert m.f_ts == datetime(2023, 11, 14, 22, 13, 20, 123456, tzinfo=timezone.utc)
m = bp_parse(ld(20, b""))
assert m.f_ts == datetime(1970, 1, 1, tzinfo=timezone.utc)
m = bp_parse(ld(21, tag(1, 0) + varint(90) + tag(2, 0) + varint(500000000)))
assert m.f_dur == timedelta(seconds=90.5) and type(m.f_dur) is timedelta
m = bp_parse(ld(21, tag(1, 0) + varint((1 << 64) - 3)))
assert m.f_dur == timedelta(seconds=-3)
for num in (20, 21):
    assert isinstance(bp_parse(ld(num, b"\x08")), Exception)
    assert isinstance(bp_parse(ld(num, b"\x10\x80")), Exception)

# ---------------------------------------------------------------- 4. wire-type substitution
ALL_FIELDS = {f.name: f for f in __import__("dataclasses").fields(Msg)}
PAYLOAD = {0: varint(300), 1: b"\x01\x02\x03\x04\x05\x06\x07\x08", 2: varint(3) + b"\x08\x01\x02"[:3],
           5: b"\x01\x02\x03\x04"}
baseline = Msg(f_int32=-5, f_int64=6, f_uint32=7, f_uint64=8, f_sint32=-9, f_sint64=10, f_bool=True,
               f_enum=Color.ONE, f_fixed32=11, f_sfixed32=-12, f_float=1.5, f_fixed64=13,
               f_sfixed64=-14, f_double=2.5, f_string="s", f_bytes=b"b", f_msg=Inner(x=1),
               f_map={1: "a"}, f_wrap=3, r_int32=[1, -1], r_bool=[True], r_double=[0.5],
               r_string=["t"], r_msg=[Inner(s="u")])
base_bytes = bytes(baseline)
base_dict = Msg().parse(base_bytes).to_dict()
accept = {}
for name, f in ALL_FIELDS.items():
    meta = betterproto.FieldMetadata.get(f)
    for wt, payload in PAYLOAD.items():
        occurrence = tag(meta.number, wt) + payload
        r = bp_parse(base_bytes + occurrence)
        repeated = name.startswith("r_")
        fits = betterproto._wire_type_matches(wt, meta.proto_type, repeated)
        if not fits:
            assert isinstance(r, Msg), (name, wt, r)
            assert r.to_dict() == base_dict, (name, wt)
            assert occurrence in r._unknown_fields
            assert Msg().parse(bytes(r)).to_dict() == base_dict
        accept[(name, wt)] = isinstance(r, Msg)
        if isinstance(r, Msg):
            Msg().parse(bytes(r))
assert sum(accept.values()) > 100

# ---------------------------------------------------------------- 5. truncation and noise
full = bytes(Msg(f_int32=-1, f_sint64=-77, f_enum=Color.NEG, f_fixed32=1, f_double=1.0, f_string="héé",
                 f_msg=Inner(x=300, s="abc"), f_map={5: "five"}, f_wrap=-1,
                 f_ts=datetime(2001, 2, 3, 4, 5, 6, 7, tzinfo=timezone.utc), f_dur=timedelta(seconds=-1.5),
                 r_sint32=[-1, 1, -2], r_enum=[Color.BIG, Color.SMALL], r_float=[1.0, 2.0],
                 r_msg=[Inner(x=-1), Inner(s="z")]))
whole = Msg().parse(full)
assert bytes(whole) == full
gfull = g_parse(full)
assert list(gfull.r_enum) == [2147483647, -2147483648] and list(gfull.r_sint32) == [-1, 1, -2]
assert gfull.f_enum == -1 and gfull.f_sint64 == -77 and gfull.f_int32 == -1
# field boundaries of the top-level message
bounds, pos = {0}, 0
for pf in betterproto.parse_fields(full):
    pos += len(pf.raw)
    bounds.add(pos)
for cut in range(len(full)):
    r = bp_parse(full[:cut])
    g = g_parse(full[:cut])
    if cut in bounds:
        assert isinstance(r, Msg) and bytes(r) == full[:cut]
        assert not isinstance(g, Exception)
    else:
        assert isinstance(r, Exception), cut
        assert isinstance(g, Exception), cut


def check_types(m: Msg):
    for name, f in ALL_FIELDS.items():
        v = getattr(m, name)
        if name.startswith("r_"):
            assert type(v) is list
    for name in ("f_int32", "f_int64", "f_uint32", "f_uint64", "f_sint32", "f_sint64",
                 "f_fixed32", "f_sfixed32", "f_fixed64", "f_sfixed64"):
        assert type(getattr(m, name)) is int
    assert type(m.f_bool) is bool and isinstance(m.f_enum, Color)
    assert type(m.f_float) is float and type(m.f_double) is float
    assert type(m.f_string) is str and type(m.f_bytes) is bytes
    assert all(type(v) is int for v in m.r_int32 + m.r_sint64 + m.r_fixed32 + m.r_sfixed64)
    assert all(type(v) is bool for v in m.r_bool) and all(isinstance(v, Color) for v in m.r_enum)
    assert all(type(v) is float for v in m.r_float + m.r_double)
    assert all(type(v) is str for v in m.r_string) and all(type(v) is Inner for v in m.r_msg)


outcomes = []
for i in range(6000):
    if i % 3 == 0:
        data = rnd.randbytes(rnd.randint(0, 12))
    elif i % 3 == 1:
        b = bytearray(full)
        for _ in range(rnd.randint(1, 2)):
            b[rnd.randrange(len(b))] = rnd.randrange(256)
        data = bytes(b)
    else:
        # a random sequence of well-formed occurrences of known numbers
        data = b""
        for _ in range(rnd.randint(1, 4)):
            num = rnd.choice(list(range(1, 22)) + list(range(31, 46)) + [47])
            wt = rnd.choice([0, 1, 2, 5])
            pl = {0: varint(rnd.getrandbits(rnd.choice([1, 8, 32, 64]))), 1: rnd.randbytes(8),
                  5: rnd.randbytes(4)}.get(wt)
            if pl is None:
                body = rnd.choice([b"", rnd.randbytes(rnd.randint(1, 9)), varint(rnd.getrandbits(40)),
                                   tag(1, 0) + varint(rnd.getrandbits(64))])
                pl = varint(len(body)) + body
            data += tag(num, wt) + pl
    r = bp_parse(data)
    if isinstance(r, Msg):
        check_types(r)
        out = bytes(r)
        assert Msg().parse(out).to_dict() == r.to_dict()
        outcomes.append((data, "ok", r.to_json()))
    else:
        outcomes.append((data, type(r).__name__, None))
import hashlib

digest = hashlib.sha256(repr(outcomes).encode()).hexdigest()
n_ok = sum(1 for o in outcomes if o[1] == "ok")
assert 500 < n_ok < 5500, n_ok
print("accepted", n_ok, "of", len(outcomes), "digest", digest)
# behaviour fingerprint recorded on the reference tree
EXPECTED_DIGEST = "20f1536d28488e738ad670e96ede695afdd9168b45c10251fab7c130349593c4"
assert EXPECTED_DIGEST.startswith("@@") or digest == EXPECTED_DIGEST, digest
print("ok")
