"""C16 keep2: the size side of the scalar codecs.

_len_preprocessed_single / _len_single / Message.__len__ must report exactly the
length of what _preprocess_single / _serialize_single / bytes() produce, for every
scalar kind (zig-zag, fixed width, float/double, bool, string, bytes), for wrapped,
Timestamp/Duration and nested message values, and must fail in the same way for
values that cannot be encoded.  Sizes and bytes are also compared with an independent
model and with google.protobuf.
"""
import io
import itertools
import random
import struct
from dataclasses import dataclass, field
from datetime import datetime, timedelta, timezone
from typing import Dict, List, Optional

import betterproto
from betterproto import (
    _len_preprocessed_single,
    _len_single,
    _preprocess_single,
    _serialize_single,
    decode_varint,
    encode_varint,
    size_varint,
)

rng = random.Random(1602)
RANGE_MSG = (
    "Negative value is not representable as a 64-bit integer - "
    "unable to encode a varint within 10 bytes."
)


# ----------------------------------------------------------------- independent model
def m_varint(v):
    assert -(2**63) <= v
    if v < 0:
        v += 2**64
    out = bytearray()
    while True:
        if v < 0x80:
            out.append(v)
            return bytes(out)
        out.append(0x80 | (v & 0x7F))
        v >>= 7


def m_zigzag(v):
    return 2 * v if v >= 0 else -2 * v - 1


M_FMT = {
    "double": "<d", "float": "<f", "fixed32": "<I", "fixed64": "<Q",
    "sfixed32": "<i", "sfixed64": "<q",
}
VARINT_KINDS = ("enum", "bool", "int32", "int64", "uint32", "uint64")
ZIGZAG_KINDS = ("sint32", "sint64")


def m_payload(kind, v):
    if kind in VARINT_KINDS:
        return m_varint(v)
    if kind in ZIGZAG_KINDS:
        return m_varint(m_zigzag(v))
    if kind in M_FMT:
        return struct.pack(M_FMT[kind], v)
    if kind == "string":
        return v.encode("utf-8")
    assert kind == "bytes"
    return v


def f32(x):
    return struct.unpack("<f", struct.pack("<f", x))[0]


def boundary_ints(lo, hi):
    """Values around every 7-bit boundary, clipped to [lo, hi)."""
    vals = {0, 1, -1, lo, lo + 1, hi - 1, hi - 2}
    for k in range(1, 65):
        for d in (-2, -1, 0, 1):
            vals.add((1 << k) + d)
            vals.add(-(1 << k) + d)
    for _ in range(400):
        vals.add(rng.randrange(lo, hi))
        vals.add(rng.getrandbits(rng.randrange(1, 64)) * rng.choice((1, -1)))
    return sorted(v for v in vals if lo <= v < hi)


S32 = boundary_ints(-(2**31), 2**31)
S64 = boundary_ints(-(2**63), 2**63)
U32 = boundary_ints(0, 2**32)
U64 = boundary_ints(0, 2**64)
DOUBLES = [0.0, -0.0, 1.0, -1.5, 0.1, 1e308, -1e308, 5e-324, 2.0**-1022,
           float("inf"), -float("inf"), float("nan")]
DOUBLES += [struct.unpack("<d", struct.pack("<Q", rng.getrandbits(64)))[0] for _ in range(300)]
FLOATS = [0.0, -0.0, 1.0, -1.5, f32(0.1), f32(3.4e38), f32(1e-45), 0.1, 1e-50, 16777217.0,
          float("inf"), -float("inf"), float("nan")]
FLOATS += [struct.unpack("<f", struct.pack("<I", rng.getrandbits(32)))[0] for _ in range(300)]
STRINGS = ["", "a", "é", "中文", "\U0001f600", "x" * 127, "x" * 128, "é" * 64, "y" * 16384]
BYTESES = [b"", b"\x00", b"\xff" * 127, b"\x80" * 128, bytes(range(256)) * 65, bytearray(b"abc")]

SAMPLES = {
    "enum": S32, "bool": [False, True], "int32": S32, "int64": S64,
    "uint32": U32, "uint64": U64, "sint32": S32, "sint64": S64,
    "fixed32": U32, "fixed64": U64, "sfixed32": S32, "sfixed64": S64,
    "double": DOUBLES, "float": FLOATS, "string": STRINGS, "bytes": BYTESES,
}
WIRE = {k: 0 for k in VARINT_KINDS + ZIGZAG_KINDS}
WIRE.update({"fixed32": 5, "sfixed32": 5, "float": 5, "fixed64": 1, "sfixed64": 1,
             "double": 1, "string": 2, "bytes": 2})

# ----------------------------------------- 1. payload bytes and their size, per kind
n = 0
for kind, values in SAMPLES.items():
    for v in values:
        want = m_payload(kind, v)
        got = _preprocess_single(kind, "", v)
        assert got == want, (kind, v, got, want)
        size = _len_preprocessed_single(kind, "", v)
        assert type(size) is int and size == len(want), (kind, v, size, len(want))
        if WIRE[kind] == 0:
            assert type(got) is bytes
            assert size == size_varint(decode_varint(got, 0)[0]) or v < 0
            assert decode_varint(got, 0)[1] == size
        # framed: key + [length] + payload
        for number in (1, 15, 16, 2047, 2048, 2**29 - 1):
            for empty in (False, True):
                key = m_varint((number << 3) | WIRE[kind])
                if WIRE[kind] == 2:
                    framed = key + m_varint(len(want)) + bytes(want) if (want or empty) else b""
                else:
                    framed = key + want
                assert _serialize_single(number, kind, v, serialize_empty=empty) == framed
                assert _len_single(number, kind, v, serialize_empty=empty) == len(framed)
        n += 1
assert n > 5000

# exhaustive small range for the varint kinds (size == encoded length, zig-zag mapping)
for v in range(-70000, 70000):
    z = m_zigzag(v)
    assert _preprocess_single("sint32", "", v) == _preprocess_single("sint64", "", v) == m_varint(z)
    assert _len_preprocessed_single("sint64", "", v) == len(m_varint(z)) == size_varint(z)
    assert _len_preprocessed_single("int64", "", v) == len(m_varint(v)) == len(encode_varint(v))
    assert _len_preprocessed_single("sint32", "", v) == _len_preprocessed_single("sint64", "", v)


# ------------------------------------------------------ 2. values that cannot be encoded
def outcome(fn, *args, **kw):
    try:
        return ("ok", fn(*args, **kw))
    except Exception as exc:  # noqa: BLE001
        return (type(exc), str(exc))


# varints below -2**63 are rejected by both the encoder and the size function
for kind in VARINT_KINDS:
    for v in (-(2**63) - 1, -(2**64), -(2**64) + 1, -(2**100)):
        assert outcome(_preprocess_single, kind, "", v) == (ValueError, RANGE_MSG)
        assert outcome(_len_preprocessed_single, kind, "", v) == (ValueError, RANGE_MSG)
        assert outcome(_len_single, 1, kind, v) == (ValueError, RANGE_MSG)
    assert _len_preprocessed_single(kind, "", -(2**63)) == 10
# zig-zag never yields a negative number, so nothing is rejected there
for v in (-(2**63) - 1, -(2**64), 2**64, 2**70):
    for kind in ZIGZAG_KINDS:
        assert _len_preprocessed_single(kind, "", v) == len(_preprocess_single(kind, "", v))
        assert _preprocess_single(kind, "", v) == m_varint(m_zigzag(v))
# out-of-range fixed width values: the size function fails exactly like the encoder
for kind, bad in (
    ("fixed32", [-1, 2**32, 2**40]), ("fixed64", [-1, 2**64]),
    ("sfixed32", [2**31, -(2**31) - 1]), ("sfixed64", [2**63, -(2**63) - 1]),
    ("float", [1e39, -1e300, "1.0", None]), ("double", ["1.0", None]),
    ("fixed32", [1.5, "1", None]),
):
    for v in bad:
        a = outcome(_preprocess_single, kind, "", v)
        b = outcome(_len_preprocessed_single, kind, "", v)
        assert a[0] in (struct.error, OverflowError), (kind, v, a)
        assert a == b, (kind, v, a, b)
        assert outcome(_len_single, 3, kind, v) == a
# wrong python types for the other kinds
for kind, v in (("string", b"raw"), ("string", 5), ("string", None), ("int32", "5"),
                ("int32", None), ("sint32", "5"), ("sint64", None), ("bytes", None), ("bytes", 5),
                ("string", "\ud800")):
    a = outcome(_preprocess_single, kind, "", v)
    b = outcome(_len_preprocessed_single, kind, "", v)
    if kind == "bytes":
        # bytes are passed through untouched by the encoder; measuring them needs len()
        assert b[0] is TypeError, (kind, v, b)
    elif kind in ("int32",):
        assert a[0] is TypeError and b[0] is TypeError, (kind, v, a, b)
    else:
        assert a[0] != "ok" and a[0] is b[0], (kind, v, a, b)
# a type name that no branch knows is passed through / measured with len()
assert _preprocess_single("group", "", b"xyz") == b"xyz"
assert _len_preprocessed_single("group", "", b"xyz") == 3
assert outcome(_len_single, 1, "group", b"xyz") == (NotImplementedError, "group")
assert outcome(_serialize_single, 1, "group", b"xyz") == (NotImplementedError, "group")
# map entries arrive as already serialized key/value bytes
entry = _serialize_single(1, "string", "k") + _serialize_single(2, "sint64", -5)
assert _preprocess_single("map", "", entry) == entry
assert _len_preprocessed_single("map", "", entry) == len(entry)
assert _len_single(7, "map", entry, serialize_empty=True) == len(
    _serialize_single(7, "map", entry, serialize_empty=True)
)
assert _len_single(7, "map", b"", serialize_empty=True) == 2


# ------------------------------------- 3. message typed values (wrappers, time, nested)
@dataclass(eq=False, repr=False)
class Inner(betterproto.Message):
    a: int = betterproto.sint64_field(1)
    b: float = betterproto.float_field(2)
    c: str = betterproto.string_field(3)


WRAPS = {
    betterproto.TYPE_DOUBLE: [0.0, -0.0, 1.5, float("inf")],
    betterproto.TYPE_FLOAT: [0.0, 1.5],
    betterproto.TYPE_INT32: [0, -1, 2**31 - 1],
    betterproto.TYPE_INT64: [0, -(2**63), 2**63 - 1],
    betterproto.TYPE_UINT32: [0, 2**32 - 1],
    betterproto.TYPE_UINT64: [0, 2**64 - 1],
    betterproto.TYPE_BOOL: [False, True],
    betterproto.TYPE_STRING: ["", "é" * 100],
    betterproto.TYPE_BYTES: [b"", b"\x00" * 200],
}
for wraps, values in WRAPS.items():
    assert _preprocess_single("message", wraps, None) == b""
    assert _len_preprocessed_single("message", wraps, None) == 0
    # a wrapper field is framed even when it is empty
    assert _serialize_single(4, "message", None, wraps=wraps) == b"\x22\x00"
    assert _len_single(4, "message", None, wraps=wraps) == 2
    for v in values:
        body = _preprocess_single("message", wraps, v)
        inner_kind = wraps
        default = v == type(v)() and not (isinstance(v, float) and str(v) == "-0.0")
        if default or (isinstance(v, float) and v == 0):
            want = b""
        else:
            key = m_varint((1 << 3) | WIRE[inner_kind])
            pay = m_payload(inner_kind, v)
            want = key + (m_varint(len(pay)) if WIRE[inner_kind] == 2 else b"") + pay
        assert body == want, (wraps, v, body, want)
        assert _len_preprocessed_single("message", wraps, v) == len(want)
        assert _len_single(4, "message", v, wraps=wraps) == len(
            _serialize_single(4, "message", v, wraps=wraps)
        ) == 1 + len(m_varint(len(want))) + len(want)

for v in (
    datetime(1970, 1, 1, tzinfo=timezone.utc),
    datetime(2024, 2, 29, 12, 30, 15, 123456, tzinfo=timezone.utc),
    datetime(1901, 1, 1, 0, 0, 0, 1, tzinfo=timezone.utc),
    datetime(9999, 12, 31, 23, 59, 59, 999999, tzinfo=timezone.utc),
    timedelta(0), timedelta(seconds=1, microseconds=5), timedelta(days=-3, microseconds=7),
    timedelta(days=100000),
    Inner(), Inner(a=-1), Inner(a=2**40, b=1.5, c="é"), Inner(c="z" * 300),
):
    body = _preprocess_single("message", "", v)
    assert type(body) is bytes
    assert _len_preprocessed_single("message", "", v) == len(body)
    for empty in (False, True):
        framed = _serialize_single(9, "message", v, serialize_empty=empty)
        assert _len_single(9, "message", v, serialize_empty=empty) == len(framed)
        if body or empty:
            assert framed == b"\x4a" + m_varint(len(body)) + body
        else:
            assert framed == b""
for bad in (5, "text", None):
    a = outcome(_preprocess_single, "message", "", bad)
    b = outcome(_len_preprocessed_single, "message", "", bad)
    if bad == 5:
        # bytes(5) is five zero bytes: garbage in, (consistent) garbage out
        assert a == ("ok", bytes(5)) and b == ("ok", 5), (bad, a, b)
    else:
        assert a[0] is TypeError and a == b, (bad, a, b)

# ------------------------------------------- 4. whole messages, against google.protobuf
from google.protobuf import descriptor_pb2, descriptor_pool, message_factory

F = descriptor_pb2.FieldDescriptorProto
KINDS = [
    ("double", F.TYPE_DOUBLE), ("float", F.TYPE_FLOAT), ("int32", F.TYPE_INT32),
    ("int64", F.TYPE_INT64), ("uint32", F.TYPE_UINT32), ("uint64", F.TYPE_UINT64),
    ("sint32", F.TYPE_SINT32), ("sint64", F.TYPE_SINT64), ("fixed32", F.TYPE_FIXED32),
    ("fixed64", F.TYPE_FIXED64), ("sfixed32", F.TYPE_SFIXED32), ("sfixed64", F.TYPE_SFIXED64),
    ("bool", F.TYPE_BOOL), ("string", F.TYPE_STRING), ("bytes", F.TYPE_BYTES),
]
fdp = descriptor_pb2.FileDescriptorProto(name="c16_keep2.proto", package="c16k2", syntax="proto3")
mdp = fdp.message_type.add(name="Scalars")
for idx, (name, typ) in enumerate(KINDS, 1):
    mdp.field.add(name="f_" + name, number=idx, type=typ, label=F.LABEL_OPTIONAL)
    mdp.field.add(name="r_" + name, number=100 + idx, type=typ, label=F.LABEL_REPEATED)
pool = descriptor_pool.DescriptorPool()
pool.Add(fdp)
RefScalars = message_factory.GetMessageClass(pool.FindMessageTypeByName("c16k2.Scalars"))


@dataclass(eq=False, repr=False)
class Scalars(betterproto.Message):
    f_double: float = betterproto.double_field(1)
    f_float: float = betterproto.float_field(2)
    f_int32: int = betterproto.int32_field(3)
    f_int64: int = betterproto.int64_field(4)
    f_uint32: int = betterproto.uint32_field(5)
    f_uint64: int = betterproto.uint64_field(6)
    f_sint32: int = betterproto.sint32_field(7)
    f_sint64: int = betterproto.sint64_field(8)
    f_fixed32: int = betterproto.fixed32_field(9)
    f_fixed64: int = betterproto.fixed64_field(10)
    f_sfixed32: int = betterproto.sfixed32_field(11)
    f_sfixed64: int = betterproto.sfixed64_field(12)
    f_bool: bool = betterproto.bool_field(13)
    f_string: str = betterproto.string_field(14)
    f_bytes: bytes = betterproto.bytes_field(15)
    r_double: List[float] = betterproto.double_field(101)
    r_float: List[float] = betterproto.float_field(102)
    r_int32: List[int] = betterproto.int32_field(103)
    r_int64: List[int] = betterproto.int64_field(104)
    r_uint32: List[int] = betterproto.uint32_field(105)
    r_uint64: List[int] = betterproto.uint64_field(106)
    r_sint32: List[int] = betterproto.sint32_field(107)
    r_sint64: List[int] = betterproto.sint64_field(108)
    r_fixed32: List[int] = betterproto.fixed32_field(109)
    r_fixed64: List[int] = betterproto.fixed64_field(110)
    r_sfixed32: List[int] = betterproto.sfixed32_field(111)
    r_sfixed64: List[int] = betterproto.sfixed64_field(112)
    r_bool: List[bool] = betterproto.bool_field(113)
    r_string: List[str] = betterproto.string_field(114)
    r_bytes: List[bytes] = betterproto.bytes_field(115)


@dataclass(eq=False, repr=False)
class Holder(betterproto.Message):
    maybe_int: Optional[int] = betterproto.message_field(1, wraps=betterproto.TYPE_INT64)
    maybe_str: Optional[str] = betterproto.message_field(2, wraps=betterproto.TYPE_STRING)
    when: datetime = betterproto.message_field(3)
    span: timedelta = betterproto.message_field(4)
    inner: Inner = betterproto.message_field(5)
    inners: List[Inner] = betterproto.message_field(6)
    table: Dict[str, int] = betterproto.map_field(7, betterproto.TYPE_STRING, betterproto.TYPE_SINT64)
    opt_sint: Optional[int] = betterproto.sint32_field(8, optional=True)
    opt_fixed: Optional[int] = betterproto.sfixed64_field(9, optional=True)
    opt_float: Optional[float] = betterproto.float_field(10, optional=True)
    one_a: int = betterproto.sint64_field(11, group="one")
    one_b: float = betterproto.double_field(12, group="one")


def same_float(a, b):
    return a == b or (a != a and b != b)


count = 0
for name, _ in KINDS:
    values = [v for v in SAMPLES[name] if not isinstance(v, bytearray)]
    if len(values) > 150:
        values = values[:40] + values[-40:] + rng.sample(values, 70)
    for v in values:
        if name == "float":
            v = f32(v) if abs(v) < 3e38 or v != v or abs(v) == float("inf") else v
        ref = RefScalars(**{"f_" + name: v})
        wire = ref.SerializeToString()
        mine = Scalars(**{"f_" + name: v})
        is_nan = isinstance(v, float) and v != v
        if not (isinstance(v, float) and v == 0 and str(v) == "-0.0"):
            # (a negative zero compares equal to the default and is not emitted)
            assert bytes(mine) == wire, (name, v, bytes(mine).hex(), wire.hex())
            assert len(mine) == ref.ByteSize() == len(wire), (name, v)
        assert len(mine) == len(bytes(mine))
        # repeated (packed for numeric kinds)
        vs = [v, v, values[0], values[-1]]
        if name == "float":
            vs = [f32(x) for x in vs]
        ref = RefScalars(**{"r_" + name: vs})
        wire = ref.SerializeToString()
        mine = Scalars(**{"r_" + name: vs})
        assert bytes(mine) == wire, (name, vs)
        assert len(mine) == ref.ByteSize() == len(wire)
        back = Scalars().parse(wire)
        assert all(
            same_float(x, y) if isinstance(x, float) else x == y
            for x, y in zip(getattr(back, "r_" + name), vs)
        )
        assert len(back) == len(wire)
        count += 1
assert count > 1000

for _ in range(400):
    h = Holder()
    if rng.random() < 0.6:
        h.maybe_int = rng.choice((0, -1, 2**63 - 1, -(2**63), rng.getrandbits(40)))
    if rng.random() < 0.6:
        h.maybe_str = rng.choice(("", "x", "é" * 70))
    if rng.random() < 0.6:
        h.when = datetime(2000, 1, 1, tzinfo=timezone.utc) + timedelta(
            seconds=rng.randrange(-(10**9), 10**9), microseconds=rng.randrange(10**6)
        )
    if rng.random() < 0.6:
        h.span = timedelta(seconds=rng.randrange(-(10**8), 10**8), microseconds=rng.randrange(10**6))
    if rng.random() < 0.6:
        h.inner = Inner(a=rng.choice(S64), b=f32(rng.random()), c="q" * rng.randrange(200))
    h.inners = [Inner(a=rng.choice(S64)) if rng.random() < 0.7 else Inner() for _ in range(rng.randrange(4))]
    h.table = {"k%d" % i if i else "": rng.choice(S64 + [0]) for i in range(rng.randrange(4))}
    if rng.random() < 0.5:
        h.opt_sint = rng.choice(S32 + [0])
    if rng.random() < 0.5:
        h.opt_fixed = rng.choice(S64 + [0])
    if rng.random() < 0.5:
        h.opt_float = rng.choice((0.0, -0.0, 1.5, float("inf")))
    pick = rng.random()
    if pick < 0.3:
        h.one_a = rng.choice(S64 + [0])
    elif pick < 0.6:
        h.one_b = rng.choice((0.0, -0.0, 1e300))
    data = bytes(h)
    assert len(h) == len(data)
    again = Holder().parse(data)
    assert bytes(again) == data and len(again) == len(data)
    buf = io.BytesIO()
    h.dump(buf, betterproto.SIZE_DELIMITED)
    assert buf.getvalue() == m_varint(len(data)) + data

print("C16 keep2 equiv: OK")
