"""C03 keep1: enum member naming (pythonize_enum_member_name + EnumDefinitionCompiler).

Exits 0 on the pristine tree and with the refactor applied.
Run:  PYTHONPATH=/tmp/wt/R7C03/src /venv/bin/python equiv.py
"""
import importlib
import itertools
import keyword
import os
import random
import sys
import tempfile

import grpc_tools
from grpc_tools import protoc

import betterproto
import betterproto.plugin.compiler as plugin_compiler
from betterproto import casing
from betterproto.compile.naming import pythonize_enum_member_name
from betterproto.lib.google.protobuf import (
    EnumDescriptorProto,
    EnumValueDescriptorProto,
    FileDescriptorProto,
    FileDescriptorSet,
    SourceCodeInfo,
    SourceCodeInfoLocation,
)
from betterproto.lib.google.protobuf.compiler import CodeGeneratorRequest
from betterproto.plugin.models import (
    EnumDefinitionCompiler,
    OutputTemplate,
    PluginRequestCompiler,
    get_comment,
    monkey_patch_oneof_index,
)
from betterproto.plugin.parser import generate_code, traverse

plugin_compiler.subprocess.check_output = lambda cmd, input, encoding: input
monkey_patch_oneof_index()
WKT_INCLUDE = os.path.join(os.path.dirname(grpc_tools.__file__), "_proto")
rng = random.Random(20240703)


# --------------------------------------------------------------------------
# Oracle: the documented rule, written out independently of the library code.
# --------------------------------------------------------------------------
def oracle_member_name(name, enum_name):
    prefix = casing.snake_case(enum_name).upper() + "_"
    if name.startswith(prefix) and name[len(prefix):].strip("_"):
        name = name[len(prefix):].strip("_")
    if keyword.iskeyword(name):
        return name + "_"
    if not name.isidentifier():
        return "_" + name
    return name


def oracle_sanitize(name):
    if keyword.iskeyword(name):
        return name + "_"
    if not name.isidentifier():
        return "_" + name
    return name


def oracle_entries(flat_enum_name, values):
    """values: [(proto name, number)] -> [(python name, number)]"""
    names = [oracle_member_name(n, flat_enum_name) for n, _ in values]
    if len(set(names)) != len(names):
        names = [oracle_sanitize(n) for n, _ in values]
    return list(zip(names, [num for _, num in values]))


# --------------------------------------------------------------------------
# 1. pythonize_enum_member_name on many (member, enum) pairs
# --------------------------------------------------------------------------
def check_function():
    enum_names = [
        "E", "Choice", "_Choice", "_Outer_Inner", "HTTPCode", "_HTTPCode", "Foo_Bar",
        "fooBar", "A1", "_Msg_Kind2", "X_", "__", "_", "", "None", "_None", "My_ENUM",
        "_Test_ARM", "_with", "Enum", "v1Status",
    ]
    members = [
        "ZERO", "E_ZERO", "E_", "E__", "E", "CHOICE_A", "CHOICE__A_", "CHOICE_", "CHOICE",
        "OUTER_INNER_X", "OUTER_INNER_", "OUTER_X", "INNER_X", "HTTP_CODE_OK",
        "HTTPCODE_OK", "HTTP_OK", "FOO_BAR_BAZ", "FOO_BAZ", "A1_B", "A_1_B", "MSG_KIND2_X",
        "MSG_KIND_2_X", "X_Y", "X__Y", "NONE_None", "NONE_NONE", "None", "True", "NONE_True",
        "CHOICE_1", "CHOICE_1A", "CHOICE___", "choice_a", "Choice_A", "CHOICE_CHOICE_A",
        "CHOICE_class", "CHOICE_mro", "class", "from", "MY_ENUM_A", "TEST_ARM_X", "TEST_ARM_",
        "WITH_with", "WITH_x", "ENUM_ENUM", "V1_STATUS_OK", "V_1_STATUS_OK", "_", "__", "_A",
        "A_", "_1",
    ]
    n = 0
    for enum_name, member in itertools.product(enum_names, members):
        assert pythonize_enum_member_name(member, enum_name) == oracle_member_name(
            member, enum_name
        ), (member, enum_name)
        n += 1
    # exhaustive over a small alphabet
    alphabet = "AE_1"
    for enum_name in ("A", "AE", "A_E", "_A", "A1", "E_"):
        for length in range(1, 6):
            for chars in itertools.product(alphabet, repeat=length):
                member = "".join(chars)
                assert pythonize_enum_member_name(member, enum_name) == oracle_member_name(
                    member, enum_name
                ), (member, enum_name)
                n += 1
    # random
    for _ in range(20000):
        enum_name = "".join(rng.choice("AbC_d1E") for _ in range(rng.randint(0, 6)))
        prefix = casing.snake_case(enum_name).upper() + "_"
        member = rng.choice(["", prefix, prefix[:-1], prefix + "_", prefix * 2]) + "".join(
            rng.choice("AB_1c") for _ in range(rng.randint(0, 4))
        )
        assert pythonize_enum_member_name(member, enum_name) == oracle_member_name(
            member, enum_name
        ), (member, enum_name)
        n += 1
    return n


# --------------------------------------------------------------------------
# 2. EnumDefinitionCompiler built directly from hand-made descriptors
# --------------------------------------------------------------------------
def make_compiler(flat_name, values, comments=None, path=(5, 0)):
    enum = EnumDescriptorProto(
        name=flat_name,
        value=[EnumValueDescriptorProto(name=n, number=v) for n, v in values],
    )
    locations = []
    for index, text in (comments or {}).items():
        locations.append(
            SourceCodeInfoLocation(path=[*path, 2, index], leading_comments=text)
        )
    source = FileDescriptorProto(
        name="x.proto", package="pkg", enum_type=[enum],
        source_code_info=SourceCodeInfo(location=locations),
    )
    request = PluginRequestCompiler(plugin_request_obj=CodeGeneratorRequest())
    output = OutputTemplate(parent_request=request, package_proto_obj=source)
    compiler = EnumDefinitionCompiler(
        source_file=source, parent=output, proto_obj=enum, path=list(path),
        typing_compiler=output.typing_compiler,
    )
    return compiler, output, source


def check_compiler_direct():
    cases = [
        ("_Choice", [("CHOICE_ZERO", 0), ("CHOICE_ONE", 1), ("CHOICE_NEG", -1)]),
        ("_Choice", [("ZERO", 0), ("CHOICE_ZERO", 1)]),                 # collision
        ("_Choice", [("CHOICE_A", 0), ("A", 0)]),                        # collision + alias
        ("_Choice", [("CHOICE_A", 0), ("CHOICE__A", 1), ("B", 2)]),      # collision via strip("_")
        ("_Choice", [("CHOICE_A", 0), ("CHOICE_B", 1), ("CHOICE_A_", 2)]),
        ("_E", [("ZERO", 0), ("E_", 1), ("E__", 2), ("E_E", 3)]),
        ("_E", [("E_None", 0), ("E_True", 1), ("E_class", 2)]),
        ("_E", [("E_None", 0), ("None", 1)]),                            # None_ vs None_ collide
        ("_E", [("E_1", 0), ("E_2", 2)]),                                # -> _1, _2
        ("_E", [("E_1", 0), ("_1", 2)]),                                 # collide after sanitising
        ("_Outer_Inner", [("OUTER_INNER_A", 0), ("INNER_A", 5), ("A", -7)]),
        ("_Outer_Inner", [("OUTER_INNER_A", 0), ("INNER_A", 5), ("A", -7), ("OUTER_INNER__A__", 9)]),
        ("_Alias", [("ALIAS_A", 0), ("ALIAS_B", 1), ("ALIAS_C", 1), ("ALIAS_D", -2147483648),
                    ("ALIAS_E", 2147483647)]),
        ("_Empty", []),
        ("_One", [("ONE_ONLY", 0)]),
        ("_Dup", [("X", 0), ("X", 0)]),   # not valid proto, still deterministic
    ]
    # random enums over a tiny name pool so that collisions are frequent
    pool = ["A", "B", "K_A", "K_B", "K__A", "K_A_", "K_", "K", "K_K_A", "None", "K_None",
            "K_1", "_1", "K_class", "class", "class_"]
    for _ in range(3000):
        k = rng.randint(0, 6)
        names = rng.sample(pool, k)
        cases.append(("_K", [(n, rng.choice([0, 1, 1, 2, -1, 2**31 - 1, -(2**31)])) for n in names]))
    for flat_name, values in cases:
        comments = {i: f" about {n}\n" for i, (n, _) in enumerate(values) if i % 2 == 0}
        compiler, output, source = make_compiler(flat_name, values, comments)
        got = [(e.name, e.value) for e in compiler.entries]
        assert got == oracle_entries(flat_name, values), (flat_name, values, got)
        # exactly one entry per schema value, in schema order, numbers carried over
        assert [e.value for e in compiler.entries] == [v for _, v in values]
        # (distinct proto names that only differ by the keyword-escaping underscore,
        # "class" / "class_", are a known limitation of the reference tree)
        valid = len({oracle_sanitize(n) for n, _ in values}) == len(values)
        if valid:
            assert len({e.name for e in compiler.entries}) == len(values), (flat_name, values, got)
        # comments follow the entry index (path + [2, i])
        for i, e in enumerate(compiler.entries):
            assert e.comment == get_comment(proto_file=source, path=[5, 0, 2, i])
            assert bool(e.comment) == (i in comments)
        assert all(type(e) is EnumDefinitionCompiler.EnumEntry for e in compiler.entries)
        assert isinstance(compiler.entries, list)
        assert output.enums == [compiler] and output.messages == []
        assert compiler.py_name == "K" or flat_name != "_K"
        assert compiler.deprecated is False and compiler.builtins_types == set()
    return len(cases)


# --------------------------------------------------------------------------
# 3. whole pipeline: protoc -> plugin -> import, compared with the descriptors
# --------------------------------------------------------------------------
SCHEMA = {
    "enums.proto": """
        syntax = "proto3";
        package zoo;

        // leading comment of Choice
        enum Choice {
            CHOICE_ZERO = 0;   // trailing zero
            CHOICE_ONE = 1;
            CHOICE_MINUS = -1;
            FOUR = 4;
        }
        enum Collide { COLLIDE_A = 0; B = 1; COLLIDE_C_ = 2; }
        message Box {
            // protoc only strips "COLLIDE_", the plugin's prefix is BOX_COLLIDE_:
            // a valid schema whose members collide once the prefix is dropped
            enum Collide { BOX_COLLIDE_A = 0; A = 1; BOX_COLLIDE_B = 2; }
            enum Under { BOX_UNDER_X = 0; X_ = 1; BOX_UNDER__Y_ = 2; }
        }
        enum Aliased {
            option allow_alias = true;
            ALIASED_UNKNOWN = 0;
            ALIASED_FIRST = 1;
            ALIASED_UNO = 1;
            ALIASED_MIN = -2147483648;
            ALIASED_MAX = 2147483647;
        }
        enum Keywords { KEYWORDS_None = 0; KEYWORDS_True = 1; KEYWORDS_class = 2; from = 3; KEYWORDS_1 = 4; }
        enum E { ZERO = 0; E_ = 1; E_E_X = 2; }
        enum HTTPCode { HTTP_CODE_OK = 0; HTTPCODE_NOT = 1; HTTP_OK = 2; }
        message Outer {
            enum Inner { OUTER_INNER_NONE = 0; INNER_SOME = 1; OUTER_INNER_ALL = -5; }
            message Deep {
                enum Kind { OUTER_DEEP_KIND_A = 0; KIND_B = 1; DEEP_KIND_C = 2; }
                Kind kind = 1;
            }
            Inner inner = 1;
            Choice choice = 2;
            repeated Collide collides = 3;
            map<string, Aliased> by_name = 4;
            optional Keywords kw = 5;
            oneof which { E e = 6; HTTPCode code = 7; }
        }
    """,
    "enums2.proto": """
        syntax = "proto3";
        package zoo;
        enum Second { SECOND_A = 0; SECOND_B = 7; }
        enum lower_case { LOWER_CASE_A = 0; lower_case_b = 1; }
    """,
}


def run_plugin(sources, out_dir):
    with tempfile.TemporaryDirectory() as src_dir:
        for name, text in sources.items():
            with open(os.path.join(src_dir, name), "w") as fh:
                fh.write(text)
        desc = os.path.join(src_dir, "set.bin")
        rc = protoc.main(
            ["protoc", f"-I{src_dir}", f"-I{WKT_INCLUDE}", "--include_imports",
             "--include_source_info", f"--descriptor_set_out={desc}", *sources]
        )
        assert rc == 0
        with open(desc, "rb") as fh:
            raw = fh.read()
    fds = FileDescriptorSet().parse(raw)
    request = CodeGeneratorRequest(file_to_generate=list(sources), proto_file=list(fds.file))
    request = CodeGeneratorRequest().parse(bytes(request))
    response = generate_code(request)
    for f in response.file:
        path = os.path.join(out_dir, f.name)
        os.makedirs(os.path.dirname(path), exist_ok=True)
        with open(path, "w") as fh:
            fh.write(f.content)
    return FileDescriptorSet().parse(raw), response


def schema_enums(fds):
    """[(flattened name as the plugin sees it, [(name, number)])] from pristine descriptors."""
    out = []

    def walk(prefix, enums, messages):
        for e in enums:
            out.append((f"{prefix}_{e.name}", [(v.name, v.number) for v in e.value]))
        for m in messages:
            walk(f"{prefix}_{m.name}", m.enum_type, m.nested_type)

    for f in fds.file:
        walk("", f.enum_type, f.message_type)
    return out


def check_pipeline():
    with tempfile.TemporaryDirectory() as out_dir:
        root = os.path.join(out_dir, "gen_enums")
        fds, response = run_plugin(SCHEMA, root)
        sys.path.insert(0, out_dir)
        zoo = importlib.import_module("gen_enums.zoo")
        enums = schema_enums(fds)
        assert len(enums) == 12
        generated = [
            obj for obj in vars(zoo).values()
            if isinstance(obj, type) and issubclass(obj, betterproto.Enum)
            and obj.__module__ == zoo.__name__
        ]
        assert len(generated) == len(enums)
        seen_classes = set()
        for flat_name, values in enums:
            cls_name = casing.sanitize_name(casing.pascal_case(flat_name))
            cls = getattr(zoo, cls_name)
            assert cls in generated and cls not in seen_classes
            seen_classes.add(cls)
            expected = oracle_entries(flat_name, values)
            # one member name per schema value, each carrying the schema's number
            assert len({n for n, _ in expected}) == len(values), (flat_name, expected)
            for (py_name, number), (proto_name, proto_number) in zip(expected, values):
                member = getattr(cls, py_name)
                assert isinstance(member, cls)
                assert member.value == number == proto_number, (flat_name, py_name)
            assert set(cls.__members__) == {n for n, _ in expected}, (
                flat_name, set(cls.__members__), expected)
            assert {m.value for m in cls} == {num for _, num in values}
        # a few spelled-out expectations
        assert zoo.Choice.ZERO == 0 and zoo.Choice.MINUS == -1 and zoo.Choice.FOUR == 4
        assert set(zoo.Collide.__members__) == {"A", "B", "C"}
        assert set(zoo.BoxCollide.__members__) == {"BOX_COLLIDE_A", "A", "BOX_COLLIDE_B"}
        assert zoo.BoxCollide.BOX_COLLIDE_A == 0 and zoo.BoxCollide.A == 1
        assert set(zoo.BoxUnder.__members__) == {"X", "X_", "Y"}
        assert zoo.Aliased.UNO is zoo.Aliased.FIRST and zoo.Aliased.MIN == -(2**31)
        assert zoo.Keywords.None_ == 0 and zoo.Keywords.class_ == 2 and zoo.Keywords.from_ == 3
        assert zoo.Keywords._1 == 4
        assert zoo.E.ZERO == 0 and zoo.E.E_ == 1 and zoo.E.E_X == 2
        assert zoo.OuterInner.NONE == 0 and zoo.OuterInner.INNER_SOME == 1
        assert zoo.OuterInner.ALL == -5
        assert zoo.OuterDeepKind.A == 0 and zoo.OuterDeepKind.KIND_B == 1
        assert zoo.OuterDeepKind.DEEP_KIND_C == 2
        # the rendered comments still sit below their member
        text = next(f.content for f in response.file if f.name == os.path.join("zoo", "__init__.py"))
        assert 'ZERO = 0\n    """trailing zero"""' in text
        assert '"""leading comment of Choice"""' in text
        # fields of enum type round-trip with these classes
        msg = zoo.Outer(inner=zoo.OuterInner.ALL, choice=zoo.Choice.MINUS,
                        collides=[zoo.Collide.A, zoo.Collide.C],
                        by_name={"k": zoo.Aliased.MAX}, kw=zoo.Keywords.None_,
                        code=zoo.HttpCode.HTTP_OK)
        back = zoo.Outer().parse(bytes(msg))
        assert back == msg and back.inner is zoo.OuterInner.ALL
    return len(enums)


if __name__ == "__main__":
    a = check_function()
    b = check_compiler_direct()
    c = check_pipeline()
    print(f"keep1 equiv OK: {a} name pairs, {b} enum descriptors, {c} generated enums")
