"""C06 keep1 equivalence check: Message._postprocess_single (the per-value decoding step of
the 'via parse' path).

 1. Every scalar kind x {implicit, proto3 optional, oneof member, repeated} x boundary
    values is serialised by google.protobuf and decoded by betterproto: values and
    presence (is_set / which_one_of vs HasField / WhichOneof) must agree.
 2. Hand-made varints (over-long, > 32 bit, bool > 1, unknown / negative enum numbers).
 3. Wrapper, Timestamp, Duration, plain / optional / oneof / repeated / map sub-messages,
    including empty payloads (presence only) - compared with the reference.
 4. _postprocess_single is called directly for every (wire type, proto type) pair and
    compared with an independent oracle written from the wire-format rules.
"""
import dataclasses
import math
import struct
from datetime import datetime, timedelta, timezone
from typing import Dict, List, Optional

import betterproto
from betterproto import FieldMetadata
from google.protobuf import (
    descriptor_pb2,
    descriptor_pool,
    duration_pb2,
    message_factory,
    timestamp_pb2,
    wrappers_pb2,
)

F = descriptor_pb2.FieldDescriptorProto
I32 = (0, 1, -1, 127, 128, -128, 2**31 - 1, -(2**31), 300, -300)
I64 = I32 + (2**31, -(2**31) - 1, 2**63 - 1, -(2**63), 2**53 + 1)
U32 = (0, 1, 127, 128, 2**31, 2**32 - 1, 16384)
U64 = U32 + (2**32, 2**63, 2**64 - 1)
FLT = (0.0, 1.0, -1.0, 0.5, -2.5, 3.4028234663852886e38, 1.401298464324817e-45,
       float("inf"), float("-inf"), float("nan"))
DBL = FLT + (1e308, 5e-324, 0.1, -0.1)

SCALARS = [
    # name, descriptor type, betterproto field factory, python type, values
    ("int32", F.TYPE_INT32, betterproto.int32_field, int, I32),
    ("int64", F.TYPE_INT64, betterproto.int64_field, int, I64),
    ("uint32", F.TYPE_UINT32, betterproto.uint32_field, int, U32),
    ("uint64", F.TYPE_UINT64, betterproto.uint64_field, int, U64),
    ("sint32", F.TYPE_SINT32, betterproto.sint32_field, int, I32),
    ("sint64", F.TYPE_SINT64, betterproto.sint64_field, int, I64),
    ("fixed32", F.TYPE_FIXED32, betterproto.fixed32_field, int, U32),
    ("fixed64", F.TYPE_FIXED64, betterproto.fixed64_field, int, U64),
    ("sfixed32", F.TYPE_SFIXED32, betterproto.sfixed32_field, int, I32),
    ("sfixed64", F.TYPE_SFIXED64, betterproto.sfixed64_field, int, I64),
    ("float", F.TYPE_FLOAT, betterproto.float_field, float, FLT),
    ("double", F.TYPE_DOUBLE, betterproto.double_field, float, DBL),
    ("bool", F.TYPE_BOOL, betterproto.bool_field, bool, (False, True)),
    ("string", F.TYPE_STRING, betterproto.string_field, str, ("", "a", "héllo ☃", "x" * 200)),
    ("bytes", F.TYPE_BYTES, betterproto.bytes_field, bytes, (b"", b"\x00", b"\xff\xfe", b"y" * 200)),
    ("enum", F.TYPE_ENUM, betterproto.enum_field, None, (0, 1, 2, -1)),
]


class Color(betterproto.Enum):
    ZERO = 0
    ONE = 1
    TWO = 2
    NEG = -1


# ------------------------------------------------------------------ reference schema
fdp = descriptor_pb2.FileDescriptorProto(
    name="c06_keep1.proto", package="c06k1", syntax="proto3",
    dependency=[
        "google/protobuf/wrappers.proto",
        "google/protobuf/timestamp.proto",
        "google/protobuf/duration.proto",
    ],
)
en = fdp.enum_type.add(name="Color")
for n, v in (("ZERO", 0), ("ONE", 1), ("TWO", 2), ("NEG", -1)):
    en.value.add(name=n, number=v)
sub_d = fdp.message_type.add(name="Sub")
sub_d.field.add(name="val", number=1, type=F.TYPE_INT32, label=F.LABEL_OPTIONAL)
sub_d.field.add(name="txt", number=2, type=F.TYPE_STRING, label=F.LABEL_OPTIONAL)

all_d = fdp.message_type.add(name="All")
all_d.oneof_decl.add(name="g")  # index 0
bp_fields = []


def add(name, number, ftype, *, label=F.LABEL_OPTIONAL, type_name=None, oneof=None, p3opt=False):
    kw = dict(name=name, number=number, type=ftype, label=label)
    if type_name:
        kw["type_name"] = type_name
    fd = all_d.field.add(**kw)
    if oneof is not None:
        fd.oneof_index = oneof
    if p3opt:
        fd.proto3_optional = True
    return fd


synthetic = []  # proto3 optional fields need their synthetic oneofs after the real ones
for i, (tname, ftype, factory, pytype, _values) in enumerate(SCALARS):
    tn = ".c06k1.Color" if tname == "enum" else None
    py = Color if tname == "enum" else pytype
    add(f"i_{tname}", 1 + i, ftype, type_name=tn)
    bp_fields.append((f"i_{tname}", py, factory(1 + i)))
    synthetic.append((f"o_{tname}", 21 + i, ftype, tn))
    bp_fields.append((f"o_{tname}", Optional[py], factory(21 + i, optional=True, group=f"_o_{tname}")))
    add(f"g_{tname}", 41 + i, ftype, type_name=tn, oneof=0)
    bp_fields.append((f"g_{tname}", py, factory(41 + i, group="g")))
    add(f"r_{tname}", 61 + i, ftype, type_name=tn, label=F.LABEL_REPEATED)
    bp_fields.append((f"r_{tname}", List[py], factory(61 + i)))

WRAPPERS = [
    ("bool", betterproto.TYPE_BOOL, "BoolValue", bool, (False, True)),
    ("bytes", betterproto.TYPE_BYTES, "BytesValue", bytes, (b"", b"\x00ab")),
    ("double", betterproto.TYPE_DOUBLE, "DoubleValue", float, (0.0, -1.5, float("inf"))),
    ("float", betterproto.TYPE_FLOAT, "FloatValue", float, (0.0, 0.5)),
    ("int32", betterproto.TYPE_INT32, "Int32Value", int, (0, -1, 2**31 - 1, -(2**31))),
    ("int64", betterproto.TYPE_INT64, "Int64Value", int, (0, -1, 2**63 - 1, -(2**63))),
    ("string", betterproto.TYPE_STRING, "StringValue", str, ("", "wü")),
    ("uint32", betterproto.TYPE_UINT32, "UInt32Value", int, (0, 2**32 - 1)),
    ("uint64", betterproto.TYPE_UINT64, "UInt64Value", int, (0, 2**64 - 1)),
]
for i, (wname, wtype, wmsg, pytype, _values) in enumerate(WRAPPERS):
    add(f"w_{wname}", 101 + i, F.TYPE_MESSAGE, type_name=f".google.protobuf.{wmsg}")
    bp_fields.append((f"w_{wname}", Optional[pytype], betterproto.message_field(101 + i, wraps=wtype)))

add("ts", 110, F.TYPE_MESSAGE, type_name=".google.protobuf.Timestamp")
add("dur", 111, F.TYPE_MESSAGE, type_name=".google.protobuf.Duration")
add("sub", 112, F.TYPE_MESSAGE, type_name=".c06k1.Sub")
synthetic.append(("o_sub", 113, F.TYPE_MESSAGE, ".c06k1.Sub"))
add("r_sub", 116, F.TYPE_MESSAGE, type_name=".c06k1.Sub", label=F.LABEL_REPEATED)
add("g_sub", 58, F.TYPE_MESSAGE, type_name=".c06k1.Sub", oneof=0)
add("g_w", 59, F.TYPE_MESSAGE, type_name=".google.protobuf.Int32Value", oneof=0)
add("g_ts", 60, F.TYPE_MESSAGE, type_name=".google.protobuf.Timestamp", oneof=0)

# maps
for mname, number, ktype, vtype, vtn in (
    ("m_sub", 114, F.TYPE_STRING, F.TYPE_MESSAGE, ".c06k1.Sub"),
    ("m_num", 115, F.TYPE_INT32, F.TYPE_SINT64, None),
):
    entry = all_d.nested_type.add(name=f"{mname.title().replace('_', '')}Entry")
    entry.options.map_entry = True
    entry.field.add(name="key", number=1, type=ktype, label=F.LABEL_OPTIONAL)
    kw = dict(name="value", number=2, type=vtype, label=F.LABEL_OPTIONAL)
    if vtn:
        kw["type_name"] = vtn
    entry.field.add(**kw)
    add(mname, number, F.TYPE_MESSAGE, type_name=f".c06k1.All.{entry.name}", label=F.LABEL_REPEATED)

for idx, (name, number, ftype, tn) in enumerate(synthetic, start=1):
    all_d.oneof_decl.add(name=f"_{name}")
    add(name, number, ftype, type_name=tn, oneof=idx, p3opt=True)

pool = descriptor_pool.Default()
pool.Add(fdp)
RefAll = message_factory.GetMessageClass(pool.FindMessageTypeByName("c06k1.All"))
RefSub = message_factory.GetMessageClass(pool.FindMessageTypeByName("c06k1.Sub"))


# ------------------------------------------------------------------ betterproto schema
@dataclasses.dataclass(eq=False, repr=False)
class Sub(betterproto.Message):
    val: int = betterproto.int32_field(1)
    txt: str = betterproto.string_field(2)


bp_fields += [
    ("ts", datetime, betterproto.message_field(110)),
    ("dur", timedelta, betterproto.message_field(111)),
    ("sub", Sub, betterproto.message_field(112)),
    ("o_sub", Optional[Sub], betterproto.message_field(113, optional=True, group="_o_sub")),
    ("r_sub", List[Sub], betterproto.message_field(116)),
    ("g_sub", Sub, betterproto.message_field(58, group="g")),
    ("g_w", Optional[int], betterproto.message_field(59, group="g", wraps=betterproto.TYPE_INT32)),
    ("g_ts", datetime, betterproto.message_field(60, group="g")),
    ("m_sub", Dict[str, Sub], betterproto.map_field(114, betterproto.TYPE_STRING, betterproto.TYPE_MESSAGE)),
    ("m_num", Dict[int, int], betterproto.map_field(115, betterproto.TYPE_INT32, betterproto.TYPE_SINT64)),
]
All = dataclasses.make_dataclass(
    "All", bp_fields, bases=(betterproto.Message,), eq=False, repr=False
)
All.__module__ = __name__

checks = 0


def same(a, b) -> bool:
    if isinstance(a, float) and isinstance(b, float) and math.isnan(a) and math.isnan(b):
        return True
    return a == b and type(a) is type(b) or (a == b and isinstance(a, int) and isinstance(b, int))


def presence_agrees(got, ref, label):
    """is_set / which_one_of of every presence-tracking field vs the reference."""
    global checks
    ref_which = ref.WhichOneof("g") or ""
    assert betterproto.which_one_of(got, "g")[0] == ref_which, (label, ref_which)
    for name, _t, _f in bp_fields:
        fd = RefAll.DESCRIPTOR.fields_by_name[name]
        if fd.is_repeated:
            continue
        if fd.has_presence:
            if name in ("ts", "dur"):
                # datetime / timedelta fields cannot tell epoch from unset
                continue
            assert got.is_set(name) == ref.HasField(name), (label, name)
            checks += 1
    return ref_which


# ------------------------------------------------------------------ 1. scalars
for tname, _ftype, _factory, pytype, values in SCALARS:
    for v in values:
        ref = RefAll()
        setattr(ref, f"i_{tname}", v)
        setattr(ref, f"o_{tname}", v)
        setattr(ref, f"g_{tname}", v)
        getattr(ref, f"r_{tname}").extend([v, values[-1], v])
        data = ref.SerializeToString()
        ref = RefAll.FromString(data)
        got = All().parse(data)
        which = presence_agrees(got, ref, (tname, v))
        assert which == f"g_{tname}"
        for prefix in ("i_", "o_", "g_"):
            a, b = getattr(got, prefix + tname), getattr(ref, prefix + tname)
            assert same(a, b) or (tname == "enum" and int(a) == b), (prefix + tname, v, a, b)
            if tname == "enum":
                assert isinstance(a, Color), (prefix, a)
            elif pytype is not float:
                assert type(a) is pytype, (prefix + tname, type(a))
            checks += 1
        ra, rb = getattr(got, "r_" + tname), list(getattr(ref, "r_" + tname))
        assert len(ra) == len(rb) == 3 and all(
            same(x, y) or (tname == "enum" and int(x) == y) for x, y in zip(ra, rb)
        ), (tname, v, ra, rb)
        # what is decoded encodes back to something the reference reads identically
        again = RefAll.FromString(bytes(got))
        assert again.WhichOneof("g") == which
        assert again.HasField(f"o_{tname}")
        b2 = getattr(again, "o_" + tname)
        assert same(b2, getattr(ref, "o_" + tname)), (tname, v)

# ------------------------------------------------------------------ 2. hand-made varints
def varint(n: int) -> bytes:
    out = bytearray()
    while True:
        b = n & 0x7F
        n >>= 7
        if n:
            out.append(b | 0x80)
        else:
            out.append(b)
            return bytes(out)


def key(number: int, wire: int) -> bytes:
    return varint((number << 3) | wire)


RAW_VARINTS = [
    0, 1, 2, 3, 127, 128, 255, 2**31 - 1, 2**31, 2**31 + 1, 2**32 - 1, 2**32, 2**32 + 5,
    2**33 + 2**31, 2**63 - 1, 2**63, 2**63 + 1, 2**64 - 1, 2**64 - 2, 2**64 - 2**31,
    2**64 - 2**31 - 1, 2**64 - 5,
]
VARINT_TYPES = ("int32", "int64", "uint32", "uint64", "sint32", "sint64", "bool", "enum")
for raw in RAW_VARINTS:
    for overlong in (False, True):
        enc = varint(raw)
        if overlong and len(enc) < 10:
            enc = enc[:-1] + bytes([enc[-1] | 0x80]) + b"\x00"
        for tname in VARINT_TYPES:
            if tname in ("uint32", "sint32") and raw >= 2**32:
                # the library keeps the excess bits of these two types (the reference
                # truncates); section 4 pins the library's own behaviour for them
                continue
            idx = [s[0] for s in SCALARS].index(tname)
            data = (
                key(1 + idx, 0) + enc + key(21 + idx, 0) + enc + key(41 + idx, 0) + enc
                + key(61 + idx, 0) + enc  # unpacked element
                + key(61 + idx, 2) + varint(2 * len(enc)) + enc + enc  # packed chunk
            )
            ref = RefAll.FromString(data)
            got = All().parse(data)
            presence_agrees(got, ref, (tname, raw, overlong))
            for prefix in ("i_", "o_", "g_"):
                a, b = getattr(got, prefix + tname), getattr(ref, prefix + tname)
                assert int(a) == int(b) and (isinstance(a, bool) == isinstance(b, bool)), (
                    prefix + tname, raw, a, b)
                checks += 1
            ra, rb = getattr(got, "r_" + tname), list(getattr(ref, "r_" + tname))
            assert [int(x) for x in ra] == [int(y) for y in rb] and len(ra) == 3, (tname, raw, ra, rb)
            if tname == "enum":
                assert all(isinstance(x, Color) for x in ra + [got.i_enum, got.o_enum, got.g_enum])

# ------------------------------------------------------------------ 3. messages, wrappers, well-known types
for wname, _wtype, wmsg, _pytype, values in WRAPPERS:
    wcls = getattr(wrappers_pb2, wmsg)
    for v in values:
        ref = RefAll()
        getattr(ref, f"w_{wname}").CopyFrom(wcls(value=v))
        data = ref.SerializeToString()
        got = All().parse(data)
        presence_agrees(got, RefAll.FromString(data), (wname, v))
        a = getattr(got, f"w_{wname}")
        assert same(a, getattr(ref, f"w_{wname}").value), (wname, v, a)
        assert got.is_set(f"w_{wname}")
        again = RefAll.FromString(bytes(got))
        assert again.HasField(f"w_{wname}") and same(getattr(again, f"w_{wname}").value, getattr(ref, f"w_{wname}").value)
        checks += 1
    # never received
    assert getattr(All().parse(b""), f"w_{wname}") is None
    assert not All().parse(b"").is_set(f"w_{wname}")

TS = [(0, 0), (1, 0), (-1, 0), (1700000000, 123456000), (-62135596800, 0), (253402300799, 999999000), (5, 1000)]
for seconds, nanos in TS:
    ref = RefAll(ts=timestamp_pb2.Timestamp(seconds=seconds, nanos=nanos), g_ts=timestamp_pb2.Timestamp(seconds=seconds, nanos=nanos))
    data = ref.SerializeToString()
    got = All().parse(data)
    presence_agrees(got, RefAll.FromString(data), ("ts", seconds, nanos))
    expect = datetime(1970, 1, 1, tzinfo=timezone.utc) + timedelta(seconds=seconds, microseconds=nanos // 1000)
    assert got.ts == expect and got.g_ts == expect, (seconds, nanos, got.ts)
    assert betterproto.which_one_of(got, "g")[0] == "g_ts"
    checks += 1
DUR = [(0, 0), (1, 0), (-1, 0), (3, 500000000), (-3, -500000000), (315576000000, 0), (0, 1000), (0, -1000)]
for seconds, nanos in DUR:
    ref = RefAll(dur=duration_pb2.Duration(seconds=seconds, nanos=nanos))
    got = All().parse(ref.SerializeToString())
    assert got.dur == timedelta(seconds=seconds, microseconds=nanos / 1e3), (seconds, nanos, got.dur)
    checks += 1

SUBS = [{}, {"val": 0}, {"val": 7}, {"txt": ""}, {"txt": "t"}, {"val": -1, "txt": "both"}]
for kw in SUBS:
    for field in ("sub", "o_sub", "g_sub"):
        ref = RefAll(**{field: RefSub(**kw)})
        data = ref.SerializeToString()
        got = All().parse(data)
        which = presence_agrees(got, RefAll.FromString(data), (field, kw))
        child = getattr(got, field)
        assert isinstance(child, Sub) and betterproto.serialized_on_wire(child), (field, kw)
        assert child.val == getattr(ref, field).val and child.txt == getattr(ref, field).txt
        assert got.is_set(field)
        assert (which == "g_sub") == (field == "g_sub")
        again = RefAll.FromString(bytes(got))
        assert again.HasField(field) and getattr(again, field) == getattr(ref, field), (field, kw)
        checks += 1
    # repeated and map values
    ref = RefAll(r_sub=[RefSub(**kw), RefSub(), RefSub(**kw)])
    ref.m_sub["k"].CopyFrom(RefSub(**kw))
    ref.m_sub[""].CopyFrom(RefSub())
    ref.m_num[0] = 0
    ref.m_num[-5] = -(2**63)
    ref.m_num[2**31 - 1] = 2**63 - 1
    data = ref.SerializeToString()
    got = All().parse(data)
    presence_agrees(got, RefAll.FromString(data), ("containers", kw))
    assert [(s.val, s.txt) for s in got.r_sub] == [(s.val, s.txt) for s in ref.r_sub]
    assert all(betterproto.serialized_on_wire(s) for s in got.r_sub)
    assert {k: (s.val, s.txt) for k, s in got.m_sub.items()} == {k: (s.val, s.txt) for k, s in ref.m_sub.items()}
    assert all(isinstance(s, Sub) and betterproto.serialized_on_wire(s) for s in got.m_sub.values())
    assert dict(got.m_num) == dict(ref.m_num)
    assert RefAll.FromString(bytes(got)) == ref
    checks += 1

# empty payloads written by hand: presence only
for number, name in ((112, "sub"), (113, "o_sub"), (58, "g_sub"), (59, "g_w"), (105, "w_int32"), (107, "w_string"), (60, "g_ts")):
    data = key(number, 2) + b"\x00"
    ref = RefAll.FromString(data)
    got = All().parse(data)
    presence_agrees(got, ref, ("empty payload", name))
    assert got.is_set(name) and ref.HasField(name)
    if name == "g_w":
        assert got.g_w == 0 and isinstance(got.g_w, int)
    if name == "w_string":
        assert got.w_string == ""
    assert RefAll.FromString(bytes(got)).HasField(name), name
    checks += 1

# a fresh message: all defaults, zero bytes, nothing set
fresh = All()
assert bytes(fresh) == b"" and betterproto.which_one_of(fresh, "g") == ("", None)
for name, _t, _f in bp_fields:
    assert not fresh.is_set(name), name
assert not betterproto.serialized_on_wire(fresh.sub)

# ------------------------------------------------------------------ 4. direct calls vs an oracle
W_VARINT, W_F64, W_LEN, W_F32 = 0, 1, 2, 5
PACK = {"double": "<d", "float": "<f", "fixed32": "<I", "fixed64": "<Q", "sfixed32": "<i", "sfixed64": "<q"}


def oracle_varint(proto_type: str, raw: int):
    if proto_type in ("int32", "enum"):
        raw &= 0xFFFFFFFF
        return raw - 2**32 if raw >= 2**31 else raw
    if proto_type == "int64":
        raw &= 2**64 - 1
        return raw - 2**64 if raw >= 2**63 else raw
    if proto_type in ("sint32", "sint64"):
        return -((raw + 1) // 2) if raw & 1 else raw // 2
    if proto_type == "bool":
        return raw > 0
    return raw


host = All()
for tname, _ftype, _factory, _pytype, _values in SCALARS:
    proto_type = tname
    for prefix in ("i_", "o_", "g_", "r_"):
        field_name = prefix + tname
        meta = All._betterproto.meta_by_field_name[field_name]
        assert meta.proto_type == proto_type
        for raw in RAW_VARINTS:
            out = host._postprocess_single(W_VARINT, meta, field_name, raw)
            exp = oracle_varint(proto_type, raw)
            assert out == exp and isinstance(out, bool) == isinstance(exp, bool), (field_name, raw, out, exp)
            if proto_type == "enum":
                assert type(out) is Color
            else:
                assert type(out) in (int, bool)
            checks += 1
        for wire, payloads in ((W_F32, (b"\x00" * 4, b"\x01\x02\x03\x04", b"\xff" * 4, b"\x00\x00\x80\x7f")),
                               (W_F64, (b"\x00" * 8, bytes(range(1, 9)), b"\xff" * 8))):
            for payload in payloads:
                if proto_type in PACK and struct.calcsize(PACK[proto_type]) == len(payload):
                    out = host._postprocess_single(wire, meta, field_name, payload)
                    exp = struct.unpack(PACK[proto_type], payload)[0]
                    assert same(out, exp), (field_name, payload, out, exp)
                elif proto_type not in PACK:
                    try:
                        host._postprocess_single(wire, meta, field_name, payload)
                    except KeyError:
                        pass
                    else:
                        raise AssertionError(("expected KeyError", field_name, wire))
                else:
                    try:
                        host._postprocess_single(wire, meta, field_name, payload)
                    except struct.error:
                        pass
                    else:
                        raise AssertionError(("expected struct.error", field_name, wire))
                checks += 1
        for payload in (b"", b"abc", "hé".encode()):
            out = host._postprocess_single(W_LEN, meta, field_name, payload)
            exp = payload.decode("utf-8") if proto_type == "string" else payload
            assert out == exp and type(out) is type(exp), (field_name, payload, out)
            checks += 1
        # wire types the format does not define are passed through untouched
        for wire in (3, 4, 6, 7):
            marker = object()
            assert host._postprocess_single(wire, meta, field_name, marker) is marker

for field_name in ("sub", "o_sub", "g_sub", "r_sub"):
    meta = All._betterproto.meta_by_field_name[field_name]
    for payload, exp in ((b"", (0, "")), (b"\x08\x05", (5, "")), (b"\x12\x01z\x08\x00", (0, "z"))):
        out = host._postprocess_single(W_LEN, meta, field_name, payload)
        assert type(out) is Sub and (out.val, out.txt) == exp and betterproto.serialized_on_wire(out)
        checks += 1
    marker = object()
    assert host._postprocess_single(W_VARINT, meta, field_name, marker) is marker
meta = All._betterproto.meta_by_field_name["m_num"]
entry = host._postprocess_single(W_LEN, meta, "m_num", b"\x08\x03\x10\x05")
assert (entry.key, entry.value) == (3, -3)
entry = host._postprocess_single(W_LEN, meta, "m_num", b"")
assert (entry.key, entry.value) == (0, 0)
meta = All._betterproto.meta_by_field_name["w_bool"]
assert host._postprocess_single(W_LEN, meta, "w_bool", b"") is False
assert host._postprocess_single(W_LEN, meta, "w_bool", b"\x08\x01") is True
meta = All._betterproto.meta_by_field_name["ts"]
assert host._postprocess_single(W_LEN, meta, "ts", b"") == datetime(1970, 1, 1, tzinfo=timezone.utc)
meta = All._betterproto.meta_by_field_name["dur"]
assert host._postprocess_single(W_LEN, meta, "dur", b"\x08\x02") == timedelta(seconds=2)
# direct calls leave the host message untouched
assert bytes(host) == b"" and not betterproto.serialized_on_wire(host)

print(f"C06 keep1 equiv: OK ({checks} checks)")
