"""C16 keep1: _preprocess_single / _len_preprocessed_single (and everything built on them)
produce the same payload bytes, sizes and exceptions for every scalar kind.
Oracles: an independent varint/zig-zag/struct implementation and google.protobuf."""
import random
import struct
from dataclasses import dataclass
from datetime import datetime, timedelta, timezone
from typing import List, Optional

import betterproto
from betterproto import (
    _len_preprocessed_single,
    _len_single,
    _preprocess_single,
    _serialize_single,
)
from google.protobuf import descriptor_pb2, descriptor_pool, message_factory

rnd = random.Random(1601)


# ------------------------------------------------------------------ oracle
def o_varint(n):
    assert -(2**63) <= n < 2**64
    n &= (1 << 64) - 1
    out = bytearray()
    while True:
        g = n & 0x7F
        n >>= 7
        if n:
            out.append(g | 0x80)
        else:
            out.append(g)
            return bytes(out)


def o_zigzag(n):
    return 2 * n if n >= 0 else -2 * n - 1


FMT = {"float": "<f", "double": "<d", "fixed32": "<I", "fixed64": "<Q", "sfixed32": "<i", "sfixed64": "<q"}
VARINT = ["enum", "bool", "int32", "int64", "uint32", "uint64"]
ZIGZAG = ["sint32", "sint64"]


def oracle(proto_type, value):
    if proto_type in VARINT:
        return o_varint(int(value))
    if proto_type in ZIGZAG:
        return o_varint(o_zigzag(value))
    if proto_type in FMT:
        return struct.pack(FMT[proto_type], value)
    if proto_type == "string":
        return value.encode("utf-8")
    return value


def ints(lo, hi, n=400):
    vals = {lo, lo + 1, hi - 1, hi, 0, 1, 2, 63, 64, 127, 128, 255, 256, 300}
    for p in range(1, 65):
        for d in (-2, -1, 0, 1, 2):
            for s in (1, -1):
                vals.add(s * (1 << p) + d)
    vals.update(rnd.randint(lo, hi) for _ in range(n))
    vals.update(rnd.randint(lo, hi) >> rnd.randrange(64) for _ in range(n))
    return sorted(v for v in vals if lo <= v <= hi)


def floats(fmt, ifmt, bits):
    out = [0.0, -0.0, 1.0, -1.0, 0.1, 1.5, float("inf"), float("-inf"), float("nan"), 1, -7, True]
    for _ in range(400):
        out.append(struct.unpack(fmt, struct.pack(ifmt, rnd.getrandbits(bits)))[0])
    return out


DOMAIN = {
    "enum": ints(-(2**31), 2**31 - 1),
    "bool": [False, True],
    "int32": ints(-(2**31), 2**31 - 1),
    "int64": ints(-(2**63), 2**63 - 1),
    "uint32": ints(0, 2**32 - 1),
    "uint64": ints(0, 2**64 - 1),
    "sint32": ints(-(2**31), 2**31 - 1),
    "sint64": ints(-(2**63), 2**63 - 1),
    "fixed32": ints(0, 2**32 - 1),
    "fixed64": ints(0, 2**64 - 1),
    "sfixed32": ints(-(2**31), 2**31 - 1),
    "sfixed64": ints(-(2**63), 2**63 - 1),
    "float": floats("<f", "<I", 32),
    "double": floats("<d", "<Q", 64),
    "string": ["", "a", "x" * 127, "x" * 128, "é" * 64, "héllo 世界 \U0001f600", "\x00\x7f\x80"],
    "bytes": [b"", b"\x00", bytes(range(256)), bytearray(b"abc")],
}

n = 0
for proto_type, values in DOMAIN.items():
    for v in values:
        want = oracle(proto_type, v)
        got = _preprocess_single(proto_type, "", v)
        assert got == want and type(got) is type(want), (proto_type, v, got, want)
        assert _len_preprocessed_single(proto_type, "", v) == len(want), (proto_type, v)
        n += 1
# exhaustive small range through the varint / zig-zag kinds
for v in range(-70000, 70000):
    assert _preprocess_single("int64", "", v) == o_varint(v)
    assert _preprocess_single("sint64", "", v) == o_varint(o_zigzag(v))
    assert _len_preprocessed_single("int32", "", v) == len(o_varint(v))
    assert _len_preprocessed_single("sint32", "", v) == len(o_varint(o_zigzag(v)))

# pass-through kinds return the very same object
for t in ("bytes", "map", "no-such-type"):
    obj = b"payload"
    assert _preprocess_single(t, "", obj) is obj
    assert _len_preprocessed_single(t, "", obj) == 7


# ------------------------------------------------------------------ error behaviour
def outcome(fn, *a):
    try:
        return ("ok", fn(*a))
    except Exception as e:  # noqa
        return (type(e).__name__, str(e))


VARINT_MSG = (
    "Negative value is not representable as a 64-bit integer - unable to encode a varint within 10 bytes."
)
for t in VARINT:
    for f in (_preprocess_single, _len_preprocessed_single):
        assert outcome(f, t, "", -(2**63) - 1) == ("ValueError", VARINT_MSG), (t, f)
        assert outcome(f, t, "", -(2**70)) == ("ValueError", VARINT_MSG)
        assert outcome(f, t, "", "x")[0] == "TypeError"
        assert outcome(f, t, "", None)[0] == "TypeError"
for t in ZIGZAG:
    for f in (_preprocess_single, _len_preprocessed_single):
        # zig-zag of anything is non-negative, so nothing is rejected
        assert outcome(f, t, "", -(2**63) - 1)[0] == "ok"
        assert outcome(f, t, "", "x")[0] == "TypeError"
        assert outcome(f, t, "", None)[0] == "TypeError"
# (out of range for sint64, but still deterministic: zig-zag gives 2**64 + 1)
assert _preprocess_single("sint64", "", -(2**63) - 1) == bytes([0x81] + [0x80] * 8 + [0x02])
assert _len_preprocessed_single("sint64", "", -(2**63) - 1) == 10
for t, (lo, hi) in {
    "fixed32": (0, 2**32 - 1),
    "fixed64": (0, 2**64 - 1),
    "sfixed32": (-(2**31), 2**31 - 1),
    "sfixed64": (-(2**63), 2**63 - 1),
}.items():
    for bad in (lo - 1, hi + 1, 2**70, -(2**70)):
        for f in (_preprocess_single, _len_preprocessed_single):
            got = outcome(f, t, "", bad)
            want = outcome(struct.pack, FMT[t], bad)
            assert got == want and got[0] == "error", (t, bad, got, want)
    for f in (_preprocess_single, _len_preprocessed_single):
        assert outcome(f, t, "", 1.5) == outcome(struct.pack, FMT[t], 1.5)
        assert outcome(f, t, "", "1")[0] == "error"
for f in (_preprocess_single, _len_preprocessed_single):
    assert outcome(f, "float", "", 1e39) == outcome(struct.pack, "<f", 1e39)
    assert outcome(f, "float", "", 1e39)[0] == "OverflowError"
    assert outcome(f, "double", "", "x")[0] == "error"
    assert outcome(f, "string", "", b"abc")[0] == "AttributeError"
    assert outcome(f, "string", "", "\ud800")[0] == "UnicodeEncodeError"
assert outcome(_len_preprocessed_single, "bytes", "", 5)[0] == "TypeError"
assert outcome(_preprocess_single, "bytes", "", 5) == ("ok", 5)

# ------------------------------------------------------------------ message branch is unchanged
dt = datetime(2020, 5, 17, 12, 30, 15, 250000, tzinfo=timezone.utc)
td = timedelta(days=3, seconds=7, microseconds=11)
for v in (dt, td):
    b = _preprocess_single("message", "", v)
    assert isinstance(b, bytes) and len(b) > 0
    assert _len_preprocessed_single("message", "", v) == len(b)
assert _preprocess_single("message", betterproto.TYPE_INT32, None) == b""
assert _len_preprocessed_single("message", betterproto.TYPE_INT32, None) == 0
assert _preprocess_single("message", betterproto.TYPE_INT32, -1) == b"\x08" + o_varint(-1)
assert _len_preprocessed_single("message", betterproto.TYPE_INT32, -1) == 11
assert _preprocess_single("message", betterproto.TYPE_STRING, "é") == b"\x0a\x02\xc3\xa9"
assert outcome(_preprocess_single, "message", "", None)[0] == "TypeError"
assert outcome(_len_preprocessed_single, "message", "", None)[0] == "TypeError"

# ------------------------------------------------------------------ framing built on top
WT = {"float": 5, "fixed32": 5, "sfixed32": 5, "double": 1, "fixed64": 1, "sfixed64": 1, "string": 2, "bytes": 2}
for proto_type, values in DOMAIN.items():
    for num in (1, 15, 16, 2047, 2048, 2**29 - 1):
        for v in values[:: max(1, len(values) // 60)]:
            payload = oracle(proto_type, v)
            wt = WT.get(proto_type, 0)
            want = o_varint(num << 3 | wt) + (o_varint(len(payload)) if wt == 2 else b"") + bytes(payload)
            if wt == 2 and not payload:
                assert _serialize_single(num, proto_type, v) == b""
                assert _len_single(num, proto_type, v) == 0
                got = _serialize_single(num, proto_type, v, serialize_empty=True)
                assert _len_single(num, proto_type, v, serialize_empty=True) == len(want)
            else:
                got = _serialize_single(num, proto_type, v)
                assert _len_single(num, proto_type, v) == len(want)
            assert got == want, (proto_type, num, v)

# ------------------------------------------------------------------ whole messages vs google.protobuf
F = descriptor_pb2.FieldDescriptorProto
KINDS = [
    ("double", F.TYPE_DOUBLE, float), ("float", F.TYPE_FLOAT, float), ("int32", F.TYPE_INT32, int),
    ("int64", F.TYPE_INT64, int), ("uint32", F.TYPE_UINT32, int), ("uint64", F.TYPE_UINT64, int),
    ("sint32", F.TYPE_SINT32, int), ("sint64", F.TYPE_SINT64, int), ("fixed32", F.TYPE_FIXED32, int),
    ("fixed64", F.TYPE_FIXED64, int), ("sfixed32", F.TYPE_SFIXED32, int), ("sfixed64", F.TYPE_SFIXED64, int),
    ("bool", F.TYPE_BOOL, bool), ("string", F.TYPE_STRING, str), ("bytes", F.TYPE_BYTES, bytes),
]
fdp = descriptor_pb2.FileDescriptorProto(name="c16_keep1.proto", package="c16k1", syntax="proto3")
for kind, ftype, _ in KINDS:
    m = fdp.message_type.add(name="M_" + kind)
    m.field.add(name="v", number=1, type=ftype, label=F.LABEL_OPTIONAL, proto3_optional=True, oneof_index=0)
    m.field.add(name="plain", number=2, type=ftype, label=F.LABEL_OPTIONAL)
    m.field.add(name="rep", number=300, type=ftype, label=F.LABEL_REPEATED)
    m.oneof_decl.add(name="_v")
pool = descriptor_pool.DescriptorPool()
pool.Add(fdp)
REF = {k: message_factory.GetMessageClass(pool.FindMessageTypeByName("c16k1.M_" + k)) for k, _, _ in KINDS}


def make(kind, pytype):
    field = getattr(betterproto, kind + "_field")
    ns = {
        "__annotations__": {"v": Optional[pytype], "plain": pytype, "rep": List[pytype]},
        "v": field(1, optional=True),
        "plain": field(2),
        "rep": field(300),
        "__module__": __name__,
    }
    return dataclass(eq=False, repr=False)(type("B_" + kind, (betterproto.Message,), ns))


BP = {k: make(k, t) for k, _, t in KINDS}
cmp = 0
for kind, _, _ in KINDS:
    values = [v for v in DOMAIN[kind] if not (isinstance(v, float) and v != v)]
    if kind in ("float", "double"):
        values = [float(v) for v in values]
    if kind == "float":  # only float32-representable values survive a round trip unchanged
        values = [struct.unpack("<f", struct.pack("<f", v))[0] for v in values]
    if kind == "bytes":
        values = [bytes(v) for v in values]
    for v in values:
        # (-0.0 in a field without presence is a separate, known divergence: only set `plain`
        # for values that are not equal to the default)
        kw = {"v": v, "plain": v} if v else {"v": v}
        ref = REF[kind](**kw).SerializeToString()
        msg = BP[kind](**kw)
        got = bytes(msg)
        assert got == ref, (kind, v, got.hex(), ref.hex())
        assert len(msg) == len(ref), (kind, v)
        back = BP[kind]().parse(got)
        assert back.v == v and bytes(back) == got, (kind, v)
        cmp += 1
    for k in (1, 2, 5, 40):
        chunk = [rnd.choice(values) for _ in range(k)]
        ref = REF[kind](rep=chunk).SerializeToString()
        msg = BP[kind](rep=chunk)
        assert bytes(msg) == ref and len(msg) == len(ref), (kind, chunk)
        assert BP[kind]().parse(ref).rep == chunk, (kind, chunk)
        cmp += 1
print("ok:", n, "direct payload checks,", cmp, "message comparisons with google.protobuf")
